"""C10 — a future is completed at most once and reports one consistent outcome."""
from ..lib import coqrun

PROP = "C10"
COQ_IMPORTS = ["TaskFut"]
COQ_FN = "TaskFut.run_any"
IMPL = "c10_impl.py"
RULE = ("op sequences (value, error, call, is_computed, set_value, set_error, reset_unsafe, subscribe ok/raising) of length "
        "0..40 on FutureBase / Future(provider script) / AsyncTask / ConstFuture / ErrorFuture; 75% mostly-valid stream, 25% "
        "malformed stream (double sets, sets after reset, raising callbacks); plus scheduled tasks (KSusp): a body of 0..3 "
        "suspensions (dependency = lazy Future or batch item, completing with a value or an error), each with a cleanup "
        "behaviour on close() (clean / raises Exception / raises BaseException / yields again) and 0..6 inner operations "
        "issued on the task while it is suspended (is_computed, set_value, set_error, subscribe ok/raising, guarded reads), "
        "driven by the same top-level op lists; distinct = different (kind, script, op list); "
        "non-trivial = at least one completion and at least one op after it (KSusp: the body is started by a read and "
        "suspends at least once); plus the RE-ENTRANT SUBSCRIBER profile of both families: 2..5 on_computed subscribers "
        "whose behaviour script (returns / raises / unsubscribes itself, the next, the previous or any other subscriber "
        "/ subscribes a new one / a sequence of these) acts on fut.on_computed from inside the callback, 1..3 completions "
        "(by a read, set_value, set_error, an inner set on the suspended task, a failing dependency, the body) separated "
        "by reset_unsafe(); plus the EXCEPTION-CLASS dimension: every raising subscriber raises an Exception of one of 17 "
        "classes (harness class, AssertionError from a failing assert, a subclass of it, ValueError, KeyError, IndexError, "
        "TypeError, AttributeError, ZeroDivisionError, OSError, RuntimeError, NotImplementedError, StopIteration, "
        "FutureIsAlreadyComputed, BatchingError, BatchCancelledError, user-defined Exception subclass) - drawn for every "
        "raising subscriber of all families, and swept: every class x every completion path (Future/AsyncTask: value, "
        "error, call, set_value, set_error; FutureBase: set_value, set_error; scheduled task: inner set_value/set_error "
        "while suspended, failing dependency, body return/raise, top-level set; batch: subscriber on an item set by the "
        "flush body, on an item left to BatchBase._computed's loop, on the batch); plus the BATCH family (KBatch): a "
        "BatchBase with 1..4 BatchItemBase items as futures, scripted subscribers on each, a flush body that sets / "
        "forgets / sets twice each item and returns or raises, ops on the batch (reads, set_value, set_error, flush, "
        "cancel, subscribe) and reads on items; plus the PROVIDER-CLASS dimension: every raise of a provider / task body / "
        "flush body raises one of the 17 Exception classes, or the computation is the second resolver of a promise shared "
        "with another lazy resolver (genuine FutureIsAlreadyComputed about that other future) - drawn for every raise of "
        "all families and swept: 18 x (Future/AsyncTask x first accessor value/error/call, scheduled-task body, flush body); "
        "plus CROSS-FUTURE CALLBACKS: a subscriber that completes ANOTHER future of the case from inside its callback "
        "(set_value/set_error, guarded by is_computed() or not, on a later / earlier sibling item, the item itself, the "
        "batch, an absent future; chains), a _cancel() override that sets items, items set / subscribed from outside - in "
        "the random batch family and swept: 9 completion paths (cancel, raising flush, partial flush, item read, batch "
        "read, batch set_value / set_error, item set from outside, cancel with override) x 5 target relations x guarded/"
        "unguarded; in the single-future families: a subscriber calling set_value/set_error on the future being notified; "
        "plus the KIND OF EXCEPTION OBJECT (implementation-side payload, case['ekind']): every exception instance of the case "
        "is plain / falsy through __len__ / falsy through __bool__ / has a raising __bool__ / an __eq__ that says yes to "
        "everything / no to everything - swept: 5 kinds x 21 ways a future of any family comes to hold an error x first reader "
        "value/error/call, and attached to a sample of all older families; on every case a parent task finally yields each "
        "computed future (one more reader)")
TRUSTED = ["qcore.events.EventHook subscribe/unsubscribe/safe_trigger are modelled as list append / remove-first / a loop "
           "over a copy of the handler list (Futures.notify); qcore.errors.reraise is exercised, not modelled"]
ASSUMPTIONS = ["callbacks raise only Exception subclasses - of any class (BaseException from a callback is outside the statement)",
               "KBatch: no reset_unsafe(); callbacks re-enter through set_value/set_error and the subscription list only (no "
               "computing reads, flush() or cancel() from inside a callback); C11's check drives batches in the scheduler",
               "batches and batch items are driven by C11's check; here a batch item only carries a task's suspension",
               "a computing read of a suspended task from inside its own dependency's computation (re-entrant scheduler) "
               "and AsyncContext pause()/resume() failures are not explored"]

KINDS = ["KLazy", "KLazy", "KLazy", "KTask", "KTask", "KPlain", "KConst", "KError"]

# Exception classes a raising subscriber raises (model: Futures.xcls; runner: c10_impl._raise_cls)
XCLASSES = ["XUser", "XAssertion", "XAssertionSub", "XValue", "XKey", "XIndex", "XType", "XAttribute", "XZeroDivision",
            "XOSError", "XRuntime", "XNotImplemented", "XStopIteration", "XAlreadyComputed", "XBatching",
            "XBatchCancelled", "XCustom"]


def _PR(n, cls="XUser"):
    """a provider / body / flush body that raises the Exception instance n of class cls"""
    return {"PRaise": [cls, n]}


def _R(cls="XUser"):
    return {"CbRaise": [cls]}


CB_RAISE = _R()


def _xcls(rng):
    """30% the harness's own class, 20% AssertionError / a subclass of it, 50% uniform over all classes."""
    r = rng.random()
    if r < 0.30:
        return "XUser"
    if r < 0.50:
        return "XAssertion" if rng.random() < 0.7 else "XAssertionSub"
    return rng.choice(XCLASSES)


def _val(rng):
    return "VNone" if rng.random() < 0.15 else {"VInt": [rng.randrange(-3, 50)]}


def gen_case(rng, malformed):
    kind = rng.choice(KINDS)
    prov = []
    for _ in range(rng.choice([0, 1, 1, 1, 2, 3])):
        r = rng.random()
        if r < 0.55:
            prov.append({"PRet": [_val(rng)]})
        elif r < 0.92:
            prov.append(_PR(rng.randrange(1, 60)))
        else:
            prov.append({"PBase": [rng.randrange(60, 90)]})
    o0 = {"Ok": [_val(rng)]} if kind != "KError" else {"Err": [rng.randrange(100, 130)]}
    n = rng.choice([0, 1, 2, 3, 5, 8, 12, 20, 40]) if not malformed else rng.randrange(3, 25)
    ops = []
    nsub = 0
    for _ in range(n):
        r = rng.random()
        if malformed:
            if r < 0.3:
                ops.append({"OSetValue": [_val(rng)]})
            elif r < 0.5:
                ops.append({"OSetError": [rng.randrange(200, 260)]})
            elif r < 0.65:
                ops.append("OReset")
            elif r < 0.8:
                nsub += 1
                ops.append({"OSubscribe": [nsub, CB_RAISE]})
            else:
                ops.append(rng.choice(["OValue", "OError", "OCall", "OIsComputed"]))
        else:
            if r < 0.22:
                ops.append("OValue")
            elif r < 0.40:
                ops.append("OError")
            elif r < 0.50:
                ops.append("OCall")
            elif r < 0.62:
                ops.append("OIsComputed")
            elif r < 0.72:
                ops.append({"OSetValue": [_val(rng)]})
            elif r < 0.80:
                ops.append({"OSetError": [rng.randrange(200, 260)]})
            elif r < 0.84:
                ops.append("OReset")
            else:
                nsub += 1
                ops.append({"OSubscribe": [nsub, "CbOk" if rng.random() < 0.6 else CB_RAISE]})
    return {"args": [kind, prov, o0, ops], "meta": {"malformed": malformed}}


def _beh(rng, me, fresh, depth=0):
    """Behaviour script of subscriber number `me` (ids are handed out 1, 2, 3, ... in subscription order, so
    me+1 is the subscriber registered right after it, me-1 the one before); `fresh` hands out ids for
    subscribers created from inside a callback."""
    r = rng.random()
    if r < 0.25:
        return "CbOk"
    if r < 0.35:
        return CB_RAISE
    if r < 0.75:
        q = rng.random()
        if q < 0.45:
            t = me                                  # one-shot subscriber
        elif q < 0.65:
            t = me + 1                              # drops the next one (not yet notified)
        elif q < 0.85:
            t = me - 1                              # drops the previous one (already notified), 0 = nobody
        else:
            t = rng.randrange(0, me + 4)            # anybody, maybe not (or not yet) registered
        return {"CbUnsub": [t]}
    if r < 0.88 or depth >= 2:
        return {"CbSub": [fresh(), _beh(rng, me, fresh, depth + 1) if rng.random() < 0.3 and depth < 2 else
                          ("CbOk" if rng.random() < 0.7 else CB_RAISE)]}
    return {"CbSeq": [_beh(rng, me, fresh, depth + 1), _beh(rng, me, fresh, depth + 1)]}


def _fresh_counter():
    n = [100]

    def fresh():
        n[0] += 1
        return n[0]
    return fresh


def gen_reent(rng):
    """Plain futures with re-entrant subscribers: subscribers first, then 1..3 completions separated by
    reset_unsafe(), reads in between."""
    kind = rng.choice(["KLazy", "KLazy", "KLazy", "KTask", "KTask", "KPlain", "KPlain", "KConst", "KError"])
    fresh = _fresh_counter()
    prov = []
    for _ in range(rng.choice([1, 2, 3, 4])):
        r = rng.random()
        prov.append({"PRet": [_val(rng)]} if r < 0.6 else _PR(rng.randrange(1, 60)) if r < 0.95 else {"PBase": [rng.randrange(60, 90)]})
    o0 = {"Ok": [_val(rng)]} if kind != "KError" else {"Err": [rng.randrange(100, 130)]}
    ops = []
    nsub = 0
    for _ in range(rng.choice([2, 2, 3, 3, 4, 5])):
        nsub += 1
        ops.append({"OSubscribe": [nsub, _beh(rng, nsub, fresh)]})
        if rng.random() < 0.08:
            ops.append("OIsComputed")
    rounds = rng.choice([1, 1, 2, 2, 3])
    for rd in range(rounds):
        r = rng.random()
        setp = 0.8 if kind == "KPlain" else 0.35
        if r < setp / 2:
            ops.append({"OSetValue": [_val(rng)]})
        elif r < setp:
            ops.append({"OSetError": [rng.randrange(200, 260)]})
        else:
            ops.append(rng.choice(["OValue", "OError", "OCall"]))
        for _ in range(rng.choice([0, 0, 1, 2])):
            r = rng.random()
            if r < 0.7:
                ops.append(rng.choice(["OValue", "OError", "OCall", "OIsComputed"]))
            elif r < 0.85:
                ops.append({"OSetValue": [_val(rng)]} if rng.random() < 0.5 else {"OSetError": [rng.randrange(200, 260)]})
            else:
                nsub += 1
                ops.append({"OSubscribe": [nsub, _beh(rng, nsub, fresh)]})
        if rd < rounds - 1:
            ops.append("OReset")
            if rng.random() < 0.3:
                nsub += 1
                ops.append({"OSubscribe": [nsub, _beh(rng, nsub, fresh)]})
    return {"args": [kind, prov, o0, ops], "meta": {"malformed": False, "reentrant": True}}


def _cleanup(rng):
    r = rng.random()
    if r < 0.35:
        return "CleanOk"
    if r < 0.70:
        return {"CleanRaise": [rng.randrange(300, 340)]}
    if r < 0.80:
        return {"CleanRaiseBase": [rng.randrange(340, 360)]}
    return "CleanYield"


def gen_susp(rng, malformed, reent=False):
    """Scheduled task: phases (suspensions with inner ops), final behaviour, top-level ops.
    reent = the re-entrant subscriber profile: more subscribers up front, behaviour scripts from _beh."""
    nsub = [0]
    fresh = _fresh_counter()

    def sub(prefix):
        nsub[0] += 1
        if reent:
            return {prefix + "Subscribe": [nsub[0], _beh(rng, nsub[0], fresh)]}
        return {prefix + "Subscribe": [nsub[0], "CbOk" if rng.random() < 0.7 else CB_RAISE]}

    # top-level ops: subscribers first (usually), then a mix dominated by reads
    ops = []
    for _ in range(rng.choice([2, 2, 3, 3, 4]) if reent else rng.choice([0, 1, 1, 2, 3])):
        ops.append(sub("O"))
    n = rng.choice([1, 2, 3, 4, 6, 10]) if not malformed else rng.randrange(3, 14)
    for _ in range(n):
        r = rng.random()
        if malformed:
            if r < 0.25:
                ops.append({"OSetValue": [_val(rng)]})
            elif r < 0.4:
                ops.append({"OSetError": [rng.randrange(200, 260)]})
            elif r < 0.6:
                ops.append("OReset")
            elif r < 0.7:
                ops.append(sub("O"))
            else:
                ops.append(rng.choice(["OValue", "OError", "OCall", "OIsComputed"]))
        else:
            if r < 0.30:
                ops.append("OValue")
            elif r < 0.50:
                ops.append("OError")
            elif r < 0.60:
                ops.append("OCall")
            elif r < 0.72:
                ops.append("OIsComputed")
            elif r < 0.78:
                ops.append({"OSetValue": [_val(rng)]})
            elif r < 0.84:
                ops.append({"OSetError": [rng.randrange(200, 260)]})
            elif r < 0.88:
                ops.append("OReset")
            else:
                ops.append(sub("O"))
    phases = []
    for _ in range(rng.choice([0, 1, 1, 1, 1, 2, 2, 3])):
        inner = []
        for _ in range(rng.choice([0, 1, 2, 2, 3, 4, 6])):
            r = rng.random()
            if r < 0.22:
                inner.append({"ISetError": [rng.randrange(400, 460)]})
            elif r < 0.40:
                inner.append({"ISetValue": [_val(rng)]})
            elif r < 0.60:
                inner.append(sub("I"))
            elif r < 0.72:
                inner.append("IIsComputed")
            else:
                inner.append(rng.choice(["IValue", "IError", "ICall"]))
        dep = {"Ok": [_val(rng)]} if rng.random() < 0.8 else {"Err": [rng.randrange(500, 540)]}
        phases.append({"mkphase": [rng.choice(["ViaFuture", "ViaBatch"]), _cleanup(rng), inner, dep]})
    r = rng.random()
    fin = {"PRet": [_val(rng)]} if r < 0.6 else _PR(rng.randrange(1, 60)) if r < 0.92 else {"PBase": [rng.randrange(60, 90)]}
    return {"args": ["KSusp", phases, fin, ops], "meta": {"malformed": malformed, "reentrant": reent}}


def _map_beh(k, f):
    """Behaviour script k with every raise's class replaced by f(class) (model: FuturesProofs.recls)."""
    if isinstance(k, str):
        return k
    (name, a), = k.items()
    if name == "CbRaise":
        return {"CbRaise": [f(a[0])]}
    if name == "CbSub":
        return {"CbSub": [a[0], _map_beh(a[1], f)]}
    if name == "CbSeq":
        return {"CbSeq": [_map_beh(a[0], f), _map_beh(a[1], f)]}
    return k


def _map_ops(ops, prefix, f):
    return [{prefix + "Subscribe": [o[prefix + "Subscribe"][0], _map_beh(o[prefix + "Subscribe"][1], f)]}
            if isinstance(o, dict) and prefix + "Subscribe" in o else o for o in ops]


def _map_pout(po, g):
    if isinstance(po, dict) and "PRaise" in po:
        return {"PRaise": [g(po["PRaise"][0]), po["PRaise"][1]]}
    return po


def _map_case(c, f, g=None):
    """The same case with the Exception class of every raising subscriber (top-level and inner) mapped by f
    (model: TaskFutProofs.recls_case) and, if given, the class of every raise of the provider / body / flush body
    mapped by g (model: TaskFutProofs.precls_case)."""
    kind, a1, a2, ops = c["args"][:4]
    if g is not None:
        if kind in ("KSusp", "KBatch"):
            a2 = _map_pout(a2, g)
        else:
            a1 = [_map_pout(po, g) for po in a1]
    if kind == "KBatch":
        a1 = [{"": [[{"": [sb[""][0], _map_beh(sb[""][1], f)]} for sb in sp[""][0]], sp[""][1]]} for sp in a1]
        ops = [{"BOn": [o["BOn"][0], _map_ops([o["BOn"][1]], "O", f)[0]]} if isinstance(o, dict) and "BOn" in o else o for o in ops]
        args = [kind, a1, a2, ops] + c["args"][4:]
        return {"args": args, "tree": args, "meta": dict(c.get("meta", {}))}
    if kind == "KSusp":
        a1 = [{"mkphase": [p["mkphase"][0], p["mkphase"][1], _map_ops(p["mkphase"][2], "I", f), p["mkphase"][3]]} for p in a1]
    args = [kind, a1, a2, _map_ops(ops, "O", f)]
    return {"args": args, "tree": args, "meta": dict(c.get("meta", {}))}


def _xcls_plain(rng, kind, path, cls):
    """Exception-class profile, plain futures: 1..3 subscribers, one of them (any position) raises `cls`, the others
    return / raise another class / are one-shots; completion through `path`; then reads, a second set, sometimes
    reset_unsafe() and a second completion."""
    fresh = _fresh_counter()
    nsubs = rng.choice([1, 2, 2, 3])
    pos = rng.randrange(nsubs)
    ops = []
    for i in range(nsubs):
        if i == pos:
            k = _R(cls) if rng.random() < 0.8 else {"CbSeq": [{"CbSub": [fresh(), "CbOk"]}, _R(cls)]}
        else:
            r = rng.random()
            k = "CbOk" if r < 0.55 else _R(_xcls(rng)) if r < 0.8 else {"CbUnsub": [i + 1]}
        ops.append({"OSubscribe": [i + 1, k]})
    ok = rng.random() < 0.7
    prov = [{"PRet": [_val(rng)]} if ok else _PR(rng.randrange(1, 60))]
    if rng.random() < 0.3:
        prov.append({"PRet": [_val(rng)]} if rng.random() < 0.5 else _PR(rng.randrange(1, 60)))

    def completion(p):
        if p == "OSetValue":
            return {"OSetValue": [_val(rng)]}
        if p == "OSetError":
            return {"OSetError": [rng.randrange(200, 260)]}
        return p
    ops.append(completion(path))
    for _ in range(rng.choice([1, 2, 2, 3])):
        r = rng.random()
        ops.append(rng.choice(["OValue", "OError", "OCall", "OIsComputed"]) if r < 0.8 else completion(rng.choice(["OSetValue", "OSetError"])))
    if rng.random() < 0.3:
        ops.append("OReset")
        ops.append(completion(rng.choice(["OValue", "OError", "OCall"] if kind != "KPlain" else ["OSetValue", "OSetError"])))
        ops.append(rng.choice(["OValue", "OError", "OCall"]))
    return {"args": [kind, prov, {"Ok": ["VNone"]}, ops], "meta": {"malformed": False, "xcls": cls, "path": "%s:%s" % (kind, path)}}


XCLS_PLAIN_PATHS = [(k, p) for k in ("KLazy", "KTask") for p in ("OValue", "OError", "OCall", "OSetValue", "OSetError")] + \
                   [("KPlain", "OSetValue"), ("KPlain", "OSetError")]
# scheduled task: completed by an inner set while suspended, by a failing dependency, by the body, by a top-level set
XCLS_SUSP_PATHS = ["inner-set-value", "inner-set-error", "dependency-error", "body-return", "body-raise", "top-set-value",
                   "top-set-error"]


def _xcls_susp(rng, path, cls):
    """Exception-class profile, scheduled task: the raising subscriber is registered at top level or while the
    task is suspended; the completion comes through `path`."""
    via = rng.choice(["ViaFuture", "ViaBatch"])
    inner_sub = rng.random() < 0.5 and not path.startswith("top-set")
    ops = []
    nid = [0]

    def sub(prefix, k):
        nid[0] += 1
        return {prefix + "Subscribe": [nid[0], k]}
    if not inner_sub:
        ops.append(sub("O", _R(cls)))
    if rng.random() < 0.6:
        ops.append(sub("O", "CbOk" if rng.random() < 0.6 else _R(_xcls(rng))))
    inner = []
    if inner_sub:
        inner.append(sub("I", _R(cls)))
    if rng.random() < 0.4:
        inner.append(sub("I", "CbOk" if rng.random() < 0.6 else _R(_xcls(rng))))
    if path == "inner-set-value":
        inner.append({"ISetValue": [_val(rng)]})
    elif path == "inner-set-error":
        inner.append({"ISetError": [rng.randrange(400, 460)]})
    if path.startswith("inner-set") and rng.random() < 0.5:
        inner.append(rng.choice(["IValue", "IError", "ICall", {"ISetValue": ["VNone"]}]))
    dep = {"Err": [rng.randrange(500, 540)]} if path == "dependency-error" else {"Ok": [_val(rng)]}
    clean = _cleanup(rng) if path.startswith("inner-set") else "CleanOk"
    phases = [{"mkphase": [via, clean, inner, dep]}]
    if rng.random() < 0.25:
        phases.append({"mkphase": [rng.choice(["ViaFuture", "ViaBatch"]), "CleanOk", [], {"Ok": [_val(rng)]}]})
    fin = _PR(rng.randrange(1, 60)) if path == "body-raise" else {"PRet": [_val(rng)]}
    if path == "top-set-value":
        ops.append({"OSetValue": [_val(rng)]})
    elif path == "top-set-error":
        ops.append({"OSetError": [rng.randrange(200, 260)]})
    else:
        ops.append(rng.choice(["OValue", "OError", "OCall"]))
    for _ in range(rng.choice([1, 2, 3])):
        r = rng.random()
        ops.append(rng.choice(["OValue", "OError", "OCall", "OIsComputed"]) if r < 0.85 else {"OSetValue": [_val(rng)]})
    return {"args": ["KSusp", phases, fin, ops], "meta": {"malformed": False, "xcls": cls, "path": "KSusp:" + path}}


def _on(t, o):
    return {"BOn": [{"n": t}, o]}


def _outc(rng):
    return {"Ok": [_val(rng)]} if rng.random() < 0.8 else {"Err": [rng.randrange(600, 640)]}


def _batch_follow(rng, nitems, n):
    ops = []
    for _ in range(n):
        r = rng.random()
        if r < 0.70:
            ops.append(_on(rng.randrange(0, nitems + 1), rng.choice(["OValue", "OError", "OCall", "OIsComputed"])))
        elif r < 0.80:
            ops.append(_on(0, {"OSetValue": [_val(rng)]} if rng.random() < 0.5 else {"OSetError": [rng.randrange(200, 260)]}))
        elif r < 0.90:
            ops.append("BFlush")
        else:
            ops.append("BCancel")
    return ops


def _batch_completing(rng, nitems):
    r = rng.random()
    if r < 0.30:
        return _on(rng.randrange(1, nitems + 1), rng.choice(["OValue", "OError", "OCall"]))
    if r < 0.50:
        return _on(0, rng.choice(["OValue", "OError", "OCall"]))
    if r < 0.70:
        return "BFlush"
    if r < 0.80:
        return "BCancel"
    return _on(0, {"OSetValue": [_val(rng)]} if rng.random() < 0.5 else {"OSetError": [rng.randrange(200, 260)]})


def _cbset(rng, me, nitems, rel=None, guarded=None):
    """A subscriber of future `me` (0 = batch, i = item i) that completes ANOTHER future of the case from inside its
    callback: a later / earlier sibling item, itself, the batch, anybody (maybe absent)."""
    rel = rel or rng.choice(["later", "later", "later", "earlier", "self", "batch", "any"])
    if rel == "later":
        t = me + 1 if me < nitems else 1
    elif rel == "earlier":
        t = me - 1 if me > 1 else nitems
    elif rel == "self":
        t = me
    elif rel == "batch":
        t = 0
    else:
        t = rng.randrange(0, nitems + 2)
    g = (rng.random() < 0.6) if guarded is None else guarded
    return {"CbSet": [t, _outc(rng), "true" if g else "false"]}


CROSS_PATHS = ["cancel", "flush-raises", "flush-partial", "item-read", "batch-read", "batch-set-value", "batch-set-error",
               "item-set-outside", "cancel-override"]
CROSS_RELS = ["later", "earlier", "self", "batch", "chain"]


def _cross_case(rng, path, rel, guarded):
    """Cross-future profile: 2..4 items that are still uncomputed when the batch completes through `path`; a subscriber
    on one item completes - guarded or not - a later / earlier sibling, itself, the batch, or starts a chain (item i
    sets i+1 whose subscriber sets i+2); recording subscribers on every future."""
    n = rng.choice([2, 3, 3, 4])
    pos = rng.randrange(1, n) if rel in ("later", "chain") else rng.randrange(2, n + 1) if rel == "earlier" else rng.randrange(1, n + 1)
    items = []
    for i in range(1, n + 1):
        subs = [{"": [i, "CbOk"]}]
        if i == pos:
            subs.insert(rng.choice([0, 1]), {"": [10 + i, _cbset(rng, i, n, "later" if rel == "chain" else rel, guarded)]})
        elif rel == "chain" and i == pos + 1 and i < n:
            subs.append({"": [10 + i, _cbset(rng, i, n, "later", guarded)]})
        elif rng.random() < 0.15:
            subs.append({"": [10 + i, _R(_xcls(rng))]})
        if path == "flush-partial":
            acts = [_outc(rng)] if i > pos + 1 or (i < pos and rng.random() < 0.5) else []
        elif path in ("item-read", "batch-read"):
            acts = [] if rng.random() < 0.5 else [_outc(rng)]
        else:
            acts = [_outc(rng)] if rng.random() < 0.3 and path != "flush-raises" else []
        items.append({"": [subs, acts]})
    fin = _PR(rng.randrange(1, 60), _xcls(rng)) if path == "flush-raises" else {"PRet": [_val(rng)]}
    ops = [_on(0, {"OSubscribe": [20, "CbOk"]})]
    if rng.random() < 0.3:
        ops.append(_on(0, {"OSubscribe": [21, _cbset(rng, 0, n, "any", guarded)]}))
    cancel = []
    if path == "cancel":
        ops.append("BCancel")
    elif path == "cancel-override":
        cancel = [{"": [{"n": rng.randrange(0, n)}, _outc(rng)]} for _ in range(rng.choice([1, 2]))]
        ops.append(rng.choice(["BCancel", _on(0, {"OSetError": [rng.randrange(200, 260)]})]))
    elif path in ("flush-raises", "flush-partial"):
        ops.append(rng.choice(["BFlush", _on(0, "OError"), _on(rng.randrange(1, n + 1), "OError")]))
    elif path == "item-read":
        ops.append(_on(rng.randrange(1, n + 1), rng.choice(["OValue", "OError", "OCall"])))
    elif path == "batch-read":
        ops.append(_on(0, rng.choice(["OValue", "OError", "OCall"])))
    elif path == "batch-set-value":
        ops.append(_on(0, {"OSetValue": [_val(rng)]}))
    elif path == "batch-set-error":
        ops.append(_on(0, {"OSetError": [rng.randrange(200, 260)]}))
    else:
        ops.append(_on(pos, {"OSetValue": [_val(rng)]} if rng.random() < 0.5 else {"OSetError": [rng.randrange(200, 260)]}))
        ops.append(rng.choice(["BCancel", "BFlush", _on(0, "OError")]))
    ops += [_on(t, rng.choice(["OValue", "OError"])) for t in range(n, -1, -1)]
    if rng.random() < 0.4:
        ops.append(rng.choice(["BCancel", "BFlush", _on(0, {"OSetValue": ["VNone"]}), _on(rng.randrange(1, n + 1), {"OSetValue": ["VNone"]})]))
    return {"args": ["KBatch", items, fin, ops, cancel],
            "meta": {"malformed": False, "path": "cross:%s:%s:%s" % (path, rel, "guarded" if guarded else "unguarded")}}


def _cross_single(rng, kind, guarded, first):
    """single-future families: a subscriber that calls set_value/set_error on the future being notified"""
    k = {"CbSet": [0, _outc(rng), "true" if guarded else "false"]}
    subs = [{"OSubscribe": [1, k]}, {"OSubscribe": [2, "CbOk"]}]
    rng.shuffle(subs)
    meta = {"malformed": False, "path": "cross-single:%s:%s" % (kind, "guarded" if guarded else "unguarded")}
    if kind == "KSusp":
        ph = [{"mkphase": [rng.choice(["ViaFuture", "ViaBatch"]), _cleanup(rng),
                           [{"ISubscribe": [3, k]}] + ([{"ISetValue": [_val(rng)]}] if rng.random() < 0.5 else []), {"Ok": [_val(rng)]}]}]
        return {"args": ["KSusp", ph, {"PRet": [_val(rng)]}, subs + [first, "OValue", "OError"]], "meta": meta}
    comp = first if kind != "KPlain" else {"OSetValue": [_val(rng)]}
    return {"args": [kind, [{"PRet": [_val(rng)]}], {"Ok": ["VNone"]}, subs + [comp, "OValue", "OError", {"OSetError": [201]}]], "meta": meta}


def gen_cross(rng, tier):
    """EVERY completion path x target relation x guarded/unguarded (sweep); plus the single-future families."""
    cs = []
    for _ in range(1 if tier == "quick" else 12):
        for path in CROSS_PATHS:
            for rel in CROSS_RELS:
                for g in (True, False):
                    cs.append(_cross_case(rng, path, rel, g))
        for kind in ("KLazy", "KTask", "KPlain", "KSusp"):
            for g in (True, False):
                cs.append(_cross_single(rng, kind, g, rng.choice(["OValue", "OError", "OCall"])))
    return cs


def gen_batch(rng):
    """KBatch: a batch with 1..4 items as futures; subscribers on every future; the flush body sets the items."""
    fresh = _fresh_counter()
    nitems = rng.choice([1, 2, 2, 3, 3, 4])
    sid = [0]

    def beh(me=0):
        r = rng.random()
        if r < 0.22:
            return _cbset(rng, me, nitems)
        r = rng.random()
        return "CbOk" if r < 0.45 else _R(_xcls(rng)) if r < 0.80 else {"CbUnsub": [sid[0]]} if r < 0.92 else {"CbSub": [fresh(), "CbOk"]}
    items = []
    for ii in range(nitems):
        subs = []
        for _ in range(rng.choice([0, 1, 1, 2])):
            sid[0] += 1
            subs.append({"": [sid[0], beh(ii + 1)]})
        r = rng.random()
        acts = [] if r < 0.22 else [_outc(rng)] if r < 0.87 else [_outc(rng), _outc(rng)]
        items.append({"": [subs, acts]})
    r = rng.random()
    fin = {"PRet": [_val(rng)]} if r < 0.65 else _PR(rng.randrange(1, 60)) if r < 0.92 else {"PBase": [rng.randrange(60, 90)]}
    ops = []
    for _ in range(rng.choice([0, 1, 1, 2])):
        sid[0] += 1
        ops.append(_on(0, {"OSubscribe": [sid[0], beh()]}))
    if rng.random() < 0.2:
        ops += _batch_follow(rng, nitems, 1)
    if rng.random() < 0.25:
        # an item is set / subscribed from outside before the batch completes
        t = rng.randrange(1, nitems + 1)
        ops.append(_on(t, {"OSetValue": [_val(rng)]} if rng.random() < 0.6 else {"OSubscribe": [50, beh(t)]}))
    ops.append(_batch_completing(rng, nitems))
    ops += _batch_follow(rng, nitems, rng.choice([1, 2, 3, 4, 6]))
    cancel = [{"": [{"n": rng.randrange(0, nitems)}, _outc(rng)]} for _ in range(rng.choice([1, 1, 2]))] if rng.random() < 0.25 else []
    return {"args": ["KBatch", items, fin, ops, cancel], "meta": {"malformed": False}}


XCLS_BATCH_PATHS = ["flush-item", "loop-item", "batch-subscriber"]


def _xcls_batch(rng, path, cls):
    """Exception-class profile, batch: the raising subscriber sits on an item the flush body sets (items after it are
    set later by the same body), on an item the body forgets (completed by BatchBase._computed's loop, other forgotten
    items after it), or on the batch itself."""
    nitems = rng.choice([2, 3])
    pos = rng.randrange(0, nitems - 1) if path != "batch-subscriber" else -1
    items = []
    for i in range(nitems):
        subs = [{"": [i + 1, _R(cls) if i == pos else ("CbOk" if rng.random() < 0.7 else _R(_xcls(rng)))]}]
        if rng.random() < 0.3:
            subs.append({"": [10 + i, "CbOk"]})
        if path == "loop-item":
            acts = [] if i >= pos or rng.random() < 0.3 else [_outc(rng)]
        elif path == "flush-item":
            acts = [_outc(rng)] if i <= pos or rng.random() < 0.8 else []
        else:
            acts = [_outc(rng)] if rng.random() < 0.7 else []
        items.append({"": [subs, acts]})
    fin = {"PRet": [_val(rng)]} if rng.random() < 0.8 else _PR(rng.randrange(1, 60))
    ops = [_on(0, {"OSubscribe": [20, _R(cls) if path == "batch-subscriber" else "CbOk"]})]
    if rng.random() < 0.5:
        ops.append(_on(0, {"OSubscribe": [21, "CbOk"]}))
    ops.append(_batch_completing(rng, nitems))
    ops += [_on(t, rng.choice(["OValue", "OError"])) for t in range(nitems, -1, -1)]
    return {"args": ["KBatch", items, fin, ops], "meta": {"malformed": False, "xcls": cls, "path": "KBatch:" + path}}


def gen_xcls(rng, tier):
    """Exception-class profile: EVERY class of XCLASSES x EVERY completion path (a sweep, not a sample), the rest of
    the case drawn at random; the thorough tier repeats the sweep with other decorations."""
    cs = []
    for _ in range(1 if tier == "quick" else 12):
        for cls in XCLASSES:
            for kind, path in XCLS_PLAIN_PATHS:
                cs.append(_xcls_plain(rng, kind, path, cls))
            for path in XCLS_SUSP_PATHS:
                cs.append(_xcls_susp(rng, path, cls))
            for path in XCLS_BATCH_PATHS:
                cs.append(_xcls_batch(rng, path, cls))
    return cs


PCLS = XCLASSES + ["PDouble"]      # PDouble: a genuine FutureIsAlreadyComputed about ANOTHER future (shared promise)
PCLS_PATHS = [(k, o) for k in ("KLazy", "KTask") for o in ("OValue", "OError", "OCall")] + [("KSusp", "body"), ("KBatch", "flush")]


def _pcls_case(rng, kind, first, cls):
    """Provider-class profile: the computation raises an Exception of class `cls` (or is the second resolver of a
    shared promise); 0..2 subscribers; `first` is the first accessor; then more reads, a late set, sometimes
    reset_unsafe() and a second computation that raises another class / returns."""
    def po(c):
        return "PDouble" if c == "PDouble" else _PR(rng.randrange(1, 60), c)

    def sub_beh():
        r = rng.random()
        return "CbOk" if r < 0.6 else _R(_xcls(rng)) if r < 0.85 else {"CbUnsub": [1]}
    meta = {"malformed": False, "pcls": cls, "path": "provider:%s:%s" % (kind, first)}
    nsub = rng.choice([0, 1, 1, 2])
    if kind == "KBatch":
        items = [{"": [[{"": [i + 1, sub_beh()]}] if rng.random() < 0.5 else [], [_outc(rng)] if rng.random() < 0.7 else []]}
                 for i in range(rng.choice([1, 2]))]
        ops = [_on(0, {"OSubscribe": [10 + i, sub_beh()]}) for i in range(nsub)]
        ops.append(rng.choice([_on(0, "OValue"), _on(0, "OError"), _on(0, "OCall"), _on(1, "OValue"), _on(1, "OError"), "BFlush"]))
        ops += _batch_follow(rng, len(items), rng.choice([2, 3, 4]))
        return {"args": ["KBatch", items, po(cls), ops], "meta": meta}
    ops = [{"OSubscribe": [i + 1, sub_beh()]} for i in range(nsub)]
    if kind == "KSusp":
        phases = [{"mkphase": [rng.choice(["ViaFuture", "ViaBatch"]), "CleanOk",
                               [{"ISubscribe": [5, sub_beh()]}] if rng.random() < 0.3 else [], {"Ok": [_val(rng)]}]}
                  for _ in range(rng.choice([0, 1, 1, 2]))]
        ops.append(rng.choice(["OValue", "OError", "OCall"]))
        for _ in range(rng.choice([2, 3, 4])):
            ops.append(rng.choice(["OValue", "OError", "OCall", "OIsComputed"]) if rng.random() < 0.85 else {"OSetValue": [_val(rng)]})
        return {"args": ["KSusp", phases, po(cls), ops], "meta": meta}
    prov = [po(cls)]
    ops.append(first)
    for _ in range(rng.choice([2, 3, 4])):
        r = rng.random()
        ops.append(rng.choice(["OValue", "OError", "OCall", "OIsComputed"]) if r < 0.85 else
                   {"OSetValue": [_val(rng)]} if r < 0.93 else {"OSetError": [rng.randrange(200, 260)]})
    if rng.random() < 0.35:
        prov.append(po(rng.choice(PCLS)) if rng.random() < 0.6 else {"PRet": [_val(rng)]})
        ops += ["OReset", rng.choice(["OValue", "OError", "OCall"]), rng.choice(["OValue", "OError", "OCall"]), "OIsComputed"]
    return {"args": [kind, prov, {"Ok": ["VNone"]}, ops], "meta": meta}


def gen_pcls(rng, tier):
    """EVERY class (and the genuine second-resolver failure) x EVERY computation kind / first accessor."""
    cs = []
    for _ in range(1 if tier == "quick" else 12):
        for cls in PCLS:
            for kind, first in PCLS_PATHS:
                cs.append(_pcls_case(rng, kind, first, cls))
    return cs


# KIND OF EXCEPTION OBJECT a future is completed with (runner: c10_impl.EKINDS / _kinded).  Implementation-side payload
# dimension: the models abstract errors to ids, so the model output of a case does not depend on it and the
# correspondence has to hold for every kind.  Carried as case["ekind"] (absent = "plain").
EKINDS = ["falsy-len", "falsy-bool", "bool-raises", "eq-all", "eq-never"]
# "bool-raises" only in the sweep (no raising subscribers there): the stdlib traceback printer, which asynq uses to report
# a subscriber's exception, tests every exception of the chain for truth and cannot print such an object
_EK_SAMPLED = [k for k in EKINDS if k != "bool-raises"]
_READS = ["OValue", "OError", "OCall", "OIsComputed"]


def _with_kind(c, ekind):
    c = dict(c, meta=dict(c.get("meta", {}), ekind=ekind))
    c["ekind"] = ekind
    return c


def _ekind_cases(rng, ekind):
    """EVERY way a future of the statement comes to hold an error x EVERY first reader, for one kind of exception
    object; then the other readers (the runner adds: a parent task yielding the future, for every case)."""
    cs = []

    def reads(first, n=3):
        rest = [r for r in _READS if r != first]
        rng.shuffle(rest)
        return [first] + rest[:n] + [first]

    def add(args, path):
        cs.append({"args": args, "meta": {"malformed": False, "path": "error-object:" + path}})
    for first in ("OValue", "OError", "OCall"):
        # ErrorFuture; a failing provider / task body (Exception of a drawn class, BaseException); explicit set_error
        add(["KError", [], {"Err": [rng.randrange(100, 130)]}, reads(first)], "KError:%s" % first)
        for kind in ("KLazy", "KTask"):
            sub = [{"OSubscribe": [1, "CbOk"]}] if rng.random() < 0.5 else []
            add([kind, [_PR(rng.randrange(1, 60), _xcls(rng))], {"Ok": ["VNone"]}, sub + reads(first)], "%s:raises:%s" % (kind, first))
            add([kind, [{"PBase": [rng.randrange(60, 90)]}, _PR(rng.randrange(1, 60))], {"Ok": ["VNone"]}, reads(first)],
                "%s:raises-base:%s" % (kind, first))
        for kind in ("KLazy", "KTask", "KPlain"):
            add([kind, [{"PRet": [_val(rng)]}], {"Ok": ["VNone"]},
                 [{"OSubscribe": [1, "CbOk"]}, {"OSetError": [rng.randrange(200, 260)]}] + reads(first)], "%s:set_error:%s" % (kind, first))
        # an error, reset_unsafe(), a value: the new epoch reports the value; and the other way round
        add(["KLazy", [_PR(rng.randrange(1, 60)), {"PRet": [{"VInt": [rng.randrange(1, 50)]}]}], {"Ok": ["VNone"]},
             [first, "OError", "OReset", first, "OError", "OReset", {"OSetError": [rng.randrange(200, 260)]}] + reads(first, 1)],
            "KLazy:epochs:%s" % first)
        # scheduled task: failing dependency (lazy future / batch item) thrown in at the yield; body raises; set from
        # outside while suspended (cleanup raising the same kind of object) / at top level
        for via in ("ViaFuture", "ViaBatch"):
            add(["KSusp", [{"mkphase": [via, "CleanOk", [], {"Err": [rng.randrange(500, 540)]}]}], {"PRet": [_val(rng)]},
                 [{"OSubscribe": [1, "CbOk"]}] + reads(first)], "KSusp:dependency-error:%s:%s" % (via, first))
            add(["KSusp", [{"mkphase": [via, "CleanOk", [], {"Ok": [_val(rng)]}]},
                           {"mkphase": [via, "CleanOk", ["IIsComputed"], {"Err": [rng.randrange(500, 540)]}]}], {"PRet": [_val(rng)]},
                 reads(first)], "KSusp:second-dependency-error:%s:%s" % (via, first))
            add(["KSusp", [{"mkphase": [via, rng.choice(["CleanOk", {"CleanRaise": [rng.randrange(300, 340)]}, {"CleanRaiseBase": [rng.randrange(340, 360)]}]),
                                        [{"ISetError": [rng.randrange(400, 460)]}, rng.choice(["IValue", "IError", "ICall"])],
                                        {"Ok": [_val(rng)]}]}], {"PRet": [_val(rng)]}, reads(first)], "KSusp:inner-set-error:%s:%s" % (via, first))
        add(["KSusp", [{"mkphase": [rng.choice(["ViaFuture", "ViaBatch"]), "CleanOk", [], {"Ok": [_val(rng)]}]}],
             _PR(rng.randrange(1, 60), _xcls(rng)), reads(first)], "KSusp:body-raises:%s" % first)
        add(["KSusp", [{"mkphase": ["ViaFuture", "CleanOk", [], {"Ok": [_val(rng)]}]}], {"PRet": [_val(rng)]},
             [{"OSetError": [rng.randrange(200, 260)]}] + reads(first)], "KSusp:top-set-error:%s" % first)
        # batch: item failed by the flush body; flush body raises (batch and forgotten items fail); cancel; set_error on
        # the batch; an item failed from inside a sibling's callback; a _cancel() override failing an item
        rec = lambda i: [{"": [i, "CbOk"]}]
        every = lambda n: [_on(t, r) for t in range(n, -1, -1) for r in ([first, "OError"] if rng.random() < 0.5 else [first])]
        add(["KBatch", [{"": [rec(1), [{"Err": [rng.randrange(600, 640)]}]]}, {"": [rec(2), [_outc(rng)]]}], {"PRet": ["VNone"]},
             [_on(1, first)] + every(2), []], "KBatch:item-set-error:%s" % first)
        add(["KBatch", [{"": [rec(1), [_outc(rng)]]}, {"": [rec(2), []]}], _PR(rng.randrange(1, 60), _xcls(rng)),
             [_on(0, {"OSubscribe": [9, "CbOk"]}), rng.choice([_on(0, first), _on(2, first), "BFlush"])] + every(2), []],
            "KBatch:flush-raises:%s" % first)
        add(["KBatch", [{"": [rec(1), []]}, {"": [rec(2), []]}], {"PRet": ["VNone"]},
             [rng.choice(["BCancel", _on(0, {"OSetError": [rng.randrange(200, 260)]})])] + every(2), []], "KBatch:cancel-or-set_error:%s" % first)
        add(["KBatch", [{"": [[{"": [11, {"CbSet": [2, {"Err": [rng.randrange(600, 640)]}, rng.choice(["true", "false"])]}]}], []]},
                        {"": [rec(2), []]}], {"PRet": ["VNone"]}, ["BCancel"] + every(2),
             [{"": [{"n": 0}, {"Err": [rng.randrange(600, 640)]}]}] if rng.random() < 0.5 else []], "KBatch:item-failed-by-callback:%s" % first)
    return [_with_kind(c, ekind) for c in cs]


def gen_ekind(rng, tier):
    """Exception-object profile: every kind x every path to a failed future x every first reader (sweep), plus a
    sample of ALL older case families re-drawn with a kind attached (subscribers, re-entrancy, malformed streams,
    exception classes, cross-future callbacks: all of them with every kind of error object)."""
    cs = []
    for _ in range(1 if tier == "quick" else 8):
        for ek in EKINDS:
            cs += _ekind_cases(rng, ek)
    fams = [lambda: gen_case(rng, rng.random() < 0.25), lambda: gen_susp(rng, rng.random() < 0.25), lambda: gen_reent(rng),
            lambda: gen_susp(rng, False, reent=True), lambda: gen_batch(rng),
            lambda: _pcls_case(rng, *(rng.choice(PCLS_PATHS) + (rng.choice(PCLS),))),
            lambda: _cross_case(rng, rng.choice(CROSS_PATHS), rng.choice(CROSS_RELS), rng.random() < 0.5),
            lambda: _xcls_plain(rng, *(rng.choice(XCLS_PLAIN_PATHS) + (_xcls(rng),))),
            lambda: _xcls_susp(rng, rng.choice(XCLS_SUSP_PATHS), _xcls(rng)),
            lambda: _xcls_batch(rng, rng.choice(XCLS_BATCH_PATHS), _xcls(rng))]
    for i in range(200 if tier == "quick" else 4000):
        c = fams[i % len(fams)]()
        c = _map_case(dict(c, tree=c["args"]), lambda _old: _xcls(rng), lambda _old: _xcls(rng)) if i % len(fams) < 5 else c
        cs.append(_with_kind(c, _EK_SAMPLED[(i // len(fams)) % len(_EK_SAMPLED)]))
    return cs


def gen_cases(rng, tier):
    n = 400 if tier == "quick" else 6000
    cs = [gen_case(rng, rng.random() < 0.25) for _ in range(n)]
    m = 300 if tier == "quick" else 5000
    cs += [gen_susp(rng, rng.random() < 0.25) for _ in range(m)]
    # re-entrant subscriber profile (drawn after the older families, whose PRNG stream is unchanged)
    cs += [gen_reent(rng) for _ in range(250 if tier == "quick" else 6000)]
    cs += [gen_susp(rng, rng.random() < 0.2, reent=True) for _ in range(200 if tier == "quick" else 5000)]
    # Exception-class dimension (drawn after all older families: their shapes are unchanged): every raising
    # subscriber of the cases above gets a class of its own, then the class x completion-path sweep
    cs = [_map_case(c, lambda _old: _xcls(rng)) for c in cs]
    cs += gen_xcls(rng, tier)
    cs += [gen_batch(rng) for _ in range(150 if tier == "quick" else 4000)]
    # Exception class of the PROVIDER / body / flush body (drawn after everything older): every raise of every case
    # above gets a class of its own, then the class x computation x first-accessor sweep
    cs = [_map_case(c, lambda cls: cls, lambda _old: _xcls(rng)) for c in cs]
    cs += gen_pcls(rng, tier)
    # cross-future callbacks (round 7), after everything older
    cs += gen_cross(rng, tier)
    # kind of exception object (round 9), after everything older
    cs += gen_ekind(rng, tier)
    for c in cs:
        c["tree"] = c["args"]
    return cs


# always run: minimised past failures and the obvious corner cases
def _mk(kind, prov, o0, ops):
    return {"args": [kind, prov, o0, ops], "tree": [kind, prov, o0, ops], "meta": {"corpus": True}}


CORPUS = [
    _mk("KLazy", [_PR(7)], {"Ok": ["VNone"]}, ["OError", "OError", "OValue"]),
    _mk("KLazy", [_PR(7)], {"Ok": ["VNone"]}, [{"OSubscribe": [1, _R()]}, {"OSubscribe": [2, "CbOk"]}, "OValue", "OError"]),
    _mk("KLazy", [{"PBase": [61]}, {"PRet": [{"VInt": [4]}]}], {"Ok": ["VNone"]}, ["OValue", "OIsComputed", "OValue", "OValue"]),
    _mk("KTask", [_PR(9)], {"Ok": ["VNone"]}, [{"OSubscribe": [1, "CbOk"]}, "OError", "OValue", "OReset", "OValue"]),
    _mk("KTask", [{"PRet": [{"VInt": [3]}]}], {"Ok": ["VNone"]}, [{"OSetValue": [{"VInt": [5]}]}, "OValue", {"OSetError": [201]}, "OReset", "OValue"]),
    _mk("KConst", [], {"Ok": [{"VInt": [3]}]}, [{"OSubscribe": [1, "CbOk"]}, {"OSetValue": ["VNone"]}, "OValue", "OReset", "OValue", {"OSetValue": ["VNone"]}, "OValue"]),
    _mk("KError", [], {"Err": [101]}, ["OError", "OValue", "OCall", {"OSetError": [202]}, "OIsComputed"]),
    _mk("KPlain", [], {"Ok": ["VNone"]}, ["OValue", "OError", {"OSetError": [203]}, "OError", "OValue", {"OSetValue": ["VNone"]}]),
    # an error, reset_unsafe(), then a successful completion (by the provider / by set_value): the new epoch reports the value
    _mk("KLazy", [_PR(7), {"PRet": [{"VInt": [42]}]}], {"Ok": ["VNone"]}, ["OError", "OReset", "OValue", "OError", "OCall"]),
    _mk("KPlain", [], {"Ok": ["VNone"]}, [{"OSetError": [203]}, "OReset", {"OSetValue": [{"VInt": [7]}]}, "OError", "OValue"]),
    # scheduled task cancelled from its batch's flush while suspended; the generator's cleanup raises on close()
    _mk("KSusp", [{"mkphase": ["ViaBatch", {"CleanRaise": [301]}, [{"ISetError": [401]}, {"ISetValue": ["VNone"]}, "IError"], {"Ok": ["VNone"]}]}],
        {"PRet": [{"VInt": [1]}]}, [{"OSubscribe": [1, "CbOk"]}, "OValue", "OError", {"OSetValue": ["VNone"]}]),
    # completed with a value by its dependency's provider; the generator ignores GeneratorExit; a subscriber added while suspended
    _mk("KSusp", [{"mkphase": ["ViaFuture", "CleanYield", [{"ISubscribe": [2, _R("XRuntime")]}, {"ISetValue": [{"VInt": [5]}]}, {"ISubscribe": [3, "CbOk"]}, "ICall"], {"Err": [501]}]}],
        _PR(9), [{"OSubscribe": [1, "CbOk"]}, "OCall", "OIsComputed", "OReset", "OValue"]),
    # two suspensions, nothing completes the task from outside: the failing second dependency does
    _mk("KSusp", [{"mkphase": ["ViaFuture", {"CleanRaiseBase": [341]}, ["IIsComputed", "IValue"], {"Ok": [{"VInt": [2]}]}]},
                  {"mkphase": ["ViaBatch", "CleanOk", [{"ISubscribe": [2, "CbOk"]}], {"Err": [502]}]}],
        {"PRet": ["VNone"]}, [{"OSubscribe": [1, _R()]}, "OError", "OValue", {"OSetError": [204]}]),
    # re-entrant subscribers: a one-shot subscriber (unsubscribes itself in its callback) registered before two plain ones;
    # the second completion (after reset_unsafe) notifies the two that are still registered
    _mk("KLazy", [{"PRet": [{"VInt": [42]}]}, _PR(9)], {"Ok": ["VNone"]},
        [{"OSubscribe": [1, {"CbUnsub": [1]}]}, {"OSubscribe": [2, "CbOk"]}, {"OSubscribe": [3, _R("XKey")]}, "OValue", "OReset", "OError"]),
    # set_error completion; 1 subscribes a new subscriber (not called now), 2 drops the already notified 1, 3 the absent 7
    _mk("KPlain", [], {"Ok": ["VNone"]},
        [{"OSubscribe": [1, {"CbSub": [101, "CbOk"]}]}, {"OSubscribe": [2, {"CbUnsub": [1]}]}, {"OSubscribe": [3, {"CbSeq": [{"CbUnsub": [7]}, {"CbUnsub": [3]}]}]},
         {"OSubscribe": [4, "CbOk"]}, {"OSetError": [205]}, "OError", "OReset", {"OSetValue": [{"VInt": [8]}]}, "OValue"]),
    # task cancelled while suspended: 1 is a one-shot, 2 (subscribed while suspended) drops the not yet notified 3
    _mk("KSusp", [{"mkphase": ["ViaFuture", {"CleanRaise": [302]}, [{"ISubscribe": [2, {"CbUnsub": [3]}]}, {"ISubscribe": [3, "CbOk"]}, {"ISetError": [402]},
                                                                     {"ISubscribe": [4, "CbOk"]}], {"Ok": ["VNone"]}]}],
        {"PRet": [{"VInt": [1]}]}, [{"OSubscribe": [1, {"CbUnsub": [1]}]}, "OError", "OReset", "OValue"]),
    # Exception class of a raising subscriber: a failing `assert` in the first of two subscribers of a lazy future; the
    # FIRST accessor computes it (the swallowed AssertionError must not be taken for a provider failure)
    _mk("KLazy", [{"PRet": [{"VInt": [3]}]}], {"Ok": ["VNone"]},
        [{"OSubscribe": [1, _R("XAssertion")]}, {"OSubscribe": [2, "CbOk"]}, "OValue", "OError", "OCall"]),
    # explicit completion; subscribers raising StopIteration and asynq's own FutureIsAlreadyComputed, then a plain one
    _mk("KPlain", [], {"Ok": ["VNone"]},
        [{"OSubscribe": [1, _R("XStopIteration")]}, {"OSubscribe": [2, _R("XAlreadyComputed")]}, {"OSubscribe": [3, "CbOk"]},
         {"OSetValue": [{"VInt": [7]}]}, {"OSetValue": [{"VInt": [8]}]}, "OValue", "OError"]),
    # scheduled task completed by its body after a batch-item suspension; an asserting subscriber added while
    # suspended, a RuntimeError-raising one before; error() is the first accessor
    _mk("KSusp", [{"mkphase": ["ViaBatch", "CleanOk", [{"ISubscribe": [2, _R("XAssertion")]}], {"Ok": [{"VInt": [1]}]}]}],
        {"PRet": [{"VInt": [7]}]}, [{"OSubscribe": [1, _R("XRuntime")]}, {"OSubscribe": [3, "CbOk"]}, "OError", "OValue"]),
    # a batch and its items as futures: item 1 (set by the flush body) has an asserting subscriber, item 2 is set after
    # it by the same body, item 3 is forgotten by the body (completed by BatchBase._computed's loop) and has a
    # KeyError-raising subscriber; the batch has a subscriber of its own; item 2's value() flushes
    {"args": ["KBatch", [{"": [[{"": [1, _R("XAssertion")]}], [{"Ok": [{"VInt": [5]}]}]]}, {"": [[{"": [2, "CbOk"]}], [{"Ok": [{"VInt": [6]}]}]]},
                         {"": [[{"": [3, _R("XKey")]}], []]}], {"PRet": ["VNone"]},
              [_on(0, {"OSubscribe": [9, "CbOk"]}), _on(2, "OValue"), _on(1, "OValue"), _on(3, "OError"), _on(0, "OError"), "BFlush"]],
     "meta": {"corpus": True}},
    # both forgotten items have raising subscribers (AssertionError, StopIteration); the batch is cancelled
    {"args": ["KBatch", [{"": [[{"": [1, _R("XAssertion")]}], []]}, {"": [[{"": [2, _R("XStopIteration")]}, {"": [3, "CbOk"]}], []]}],
              {"PRet": ["VNone"]},
              [_on(0, {"OSubscribe": [9, _R("XAssertionSub")]}), _on(0, {"OSubscribe": [10, "CbOk"]}), "BCancel", _on(2, "OError"),
               _on(1, "OError"), _on(0, {"OSetValue": ["VNone"]})]], "meta": {"corpus": True}},
    # Exception class of the PROVIDER: a lazy future whose provider fails with FutureIsAlreadyComputed about ANOTHER
    # future (it is the second resolver of a shared promise); error() is the first accessor; one subscriber
    _mk("KLazy", ["PDouble"], {"Ok": ["VNone"]}, [{"OSubscribe": [1, "CbOk"]}, "OError", "OIsComputed", "OValue", "OCall", "OError"]),
    # the provider raises a FutureIsAlreadyComputed it made itself / a BatchingError; value() first; second epoch
    _mk("KLazy", [_PR(7, "XAlreadyComputed"), _PR(8, "XBatching")], {"Ok": ["VNone"]},
        [{"OSubscribe": [1, _R("XAssertion")]}, "OValue", "OError", {"OSetValue": ["VNone"]}, "OReset", "OCall", "OError"]),
    # a task body that raises StopIteration (PEP 479: the task fails with RuntimeError) / is the second resolver
    _mk("KTask", [_PR(9, "XStopIteration")], {"Ok": ["VNone"]}, [{"OSubscribe": [1, "CbOk"]}, "OError", "OValue"]),
    _mk("KTask", ["PDouble"], {"Ok": ["VNone"]}, [{"OSubscribe": [1, "CbOk"]}, "OValue", "OError"]),
    # cross-future callbacks: cancel() of a pending batch of three items; a (well-behaved, guarded) subscriber on item 1
    # completes its later sibling item 2 with a fallback value while the batch is being cancelled
    {"args": ["KBatch", [{"": [[{"": [1, "CbOk"]}, {"": [11, {"CbSet": [2, {"Ok": [{"VInt": [7]}]}, "true"]}]}], []]},
                         {"": [[{"": [2, "CbOk"]}], []]}, {"": [[{"": [3, "CbOk"]}], []]}], {"PRet": ["VNone"]},
              [_on(0, {"OSubscribe": [20, "CbOk"]}), "BCancel", _on(3, "OError"), _on(2, "OValue"), _on(1, "OError"), _on(0, "OError")], []],
     "meta": {"corpus": True}},
    # the same subscriber, a flush body that sets nothing and raises; error() of the last item drives the flush
    {"args": ["KBatch", [{"": [[{"": [11, {"CbSet": [2, {"Ok": [{"VInt": [7]}]}, "true"]}]}], []]},
                         {"": [[{"": [2, "CbOk"]}], []]}, {"": [[{"": [3, "CbOk"]}], []]}], _PR(9, "XRuntime"),
              [_on(0, {"OSubscribe": [20, "CbOk"]}), _on(3, "OError"), _on(2, "OValue"), _on(1, "OError"), _on(0, "OError")], []],
     "meta": {"corpus": True}},
    # a partial flush: the body answers item 3 only; item 1's subscriber completes item 2 - unguarded, with an error
    {"args": ["KBatch", [{"": [[{"": [11, {"CbSet": [2, {"Err": [601]}, "false"]}]}], []]},
                         {"": [[{"": [2, "CbOk"]}], []]}, {"": [[{"": [3, "CbOk"]}], [{"Ok": [{"VInt": [3]}]}]]}], {"PRet": ["VNone"]},
              [_on(0, {"OSubscribe": [20, "CbOk"]}), "BFlush", _on(1, "OError"), _on(2, "OError"), _on(3, "OValue"), _on(0, "OValue")], []],
     "meta": {"corpus": True}},
    # a _cancel() override that fills item 2 in; item 2's subscriber cancels... the batch (already computed: guarded, skipped)
    {"args": ["KBatch", [{"": [[{"": [1, "CbOk"]}], []]}, {"": [[{"": [12, {"CbSet": [0, {"Err": [602]}, "true"]}]}, {"": [2, "CbOk"]}], []]}],
              {"PRet": ["VNone"]},
              [_on(0, {"OSubscribe": [20, "CbOk"]}), "BCancel", _on(2, "OValue"), _on(1, "OError"), "BCancel"],
              [{"": [{"n": 1}, {"Ok": [{"VInt": [8]}]}]}]], "meta": {"corpus": True}},
    # KIND OF EXCEPTION OBJECT: a future completed with a FALSY exception instance (an aggregate error that defines
    # __len__ and has no sub-errors) is a failed future for every reader - ErrorFuture; a lazy future whose provider
    # raises it, value() first; a scheduled task whose dependency fails with it (thrown in at the yield); a batch item
    # failed by the flush body; and with an instance whose __bool__ is False / raises, whose __eq__ says yes to None
    _with_kind(_mk("KError", [], {"Err": [101]}, ["OError", "OValue", "OCall", "OIsComputed", "OError"]), "falsy-len"),
    _with_kind(_mk("KLazy", [_PR(7)], {"Ok": ["VNone"]}, [{"OSubscribe": [1, "CbOk"]}, "OValue", "OError", "OCall", "OValue"]), "falsy-len"),
    _with_kind(_mk("KSusp", [{"mkphase": ["ViaFuture", "CleanOk", [], {"Err": [501]}]}], {"PRet": [{"VInt": [1]}]},
                   [{"OSubscribe": [1, "CbOk"]}, "OValue", "OError", "OCall"]), "falsy-len"),
    _with_kind({"args": ["KBatch", [{"": [[{"": [1, "CbOk"]}], [{"Err": [601]}]]}, {"": [[{"": [2, "CbOk"]}], []]}], _PR(9, "XValue"),
                         [_on(1, "OValue"), _on(1, "OError"), _on(2, "OCall"), _on(2, "OError"), _on(0, "OValue"), _on(0, "OError")], []],
                "meta": {"corpus": True}}, "falsy-len"),
    _with_kind(_mk("KTask", [_PR(9, "XRuntime")], {"Ok": ["VNone"]}, ["OCall", "OError", "OValue"]), "falsy-bool"),
    _with_kind(_mk("KPlain", [], {"Ok": ["VNone"]}, [{"OSetError": [203]}, "OValue", "OError", {"OSetValue": ["VNone"]}, "OCall"]), "bool-raises"),
    _with_kind(_mk("KLazy", [_PR(7, "XKey"), {"PRet": [{"VInt": [4]}]}], {"Ok": ["VNone"]}, ["OError", "OValue", "OReset", "OValue", "OError"]), "eq-all"),
    _with_kind(_mk("KError", [], {"Err": [102]}, ["OValue", "OError", "OCall"]), "eq-never"),
]
for _c in CORPUS:
    _c["tree"] = _c["args"]


def _bcancel(c):
    """KBatch: the _cancel() override's script [(item index from 0, outcome)] (5th element of args; absent = none)"""
    return c["args"][4] if len(c["args"]) > 4 else []


def model_input(c):
    if c["args"][0] == "KBatch":
        items, fin, ops = c["args"][1:4]
        return "(CBatch " + " ".join(coqrun.coq_of(a) for a in (items, fin, _bcancel(c), ops)) + ")"
    if c["args"][0] == "KSusp":
        return "(CTask " + " ".join(coqrun.coq_of(a) for a in c["args"][1:]) + ")"
    return "(CFut " + " ".join(coqrun.coq_of(a) for a in c["args"]) + ")"


def canon(c):
    import json
    return json.dumps([c["args"], c.get("ekind", "plain")], sort_keys=True)


def nontrivial(c):
    ops = c["args"][3]
    kind = c["args"][0]
    if kind == "KSusp":
        return bool(c["args"][1]) and any(o in ("OValue", "OError", "OCall") for o in ops)
    if kind == "KBatch":
        comp = [i for i, o in enumerate(ops) if o in ("BFlush", "BCancel") or _opname(o["BOn"][1]) in
                ("OValue", "OError", "OCall", "OSetValue", "OSetError")]
        return bool(c["args"][1]) and bool(comp) and comp[0] < len(ops) - 1
    completing = [i for i, o in enumerate(ops) if (o in ("OValue", "OError", "OCall") and kind in ("KLazy", "KTask"))
                  or (isinstance(o, dict) and next(iter(o)) in ("OSetValue", "OSetError"))]
    if kind in ("KConst", "KError"):
        return len(ops) >= 2
    return bool(completing) and completing[0] < len(ops) - 1


def compare(c, m, io):
    if "Hang" in io:
        return "the implementation did not terminate on this case"
    if c["args"][0] == "KBatch":
        if m != {"OutBatch": [io["out"]]}:
            return ("op results/results of the flush body's sets/callback log/flush count/subscriber lists/item outcomes differ "
                    "between BatchFut.run_batch and the implementation")
        return None
    if c["args"][0] == "KSusp":
        if m != {"OutTask": [io["out"]]}:
            return "top-level results/inner results/callback log/run count/final subscriber list differ between TaskFut.run_task and the implementation"
        return None
    if m != {"OutFut": [io["out"]]}:
        return "results/callback log/run count/final subscriber list differ between Futures.run_case and the implementation"
    return None


def distribution(cases):
    d = {"kinds": {}, "oplen": {}, "malformed": 0, "susp_phases": {}, "susp_cleanup": {}, "susp_via": {},
         "susp_with_inner_set": 0, "susp_inner_set_under_raising_cleanup": 0,
         "reentrant_profile": 0, "cases_with_reentrant_subscriber": 0, "subscriber_behaviours": {},
         "unsubscribing_subscriber_followed_by_another": 0,
         "raise_classes": {}, "cases_with_raising_subscriber_by_class": {}, "xcls_profile_paths": {},
         "provider_raise_classes": {}}
    d["error_object_kinds"] = {}
    for c in cases:
        ek = "%s:%s" % (c["args"][0], c.get("ekind", "plain"))
        d["error_object_kinds"][ek] = d["error_object_kinds"].get(ek, 0) + 1
        _map_case(c, lambda cls: cls, lambda cls: (d["provider_raise_classes"].__setitem__(
            c["args"][0] + ":" + cls, d["provider_raise_classes"].get(c["args"][0] + ":" + cls, 0) + 1), cls)[1])
        if "PDouble" in (c["args"][1] if c["args"][0] not in ("KSusp", "KBatch") else [c["args"][2]]):
            d["provider_raise_classes"][c["args"][0] + ":PDouble"] = d["provider_raise_classes"].get(c["args"][0] + ":PDouble", 0) + 1
        seen = set()
        _map_case(c, lambda cls: (seen.add(cls), d["raise_classes"].__setitem__(cls, d["raise_classes"].get(cls, 0) + 1), cls)[2])
        for cls in seen:
            d["cases_with_raising_subscriber_by_class"][cls] = d["cases_with_raising_subscriber_by_class"].get(cls, 0) + 1
        if c.get("meta", {}).get("path"):
            pth = c["meta"]["path"]
            d["xcls_profile_paths"][pth] = d["xcls_profile_paths"].get(pth, 0) + 1
        d["reentrant_profile"] += 1 if c.get("meta", {}).get("reentrant") else 0
        behs = _all_subscribes(c)
        if any(not _is_plain(k) for _, k in behs):
            d["cases_with_reentrant_subscriber"] += 1
        for sid, k in behs:
            for b in _beh_classes(sid, k):
                d["subscriber_behaviours"][b] = d["subscriber_behaviours"].get(b, 0) + 1
        if any(not _is_plain(k) and any(b.startswith("unsub") for b in _beh_classes(sid, k)) for sid, k in behs[:-1]):
            d["unsubscribing_subscriber_followed_by_another"] += 1
        if c["args"][0] == "KSusp":
            ph = c["args"][1]
            d["susp_phases"][str(len(ph))] = d["susp_phases"].get(str(len(ph)), 0) + 1
            anyset = anybad = False
            for p in ph:
                via, clean, inner, dep = p["mkphase"]
                cn = _opname(clean)
                d["susp_cleanup"][cn] = d["susp_cleanup"].get(cn, 0) + 1
                d["susp_via"][via] = d["susp_via"].get(via, 0) + 1
                hs = any(_opname(o) in ("ISetValue", "ISetError") for o in inner)
                anyset = anyset or hs
                anybad = anybad or (hs and cn != "CleanOk")
            d["susp_with_inner_set"] += 1 if anyset else 0
            d["susp_inner_set_under_raising_cleanup"] += 1 if anybad else 0
        if c["args"][0] == "KBatch":
            d.setdefault("batch_items", {})
            d.setdefault("batch_item_actions", {})
            d["batch_items"][str(len(c["args"][1]))] = d["batch_items"].get(str(len(c["args"][1])), 0) + 1
            for sp in c["args"][1]:
                a = {0: "forgotten", 1: "set", 2: "set-twice"}[len(sp[""][1])]
                d["batch_item_actions"][a] = d["batch_item_actions"].get(a, 0) + 1
        d["kinds"][c["args"][0]] = d["kinds"].get(c["args"][0], 0) + 1
        L = len(c["args"][3])
        b = "0" if L == 0 else "1-3" if L <= 3 else "4-12" if L <= 12 else "13-40"
        d["oplen"][b] = d["oplen"].get(b, 0) + 1
        d["malformed"] += 1 if c.get("meta", {}).get("malformed") else 0
    return d


def _opname(o):
    return o if isinstance(o, str) else next(iter(o))


def _all_subscribes(c):
    """(id, behaviour) of every subscribe operation of the case, top-level and inner, in textual order."""
    out = []
    if c["args"][0] == "KBatch":
        for sp in c["args"][1]:
            out += [sb[""] for sb in sp[""][0]]
        out += [o["BOn"][1]["OSubscribe"] for o in c["args"][3] if isinstance(o, dict) and "BOn" in o and
                isinstance(o["BOn"][1], dict) and "OSubscribe" in o["BOn"][1]]
        return [(a[0], a[1]) for a in out]
    if c["args"][0] == "KSusp":
        for p in c["args"][1]:
            out += [o["ISubscribe"] for o in p["mkphase"][2] if isinstance(o, dict) and "ISubscribe" in o]
    top = [o["OSubscribe"] for o in c["args"][3] if isinstance(o, dict) and "OSubscribe" in o]
    return [(a[0], a[1]) for a in top + out]


def _is_plain(k):
    """returns, or raises an Exception: does not touch the subscription list"""
    return isinstance(k, str) or "CbRaise" in k


def _beh_classes(sid, k):
    if isinstance(k, str):
        return ["plain"]
    (name, a), = k.items()
    if name == "CbRaise":
        return ["raises"]
    if name == "CbSet":
        return ["sets-a-future-guarded" if a[2] == "true" else "sets-a-future-unguarded"]
    if name == "CbUnsub":
        t = a[0]
        return ["unsub-self" if t == sid else "unsub-next" if t == sid + 1 else "unsub-previous" if t == sid - 1 else "unsub-other"]
    if name == "CbSub":
        return ["subscribes"]
    return ["seq"] + _beh_classes(sid, a[0]) + _beh_classes(sid, a[1])


E_SKIPPED = -20
_SEM = {"IIsComputed": "OIsComputed", "ISetValue": "OSetValue", "ISetError": "OSetError", "ISubscribe": "OSubscribe",
        "IValue": "OValue", "IError": "OError", "ICall": "OCall"}


def _op_checks(label, name, arg, r, pre, post, runs, where, prov=None):
    """Clauses (a)-(c) of the statement for ONE operation: `pre`/`post` = the future's outcome (None =
    not computed) observed right before / after it, `r` = what it returned or raised, `runs` = how
    often the underlying computation was started during it."""
    fs = []
    sem = _SEM.get(name, name)
    # (a) single assignment
    if sem in ("OSetValue", "OSetError") and pre is not None:
        if r != {"RRaise": [-3]}:
            fs.append(dict(clause="single-assignment", site="%s:%s:no-FutureIsAlreadyComputed" % (label, name),
                           msg="second %s on a computed %s did not raise FutureIsAlreadyComputed (%s)" % (name, label, where)))
        if post != pre:
            fs.append(dict(clause="single-assignment", site="%s:%s:outcome-changed" % (label, name),
                           msg="%s on a computed %s changed its outcome from %s to %s (%s)" % (name, label, pre, post, where)))
    # (d') "... even if another subscriber raises an Exception": the completion contains a subscriber's Exception -
    # no operation on the future reports to its caller the very exception object a subscriber raised
    x = r["RRaise"][0] if isinstance(r, dict) and "RRaise" in r else None
    if isinstance(x, dict) and "FromSubscriber" in x:
        sid, cls = x["FromSubscriber"]
        fs.append(dict(clause="notify-once-after", site="%s:%s:subscriber-exception-escaped:%s" % (label, name, cls["s"]),
                       msg="%s on %s raised the %s that on_computed subscriber %d had raised while being notified - a "
                           "subscriber's Exception must not escape the completion (%s; outcome before=%s, after=%s)" % (
                               name, label, cls["s"], sid, where, pre, post)))
    # the outcome that was set is the one the future holds from then on
    if sem in ("OSetValue", "OSetError") and pre is None:
        want = {"Ok": arg} if sem == "OSetValue" else {"Err": arg}
        if post != want:
            fs.append(dict(clause="stable-outcome", site="%s:%s:set-not-visible" % (label, name),
                           msg="%s(%s) on an uncomputed %s left it with outcome %s (%s)" % (name, arg, label, post, where)))
    # (b) one consistent outcome: every read on a future that is computed after the read reports that outcome
    if sem in ("OValue", "OCall", "OError", "OIsComputed"):
        if pre is not None and post != pre:
            fs.append(dict(clause="stable-outcome", site="%s:%s:outcome-changed-by-read" % (label, name),
                           msg="%s changed the outcome of a computed %s (%s)" % (name, label, where)))
        if post is not None and r != {"RRaise": [E_SKIPPED]}:
            if sem in ("OValue", "OCall"):
                want = {"RVal": post["Ok"]} if "Ok" in post else {"RRaise": post["Err"]}
            elif sem == "OError":
                want = "RNoError" if "Ok" in post else {"RErr": post["Err"]}
            else:
                want = {"RBool": ["true"]}
            if r != want:
                fs.append(dict(clause="stable-outcome",
                               site="%s:%s:%s-instead-of-%s" % (label, name, _opname(r), _opname(want)),
                               msg="%s on %s reported %s although the future's outcome is %s (%s, computed before=%s)" % (
                                   name, label, r, post, where, pre is not None)))
        # (b'') a computing accessor that RETURNED or raised an Exception leaves the future computed: value() / error() /
        # calling the future "compute, if necessary" - afterwards there is an outcome to report.  Not required where
        # there is no computation to run (FutureBase / Const / ErrorFuture after reset_unsafe: NotImplementedError), where
        # the computation was observed to raise a BaseException out of a Future's provider, or for reads not issued
        if sem != "OIsComputed" and post is None and r not in ({"RRaise": [-4]}, {"RRaise": [E_SKIPPED]}) \
                and not any("Base" in x for x in (prov or [])):
            fs.append(dict(clause="stable-outcome", site="%s:%s:not-computed-after-%s" % (label, name, _opname(r)),
                           msg="%s on %s %s %s but the future is still not computed (%s; the computation was observed to "
                               "end with %s)" % (name, label, "returned" if _opname(r) != "RRaise" else "raised", r, where, prov)))
        # (c) the computation runs at most once per completion
        if pre is not None and runs != 0:
            fs.append(dict(clause="compute-once", site="%s:%s:reran-when-computed" % (label, name),
                           msg="%s ran the underlying computation of an already computed %s again (%s)" % (name, label, where)))
        if runs > 1:
            fs.append(dict(clause="compute-once", site="%s:%s:ran-twice" % (label, name),
                           msg="%s ran the underlying computation %d times (%s)" % (name, runs, where)))
    return fs


def _arg(o):
    return [] if isinstance(o, str) else next(iter(o.values()))


class _Epoch:
    """'From then on value(), error(), calling the future and is_computed() always report that same
    outcome', per epoch between reset_unsafe() calls, WITHOUT looking at the future's state: the
    outcome of the epoch is the one that was set - by the set_value(v) / set_error(e) that found the
    future uncomputed, or by the underlying computation (what the provider / task body was observed
    to return or raise during the completing read) - and every later read has to report it."""

    def __init__(self, label, initial=None):
        self.label = label
        self.exp = initial        # outcome of the current epoch, None while nothing was set
        self.src = "construction"
        self.ended = []           # how the runs of the underlying computation in this epoch ended (return / Exception)

    def op(self, name, arg, r, pre, post, prov, where, label=None):
        label = label or self.label
        sem = _SEM.get(name, name)
        fs = []
        if sem == "OReset":
            self.exp = None
            self.ended = []
        elif sem in ("OSetValue", "OSetError"):
            if self.exp is None and pre is None:
                self.exp = {"Ok": arg} if sem == "OSetValue" else {"Err": arg}
                self.src = name
        elif sem in ("OValue", "OCall", "OError", "OIsComputed"):
            if r == {"RRaise": [E_SKIPPED]}:
                return fs
            # "running the underlying computation at most once" between two reset_unsafe(): a run that returned or
            # raised an Exception is the epoch's one run (a BaseException out of a Future's provider is not)
            done_now = [x for x in prov if "Base" not in x or self.label in ("KTask", "KSusp")]
            if done_now and self.ended:
                fs.append(dict(clause="compute-once", site="%s:%s:ran-again-after-it-ended" % (label, name),
                               msg="%s on %s ran the underlying computation again (it ended with %s) although it had already "
                                   "run in this epoch and ended with %s (%s)" % (name, label, done_now, self.ended, where)))
            self.ended += done_now
            if self.exp is None and pre is None and post is not None:
                # completed by the underlying computation during this read
                done = [x for x in prov if "Base" not in x or self.label in ("KTask", "KSusp")]
                if len(done) == 1:
                    x = done[0]
                    self.exp = {"Err": x["Base"]} if "Base" in x else x
                    self.src = "computation"
            if self.exp is not None:
                e = self.exp
                if sem in ("OValue", "OCall"):
                    want = {"RVal": e["Ok"]} if "Ok" in e else {"RRaise": e["Err"]}
                elif sem == "OError":
                    want = "RNoError" if "Ok" in e else {"RErr": e["Err"]}
                else:
                    want = {"RBool": ["true"]}
                if r != want:
                    fs.append(dict(clause="stable-outcome",
                                   site="%s:%s:%s-after-%s-%s" % (label, name, _opname(r), self.src, "value" if "Ok" in e else "error"),
                                   msg="%s on %s reported %s although the outcome set by %s in this epoch is %s (%s)" % (
                                       name, label, r, self.src, e, where)))
        return fs


def _notify_check(label, outcome, registered, new, events, lo, hi, where):
    """Clause (d) for ONE completion: `registered` = the subscribers registered when the completion began
    (the harness's record of the subscribe/unsubscribe calls that returned normally), `new` = the callback
    records produced meanwhile.  Every registered subscriber has to be called exactly once and has to see
    the outcome - also when subscribers unsubscribe (themselves or others) or subscribe new ones from
    inside their callbacks; nobody else is called.  The site says what the called subscribers did to the
    subscription list during this notification (observed), and what went wrong."""
    want = [{"": [sid, outcome]} for sid in registered]
    if new == want:
        return []
    acts = sorted({e["act"] for e in events if lo <= e["nlog"] < hi})
    called = [r[""][0] for r in new]
    missed = [sid for sid in registered if sid not in called]
    twice = sorted({sid for sid in called if called.count(sid) > registered.count(sid) and sid in registered})
    extra = sorted({sid for sid in called if sid not in registered})
    stale = [r for r in new if r[""][1] != outcome]
    what = "+".join((["missed"] if missed else []) + (["too-often"] if twice else []) + (["unregistered"] if extra else []) +
                    (["outcome-not-visible"] if stale else [])) or "order"
    site = "%s:callbacks" % label
    if acts:
        site += ":during-" + "+".join(acts) + ":" + what
    return [dict(clause="notify-once-after", site=site,
                 msg="completion with %s notified %s, expected exactly %s - the subscribers registered when it began (%s)%s%s%s" % (
                     outcome, new, want, where,
                     "; never notified: %s" % missed if missed else "",
                     "; called more often than registered: %s" % twice if twice else "",
                     "; subscribers changed the subscription list meanwhile: %s" % [
                         (e["by"], e["act"], e["target"], e["ok"]) for e in events if lo <= e["nlog"] < hi] if acts else ""))]


def _susp_monitors(c, io):
    """Scheduled task: the observation points taken before / after every operation (top-level or
    issued while the task is suspended) cut the history into segments; each segment is either one
    operation without nested ones, or a stretch of the scheduler running the task's body."""
    _, phases, fin, ops = c["args"]
    pts = io["points"]
    log = io["out"][""][2]
    events = io.get("events", [])
    fs = []
    # (a)-(c) per operation
    open_top = None
    for p in pts:
        if p["lvl"] == "top" and p["when"] == "pre":
            open_top = p
        elif p["lvl"] == "top":
            fs += _op_checks("KSusp", p["op"], _arg(ops[p["i"]]), p["r"], open_top["st"], p["st"],
                             p["runs"] - open_top["runs"], "op %d" % p["i"])    # (a task body's BaseException is an outcome)
    open_in = None
    for p in pts:
        if p["lvl"] == "in" and p["when"] == "pre":
            open_in = p
        elif p["lvl"] == "in":
            o = phases[p["phase"]]["mkphase"][2][p["i"]]
            fs += _op_checks("KSusp/%s" % p["clean"], p["op"], _arg(o), p["r"], open_in["st"], p["st"],
                             p["runs"] - open_in["runs"], "inner op %d of suspension %d, via %s" % (p["i"], p["phase"], p["via"]))
    # (b') per-epoch outcome, operations in execution order (an inner operation ends before the
    # top-level read that contains it)
    ep = _Epoch("KSusp")
    stack = []
    for p in pts:
        if p["when"] == "pre":
            stack.append(p)
            continue
        q = stack.pop()
        if p["lvl"] == "top":
            fs += ep.op(p["op"], _arg(ops[p["i"]]), p["r"], q["st"], p["st"], io["prov"][q["nprov"]:p["nprov"]], "op %d" % p["i"])
        else:
            o = phases[p["phase"]]["mkphase"][2][p["i"]]
            fs += ep.op(p["op"], _arg(o), p["r"], q["st"], p["st"], [],
                        "inner op %d of suspension %d, via %s" % (p["i"], p["phase"], p["via"]), label="KSusp/%s" % p["clean"])
    # (d) every subscriber notified exactly once per completion, after the outcome is visible
    top = None
    for p, q in zip(pts, pts[1:]):
        if p["lvl"] == "top" and p["when"] == "pre":
            top = p
        one_op = (p["when"], q["when"]) == ("pre", "post") and p["lvl"] == q["lvl"]
        if p["lvl"] == "top" and p["when"] == "post":
            continue                      # between two top-level operations nothing runs
        if one_op:
            label = "KSusp:%s" % p["op"] if p["lvl"] == "top" else "KSusp/%s:%s" % (q["clean"], p["op"])
            where = "op %d" % p["i"] if p["lvl"] == "top" else "inner op %d of suspension %d, via %s" % (p["i"], q["phase"], q["via"])
        else:
            label = "KSusp:%s:scheduler" % (top["op"] if top else "?")
            where = "the scheduler running the body inside op %d" % (top["i"] if top else -1)
            if p["st"] is not None and q["st"] != p["st"]:
                fs.append(dict(clause="stable-outcome", site=label + ":outcome-changed",
                               msg="outcome of the computed task changed from %s to %s in %s" % (p["st"], q["st"], where)))
        new = log[p["nlog"]:q["nlog"]]
        if p["st"] is None and q["st"] is not None:
            fs += _notify_check(label, q["st"], p["subs"], new, events, p["nlog"], q["nlog"], where)
        elif new:
            fs.append(dict(clause="notify-once-after", site=label + ":spurious-callback",
                           msg="callbacks %s fired although the task was not completed there (%s)" % (new, where)))
    return fs


def _batch_monitors(c, io):
    """A batch and its items, each of them a future of the statement.  Observation points before / after every
    operation - top-level ones and the set_value/set_error calls of the flush body - cut the history into segments:
    one operation without nested ones, or a stretch of BatchBase's own code (_compute, _computed's item loop)."""
    _, items, fin, ops = c["args"][:4]
    pts = io["points"]
    log = io["out"][""][2]
    events = io.get("events", [])
    nf = len(items) + 1
    fs = []

    def fname(t):
        return "batch" if t == 0 else "item"

    def where(p):
        if p["lvl"] == "top":
            return "op %d on %s" % (p["i"], "the batch" if p["t"] == 0 else "item %d" % p["t"])
        return "set number %d of the flush body on item %d" % (p["i"], p["t"])
    # (a)-(c) per operation, on the future it addresses; (b') per-epoch outcome of every future
    eps = [_Epoch("KBatch/%s" % fname(t)) for t in range(nf)]
    stack = []
    for p in pts:
        if p["when"] == "pre":
            stack.append(p)
            continue
        q = stack.pop()
        t = p["t"]
        if t >= nf or p["op"] in ("BFlush", "BCancel"):
            continue
        if p["lvl"] == "top":
            o = ops[p["i"]]["BOn"][1]
            label = "KBatch/%s" % fname(t)
        else:
            o = {p["op"]: list(items[t - 1][""][1][p["i"]].values())[0]}
            label = "KBatch/%s/in-flush" % fname(t)
        fs += _op_checks(label, p["op"], _arg(o), p["r"], q["st"][t], p["st"][t], p["runs"] - q["runs"] if t == 0 else 0, where(p))
        # what the flush body was observed to do is the batch's outcome - unless a callback completed the batch meanwhile
        by_cb = any(x["target"] == 0 for x in io.get("sets", [])[q.get("nsets", 0):p.get("nsets", 0)])
        fs += eps[t].op(p["op"], _arg(o), p["r"], q["st"][t], p["st"][t], io["prov"][q["nprov"]:p["nprov"]] if t == 0 and not by_cb else [],
                        where(p), label=label)
    # (d) per future and per segment: completed there <=> its subscribers (registered when the segment began) were each
    # called once and saw the outcome; nobody else's subscribers of that future were called
    top = None
    for p, q in zip(pts, pts[1:]):
        if p["lvl"] == "top" and p["when"] == "pre":
            top = p
        if p["lvl"] == "top" and p["when"] == "post":
            continue
        one_op = (p["when"], q["when"]) == ("pre", "post") and p["lvl"] == q["lvl"]
        new = log[p["nlog"]:q["nlog"]]
        for t in range(nf):
            mine = [{"": r[""][1:]} for r in new if r[""][0] == t]
            if one_op:
                label = "KBatch/%s:%s%s" % (fname(t), p["op"], "" if p["lvl"] == "top" else ":in-flush")
                if p["t"] != t:
                    label += ":on-%s" % fname(p["t"])
            else:
                label = "KBatch/%s:%s:batch-code" % (fname(t), top["op"] if top else "?")
            wh = "%s .. %s" % (where(p), where(q))
            if p["st"][t] is None and q["st"][t] is not None:
                fs += _notify_check(label, q["st"][t], p["subs"][t], mine, [e for e in events if e["fut"] == t],
                                    p["nlog"], q["nlog"], wh + (", future %d" % t))
            elif mine:
                fs.append(dict(clause="notify-once-after", site=label + ":spurious-callback",
                               msg="callbacks %s of future %d fired although it was not completed there (%s)" % (mine, t, wh)))
            elif p["st"][t] is not None and q["st"][t] != p["st"][t]:
                fs.append(dict(clause="stable-outcome", site=label + ":outcome-changed",
                               msg="outcome of future %d changed from %s to %s (%s)" % (t, p["st"][t], q["st"][t], wh)))
    # a future completed from inside another future's notification holds THAT outcome from then on
    if pts:
        for x in io.get("sets", []):
            t = x["target"]
            if t < nf and "o" in x and pts[-1]["st"][t] != x["o"]:
                fs.append(dict(clause="stable-outcome", site="KBatch/%s:set-by-callback-of-%s:outcome-changed" % (fname(t), fname(x["fut"])),
                               msg="subscriber %d of future %d completed future %d with %s from inside its callback (the set returned "
                                   "normally) but at the end that future holds %s" % (x["by"], x["fut"], t, x["o"], pts[-1]["st"][t])))
    return fs


def _okind(o):
    return "not-computed" if o is None else "value" if "Ok" in o else "error" if "Err" in o else _opname(o)


def _yield_monitors(c, io):
    """'... always report that same outcome' for the reader that is a PARENT TASK: a parent that yields a computed
    future receives its value as the result of the yield, or has its error thrown in at the yield."""
    fs = []
    kind = c["args"][0]
    if "final" not in io:
        return fs
    if kind == "KBatch":
        trip = [("KBatch/%s" % ("batch" if t == 0 else "item"), f, y, "future %d" % t)
                for t, (f, y) in enumerate(zip(io["final"], io["yield"]))]
    else:
        trip = [(kind, io["final"], io["yield"], "the future")]
    for label, final, got, wh in trip:
        if final is not None and got != final:
            fs.append(dict(clause="stable-outcome", site="%s:yield-from-parent:%s-instead-of-%s" % (label, _okind(got), _okind(final)),
                           msg="a parent task that yielded %s after the last operation received %s although the future's outcome "
                               "(is_computed()/error()/value()) is %s" % (wh, got, final)))
    # the task of a KSusp case is itself such a parent: every yield of its body delivers the dependency's outcome
    if kind == "KSusp":
        phases = c["args"][1]
        for x in io.get("resumed", []):
            want = phases[x["phase"]]["mkphase"][3]
            for src, w in (("set", want), ("reported", x["dep"])):
                if x["got"] != w:
                    fs.append(dict(clause="stable-outcome",
                                   site="KSusp:yield:%s:dependency-%s-delivered-as-%s" % (x["via"], _okind(w), _okind(x["got"])),
                                   msg="the body's yield number %d (dependency: %s) delivered %s although the outcome %s %s is %s" % (
                                       x["phase"], x["via"], x["got"], src, "by the dependency's computation" if src == "set" else
                                       "by the dependency itself (error()/value()) at that moment", w)))
                    break
    return fs


def monitors(c, io, build):
    """Direct encoding of the C10 statement over what the implementation did.  The site of a finding on a case
    whose exception objects are of a non-plain kind says so."""
    fs = _monitors0(c, io, build)
    if "Hang" not in io:
        fs += _yield_monitors(c, io)
    ek = c.get("ekind", "plain")
    if ek != "plain":
        for f in fs:
            f["site"] += ":error-object=" + ek
    return fs


def _monitors0(c, io, build):
    if "Hang" in io:
        return [dict(clause="compute-once", site="%s:hang" % c["args"][0], msg="the operations did not terminate")]
    if c["args"][0] == "KSusp":
        return _susp_monitors(c, io)
    if c["args"][0] == "KBatch":
        return _batch_monitors(c, io)
    kind, prov, o0, ops = c["args"]
    res, log, runs, _final = io["out"][""]
    events = io.get("events", [])
    fs = []
    nlog_prev = 0
    ep = _Epoch(kind, o0 if kind in ("KConst", "KError") else None)
    for i, (o, r, ob) in enumerate(zip(ops, res, io["obs"])):
        name = _opname(o)
        pre, post = ob["pre"], ob["post"]
        fs += _op_checks(kind, name, _arg(o), r, pre, post, ob["runs"], "op %d" % i, prov=ob.get("prov", []))
        fs += ep.op(name, _arg(o), r, pre, post, ob.get("prov", []), "op %d" % i)
        # (d) every subscriber notified exactly once per completion, after the outcome is visible
        new = log[nlog_prev:ob["nlog"]]
        completed = pre is None and post is not None
        ended = [x for x in ob.get("prov", []) if "Base" not in x or kind == "KTask"]
        if completed and kind not in ("KConst", "KError"):
            fs += _notify_check("%s:%s" % (kind, name), post, ob["subs"], new, events, nlog_prev, ob["nlog"], "op %d" % i)
        elif pre is None and post is None and len(ended) == 1 and kind in ("KLazy", "KTask"):
            # the underlying computation was observed to return / raise an Exception: that is a completion - every
            # registered subscriber is owed exactly one notification carrying that outcome
            x = ended[0]
            fs += _notify_check("%s:%s:computation-ended" % (kind, name), {"Err": x["Base"]} if "Base" in x else x, ob["subs"],
                                new, events, nlog_prev, ob["nlog"], "op %d; the computation ended with %s but the future "
                                "is not computed" % (i, x))
        elif new:
            fs.append(dict(clause="notify-once-after", site="%s:%s:spurious-callback" % (kind, name),
                           msg="callbacks %s fired although op %d (%s) did not complete the future" % (new, i, name)))
        nlog_prev = ob["nlog"]
    # (e) ConstFuture / ErrorFuture complete from construction
    if kind in ("KConst", "KError") and io["obs"] and "OReset" not in [_opname(o) for o in ops]:
        if io["obs"][0]["pre"] != o0:
            fs.append(dict(clause="const-error-complete", site="%s:construction" % kind,
                           msg="%s is not complete with %s right after construction" % (kind, o0)))
    return fs


def _case(a):
    return {"args": a, "tree": a, "meta": {"shrunk": True}}


def _simpler(k):
    """Simpler behaviour scripts than k."""
    if isinstance(k, str):
        return
    yield "CbOk"
    (name, a), = k.items()
    if name == "CbRaise" and a[0] != "XUser":
        yield _R("XUser")
    if name == "CbSub":
        for x in _simpler(a[1]):
            if x != "CbOk":
                yield {"CbSub": [a[0], x]}
    if name == "CbSeq":
        yield a[0]
        yield a[1]
        for x in _simpler(a[0]):
            yield {"CbSeq": [x, a[1]]}
        for x in _simpler(a[1]):
            yield {"CbSeq": [a[0], x]}
    elif name == "CbSub" and a[1] != "CbOk":
        yield {"CbSub": [a[0], "CbOk"]}


def _simpler_subscribes(ops, prefix):
    for i, o in enumerate(ops):
        if isinstance(o, dict) and prefix + "Subscribe" in o:
            sid, k = o[prefix + "Subscribe"]
            for k2 in _simpler(k):
                yield ops[:i] + [{prefix + "Subscribe": [sid, k2]}] + ops[i + 1:]


def _shrink_batch(c):
    cs = _bcancel(c)
    for i in range(len(cs)):
        yield _case(c["args"][:4] + [cs[:i] + cs[i + 1:]])
    for x in _shrink_batch4(c):
        if cs:
            x["args"] = x["args"] + [cs]
            x["tree"] = x["args"]
        yield x


def _shrink_batch4(c):
    _, items, fin, ops = c["args"][:4]
    for i in range(len(ops)):
        yield _case(["KBatch", items, fin, ops[:i] + ops[i + 1:]])
    for i in range(len(items) - 1, -1, -1):
        # drop item i+1: operations on it go away, later items are renumbered
        ops2 = []
        for o in ops:
            if isinstance(o, dict) and "BOn" in o:
                t = o["BOn"][0]["n"]
                if t == i + 1:
                    continue
                if t > i + 1:
                    o = {"BOn": [{"n": t - 1}, o["BOn"][1]]}
            ops2.append(o)
        yield _case(["KBatch", items[:i] + items[i + 1:], fin, ops2])
    for i, sp in enumerate(items):
        subs, acts = sp[""]
        for j in range(len(subs)):
            yield _case(["KBatch", items[:i] + [{"": [subs[:j] + subs[j + 1:], acts]}] + items[i + 1:], fin, ops])
            for k2 in _simpler(subs[j][""][1]):
                sb = {"": [subs[j][""][0], k2]}
                yield _case(["KBatch", items[:i] + [{"": [subs[:j] + [sb] + subs[j + 1:], acts]}] + items[i + 1:], fin, ops])
        if len(acts) == 2:
            yield _case(["KBatch", items[:i] + [{"": [subs, acts[:1]]}] + items[i + 1:], fin, ops])
    for i, o in enumerate(ops):
        if isinstance(o, dict) and "BOn" in o and isinstance(o["BOn"][1], dict) and "OSubscribe" in o["BOn"][1]:
            sid, k = o["BOn"][1]["OSubscribe"]
            for k2 in _simpler(k):
                yield _case(["KBatch", items, fin, ops[:i] + [{"BOn": [o["BOn"][0], {"OSubscribe": [sid, k2]}]}] + ops[i + 1:]])
    if "PRet" not in fin:
        yield _case(["KBatch", items, {"PRet": ["VNone"]}, ops])


def shrink(c):
    """smaller cases with the same kind of exception objects; last: the same case with plain exception objects"""
    ek = c.get("ekind", "plain")
    for x in _shrink0(c):
        if ek != "plain":
            x["ekind"] = ek
            x["meta"] = dict(x.get("meta", {}), ekind=ek)
        yield x
    if ek != "plain":
        yield _case(c["args"])


def _shrink0(c):
    if c["args"][0] == "KBatch":
        for x in _shrink_batch(c):
            yield x
        return
    kind, prov, o0, ops = c["args"]
    for i in range(len(ops)):
        yield _case([kind, prov, o0, ops[:i] + ops[i + 1:]])
    for ops2 in _simpler_subscribes(ops, "O"):
        yield _case([kind, prov, o0, ops2])
    if kind == "KSusp":
        phases = prov
        for i in range(len(phases)):
            yield _case([kind, phases[:i] + phases[i + 1:], o0, ops])
            via, clean, inner, dep = phases[i]["mkphase"]
            for j in range(len(inner)):
                ph = {"mkphase": [via, clean, inner[:j] + inner[j + 1:], dep]}
                yield _case([kind, phases[:i] + [ph] + phases[i + 1:], o0, ops])
            if via != "ViaFuture":
                ph = {"mkphase": ["ViaFuture", clean, inner, dep]}
                yield _case([kind, phases[:i] + [ph] + phases[i + 1:], o0, ops])
            for inner2 in _simpler_subscribes(inner, "I"):
                ph = {"mkphase": [via, clean, inner2, dep]}
                yield _case([kind, phases[:i] + [ph] + phases[i + 1:], o0, ops])
        return
    if len(prov) > 1:
        yield _case([kind, prov[:-1], o0, ops])
    for i, po in enumerate(prov):
        if isinstance(po, dict) and "PRaise" in po and po["PRaise"][0] != "XUser":
            yield _case([kind, prov[:i] + [_PR(po["PRaise"][1])] + prov[i + 1:], o0, ops])
