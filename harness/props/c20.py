"""C20 — debug, dump and profiling options never change behaviour."""
from ..lib import mach, machgen

RULE = ("generated programs (synchronous re-entry, failures, 2-3 batch kinds with pairwise distinct priorities so that flush "
        "order is deterministic) each run under default options and under 3 (quick) / 6 (thorough) option variants: random "
        "subsets of the 19 boolean options (every DUMP_* flag, COLLECT_PERF_STATS, KEEP_DEPENDENCIES, "
        "ENABLE_COMPLEX_ASSERTIONS off), single-option variants, all-on, with a scripted clock whose steps range from 1 us "
        "to 4 hours; distinct = different AST+params+variants; non-trivial = some variant differs from the default and "
        "the program flushes a batch")
TRUSTED = ["Python/Gallina emitters of harness/lib/machprog.py", "asynq.scheduler.utime is replaced by a scripted clock (module global)"]
ASSUMPTIONS = ["observable = outcomes, flush compositions and order, item completions, context events, scoped reads, "
               "get_active_task() probes, scheduler summary; stdout/stderr and profiler buffers are the diagnostic output"]
EXPLANATION = ("projection for the default-options run against the model: all model-visible events; every option variant is "
               "compared with the default-options run of the same build")

OPTS = ["DUMP_PRE_ERROR_STATE", "DUMP_EXCEPTIONS", "DUMP_SCHEDULE_TASK", "DUMP_CONTINUE_TASK", "DUMP_SCHEDULE_BATCH",
        "DUMP_FLUSH_BATCH", "DUMP_DEPENDENCIES", "DUMP_COMPUTED", "DUMP_NEW_TASKS", "DUMP_YIELD_RESULTS",
        "DUMP_QUEUED_RESULTS", "DUMP_CONTEXTS", "DUMP_SYNC", "DUMP_STACK", "DUMP_SCHEDULER_STATE", "DUMP_SYNC_CALLS",
        "COLLECT_PERF_STATS", "KEEP_DEPENDENCIES"]
NAMES = ("EvStep", "EvGot", "EvDone", "EvItemDone", "EvBefore", "EvAfter", "EvFlush", "EvResume", "EvPause", "EvRead",
         "EvProbe", "EvSched")
CLOCKS = [[1], [1000], [1, 50, 3], [2 ** 31 + 7], [3600 * 10 ** 6, 5], [4 * 3600 * 10 ** 6], [10 ** 6, 2 ** 32]]

_base = dict(name="opts", p_ctx_fault=0, p_nonasync=0.04, budget=14, max_depth=4, nkinds=2, p_sync=0.2, p_raise=0.08,
             p_item_err=0.1, p_item_skip=0.06, p_flush_raise=0.2, p_try=0.2, p_with=0.15, p_prio=0.0)
PROFILES = [(3, dict(_base)), (1, dict(_base, name="opts3", nkinds=3)), (1, dict(_base, name="opts-hist", roots=(2, 3)))]


def _variants(rng, k):
    vs = []
    for i in range(k):
        r = rng.random()
        if r < 0.3:
            on = [rng.choice(OPTS)]
        elif r < 0.4:
            on = list(OPTS)
        else:
            on = [o for o in OPTS if rng.random() < rng.choice([0.15, 0.4, 0.7])]
        opts = {o: True for o in on}
        if rng.random() < 0.25:
            opts["ENABLE_COMPLEX_ASSERTIONS"] = False
        v = {"options": opts}
        if "COLLECT_PERF_STATS" in on:
            v["clock"] = rng.choice(CLOCKS)
        vs.append(v)
    return vs


def _distinct_prios(c, rng):
    kinds = c["params"].setdefault("kinds", {})
    for k in range(3):
        ks = kinds.setdefault(str(k), {})
        ks["prio"] = ["baselen", 10 * (k + 1)] if rng.random() < 0.7 else ["const", 10 * (k + 1), 0]
    return c


def _nontrivial(c):
    s = machgen.stats(c)
    return s["items"] >= 1 and any(v["options"] for v in c.get("variants", []))


def _extra(c, io, build):
    fs = []
    base = mach.project(io["out"], NAMES)
    for v, r in zip(c.get("variants", []), io.get("variants", [])):
        on = sorted(k for k, x in v["options"].items() if x) + sorted("no-" + k for k, x in v["options"].items() if not x)
        if "escaped" in r:
            fs.append(dict(clause="C20:options-inert", site="harness-level-exception:%s" % r["escaped"],
                           msg="with options %s the run raised %s outside any computation" % (on, r["escaped"])))
            continue
        pv = mach.project(r["out"], NAMES)
        if pv["outs"] != base["outs"]:
            bad = [o for o, b in zip(pv["outs"], base["outs"]) if o != b]
            cls = "exception"
            try:
                e = bad[0]["Some"][0]
                if "Err" in e and isinstance(e["Err"][0], dict):
                    cls = e["Err"][0]["Unexpected"][0]["s"]
            except Exception:
                pass
            fs.append(dict(clause="C20:options-inert", site="outcome-differs:%s" % cls,
                           msg="with options %s (clock %s) the outcomes are %s, with default options %s" % (on, v.get("clock"), pv["outs"], base["outs"])))
            continue
        d = mach.first_diff(base["events"], pv["events"])
        if d:
            kind = "events"
            for a, b in zip(base["events"], pv["events"]):
                if a != b:
                    kind = next(iter(a))
                    break
            fs.append(dict(clause="C20:options-inert", site="trace-differs:%s" % kind,
                           msg="with options %s (clock %s) the observable trace differs from the default-options run: %s" % (on, v.get("clock"), d)))
    return fs


def _hang(c, io, build):
    """a run that does not return under an option variant while (unless it is the default-options run itself that
    spins) the default run of the same computation does"""
    import re
    note = (io["Hang"][0].get("note") if io.get("Hang") else "") or ""
    m = re.match(r"variant (\d+)", note)
    if not m or int(m.group(1)) >= len(c.get("variants", [])):
        return []
    v = c["variants"][int(m.group(1))]
    on = sorted(k for k, x in v["options"].items() if x) + sorted("no-" + k for k, x in v["options"].items() if not x)
    return [dict(clause="C20:options-inert", site="does-not-terminate:%s" % ",".join(on),
                 msg="with default options the computation returns; with options %s it never does" % on)]


# a sibling flushes the batch another task is waiting on (synchronous item.value()): the wait loop then finds no
# batch to flush - the path on which DUMP_FLUSH_BATCH used to matter
_SIBLING_FLUSH = {
    "roots": [[
        {"op": "yield", "x": "x1", "s": {"tuple": [
            {"new": {"task": [{"op": "yield", "x": "x2", "s": {"new": {"item": [0, 1, {"set": 5}]}}},
                              {"op": "return", "e": {"var": "x2"}}]}},
            {"new": {"task": [{"op": "let", "h": "h1", "f": {"item": [0, 2, {"set": 6}]}},
                              {"op": "sync", "x": "x3", "h": "h1"},
                              {"op": "return", "e": {"var": "x3"}}]}}]}},
        {"op": "return", "e": {"var": "x1"}}]],
    "params": {"kinds": {}},
    "variants": [{"options": {"DUMP_FLUSH_BATCH": True}}, {"options": {o: True for o in OPTS}, "clock": [2 ** 31 + 7]}],
}

# the refutation witness of proofs/MachineKeep.v (C20_keep_dependencies_inert_statement_is_false) on the implementation:
# MAX_TASK_STACK_SIZE reset inside a nested synchronous call, caught, then `yield None` - with KEEP_DEPENDENCIES the
# task still holds its old dependencies, _continue returns to an emptied scheduler loop, and the awaiting root's
# contexts get an extra pause/resume pair (and a resume() that raises on its first scheduler-driven call now runs)
def _keep_guard(fault):
    return {
        "roots": [[
            {"op": "with", "c": {"async": [7, fault]}, "body": [
                {"op": "yield", "x": "x1", "s": {"new": {"task": [
                    {"op": "yield", "x": "a1", "s": {"new": {"const": 1}}},
                    {"op": "let", "h": "h1", "f": {"task": [{"op": "return", "e": None}]}},
                    {"op": "try", "body": [{"op": "sync", "x": "b1", "h": "h1"}], "x": "e1", "handler": []},
                    {"op": "yield", "x": "n1", "s": None},
                    {"op": "return", "e": 5}]}}}]},
            {"op": "return", "e": {"var": "x1"}}]],
        "params": {"kinds": {}, "maxstack": 2},
        "variants": [{"options": {"KEEP_DEPENDENCIES": True}}],
    }


_KEEP_GUARD = [_keep_guard(None), _keep_guard({"resume": [1, 77]})]

# scenario classes in which an option could matter: flush bodies that leave items unset (ENABLE_COMPLEX_ASSERTIONS off),
# tasks killed by a context whose resume()/pause() raises while perf stats are collected
_NOASSERT_SKIP = {
    "roots": [[{"op": "try", "body": [{"op": "yield", "x": "x1", "s": {"tuple": [
        {"new": {"item": [0, 1, {"set": 1}]}}, {"new": {"item": [0, 2, "skip"]}}, {"new": {"item": [1, 3, "skip"]}}]}}],
        "x": "e1", "handler": []}, {"op": "return", "e": 0}]],
    "params": {"kinds": {}},
    "variants": [{"options": {"ENABLE_COMPLEX_ASSERTIONS": False}}],
}
_PERF_CTX_FAULT = {
    "roots": [[{"op": "yield", "x": "x1", "s": {"tuple": [
        {"new": {"task": [{"op": "with", "c": {"async": [1, {"resume": [2, 41]}]}, "body": [
            {"op": "yield", "x": "a1", "s": {"new": {"task": [
                {"op": "yield", "x": "b1", "s": {"new": {"item": [0, 1, {"set": 1}]}}},
                {"op": "yield", "x": "b2", "s": {"new": {"item": [1, 2, {"set": 2}]}}}, {"op": "return", "e": {"var": "b2"}}]}}}]},
            {"op": "return", "e": 0}]}},
        {"new": {"task": [{"op": "yield", "x": "c1", "s": {"new": {"item": [0, 3, {"set": 3}]}}},
                          {"op": "yield", "x": "c2", "s": {"new": {"item": [1, 4, {"set": 4}]}}}, {"op": "return", "e": 0}]}}]}},
        {"op": "return", "e": 0}]],
    "params": {"kinds": {}},
    "variants": [{"options": {"COLLECT_PERF_STATS": True}, "clock": [1]}, {"options": {"KEEP_DEPENDENCIES": True}}],
}
# a synchronous wait, made inside a task, for a sibling that is pending on the scheduler's stack (yielded next to the task
# that waits for it) - legal with every option setting
_SYNC_ON_PENDING_SIBLING = {
    "roots": [[
        {"op": "let", "h": "h1", "f": {"task": [{"op": "yield", "x": "p1", "s": {"new": {"item": [0, 1, {"set": 1}]}}}, {"op": "return", "e": {"var": "p1"}}]}},
        {"op": "yield", "x": "x1", "s": {"tuple": [
            {"new": {"task": [{"op": "sync", "x": "c1", "h": "h1"}, {"op": "return", "e": {"var": "c1"}}]}},
            {"old": "h1"},
            {"new": {"task": [{"op": "yield", "x": "d1", "s": {"new": {"item": [0, 2, {"set": 2}]}}}, {"op": "return", "e": {"var": "d1"}}]}}]}},
        {"op": "return", "e": {"var": "x1"}}]],
    "params": {"kinds": {}},
    "variants": [{"options": {"ENABLE_COMPLEX_ASSERTIONS": False}}, {"options": {"ENABLE_COMPLEX_ASSERTIONS": False, "KEEP_DEPENDENCIES": True}}],
}
# several context faults within ONE _pause_contexts / _resume_contexts: a task suspended on a batch item while it holds
# two contexts whose pause() both raise at that suspension (the LAST one raised - the outermost context's - is the task's
# error, as for nested __exit__ calls); resp. whose resume() both raise at the same reactivation (the FIRST one raised -
# the outermost context's again - is the task's error). Which error wins must not depend on any option
# (DUMP_EXCEPTIONS reports the errors that are not re-raised).
def _fault_stack(kind, n=2):
    body = [{"op": "yield", "x": "a1", "s": {"new": {"item": [0, 1, {"set": 7}]}}}]
    for i in range(n, 0, -1):
        body = [{"op": "with", "c": {"async": [i, {kind: [1, 10 + i]}]}, "body": body}]
    return {
        "roots": [[
            {"op": "try", "body": [{"op": "yield", "x": "x1", "s": {"new": {"task": body + [{"op": "return", "e": {"var": "a1"}}]}}},
                                   {"op": "return", "e": {"var": "x1"}}],
             "x": "e1", "handler": [{"op": "return", "e": {"var": "e1"}}]}]],
        "params": {"kinds": {}},
        "variants": [{"options": {"DUMP_EXCEPTIONS": True}}, {"options": {"DUMP_CONTEXTS": True, "DUMP_PRE_ERROR_STATE": True}},
                     {"options": {o: True for o in OPTS}, "clock": [1]}],
    }


_FAULT_STACKS = [_fault_stack("pause"), _fault_stack("resume"), _fault_stack("pause", 3)]
_EXTRA2 = [(1, dict(_base, name="ctx-fault-stacks", p_ctx_stack=0.3, p_ctx_fault=0.5, p_with=0.25, p_item=0.55))]
_EXTRA = [
    (1, dict(_base, name="sync-shared", p_sync=0.3, p_old=0.5, p_let=0.3, p_item=0.5)),
    (1, dict(_base, name="skip-noassert", p_item_skip=0.45, p_item=0.6)),
    (1, dict(_base, name="ctx-faults", p_ctx_fault=0.7, p_with=0.45, p_item=0.55, p_nonasync=0.1)),
]
_CORPUS_SRC = [_SIBLING_FLUSH] + _KEEP_GUARD + [_NOASSERT_SKIP, _PERF_CTX_FAULT, _SYNC_ON_PENDING_SIBLING] + _FAULT_STACKS

mach.install(globals(), "C20", NAMES, ("C20:",), PROFILES, n_quick=200, n_thorough=2500, nontrivial=_nontrivial,
             extra_monitors=_extra, hang_monitor=_hang, corpus=_CORPUS_SRC, level="proof", extra_gen=mach.extra_all(mach.extra_profiles(_EXTRA, 60, 900), mach.extra_profiles(_EXTRA2, 30, 450)))
for _c, _src in zip(CORPUS, _CORPUS_SRC):
    _c["variants"] = _src["variants"]
    _c["tree"]["variants"] = _c["variants"]

_gen0 = gen_cases
_shrink0 = shrink


def gen_cases(rng, tier):
    cs = _gen0(rng, tier)
    for c in cs:
        _distinct_prios(c, rng)
        c["variants"] = _variants(rng, 3 if tier == "quick" else 6)
        prof = (c.get("meta") or {}).get("profile")
        if prof in ("skip-noassert", "sync-shared"):
            c["variants"][0] = {"options": {"ENABLE_COMPLEX_ASSERTIONS": False}}
        elif prof == "ctx-faults":
            c["variants"][0] = {"options": {"COLLECT_PERF_STATS": True}, "clock": [1]}
        elif prof == "ctx-fault-stacks":
            c["variants"][0] = {"options": {"DUMP_EXCEPTIONS": True}}
        mach.finish_case(c, c.get("meta"))
        c["tree"]["variants"] = c["variants"]
    return cs


def shrink(c):
    import copy
    vs = c.get("variants", [])
    # fewer variants, then fewer options per variant, then a smaller program
    for i in range(len(vs)):
        if len(vs) > 1:
            c2 = copy.deepcopy({k: c[k] for k in ("roots", "params")})
            c2["variants"] = [v for j, v in enumerate(vs) if j != i]
            yield _fin(c2)
    for i, v in enumerate(vs):
        for o in list(v["options"]):
            c2 = copy.deepcopy({k: c[k] for k in ("roots", "params")})
            c2["variants"] = copy.deepcopy(vs)
            del c2["variants"][i]["options"][o]
            if o == "COLLECT_PERF_STATS":
                c2["variants"][i].pop("clock", None)
            yield _fin(c2)
    for cand in _shrink0(c):
        cand["variants"] = vs
        cand["tree"]["variants"] = vs
        yield cand


def _fin(c2):
    mach.finish_case(c2, {"shrunk": True})
    c2["tree"]["variants"] = c2["variants"]
    return c2
