"""C17 — async generators deliver their Values in order, and only those."""
import itertools
import json

from ..lib import coqrun

PROP = "C17"
COQ_IMPORTS = ["Gen"]
COQ_FN = "Gen.run_case"
IMPL = "c17_impl.py"
SHARD = 200
RULE = ("@async_generator() bodies = step trees over {await future (ConstFuture/ErrorFuture | asynq task | task blocked on a "
        "DebugBatchItem; outcome value / END marker / error), yield Value(v), raise, nested async generator iterated as "
        "documented, yield of a non-Value non-future awaitable: None (bare pause / conditional await whose condition is false), "
        "tuple / list / dict (empty ones included, nested <= 2) of futures and None}; the payload v of Value(v) is None, an int, a tuple / list "
        "(nested <= 2, may hold futures) or a FUTURE the consumer is to receive as an object: unstarted asynq task, computed task, ConstFuture, "
        "ErrorFuture, lazy Future, unflushed DebugBatchItem; the same future object may be yielded twice; exhaustive part: every body over {await, value} up to length 6 (quick) / 8 (thorough) x take_first n in 0..9 "
        "followed by a second consumer op, and every body over {await, value, non-Value yield} with >= 1 such yield up to length 4 "
        "(quick) / 6 (thorough) x n in 0..4 / 0..7 with op lists built from take_first / next+value / list_of_generator, and every body over "
        "{await, Value(data), Value(future)} with >= 1 future payload up to length 4 (quick) / 6 (thorough) x n in 0..4 / 0..6 (single and repeated take_first); random part: bodies up to length 20, nesting depth <= 2, failing awaits, raising "
        "bodies, op lists of length 1..8 over next / task.value() / list_of_generator / take_first(n), called directly or from "
        "another asynq task; protocol-violating op lists (next before the previous task is computed) are the malformed stream; "
        "distinct = different (body without future kinds, op list); non-trivial = body has >= 1 await / non-Value yield and >= 1 Value")
TRUSTED = ["future payloads are canonicalised by object identity (label = id given by the generator), never by their result; "
           "the model carries the label as an opaque val (C17_payload_opaque)",
           "the scheduler is exercised, not modelled: the model only assumes that a yielded future is computed before the "
           "task that yielded it is resumed (C01/C03 are about that)",
           "CountingGen (harness wrapper that counts generator.send calls) forwards to a real Python generator"]
ASSUMPTIONS = ["a body yields a Value, a single future, None, or a tuple/list/dict (nested <= 2) of futures and None; futures inside a "
               "container have a value or an error outcome (not the END marker)",
               "n >= 0 as in the statement; callers iterate with next()/for (gen.send(v) with v != None is not exercised)",
               "nested generators are iterated with the loop the async_generator docstring prescribes; consumption is counted on the outer generator only",
               "the model is of take_first WITH the repair work/fixes/C17-take-first-zero.diff; the unrepaired loop is Gen.take_first_orig (refuted at n = 0 in props/C17.v)"]

KINDS = ["AConst", "ATask", "ABatch"]
# what a Value may hold besides plain data: a future the consumer is to receive AS AN OBJECT
# (unstarted task to be batched by the consumer, computed task, ConstFuture, ErrorFuture, lazy Future, unflushed batch item)
PKINDS = ["PTaskNew", "PTaskDone", "PConst", "PErr", "PLazy", "PBatch"]
UNSTARTED = ("PTaskNew", "PLazy", "PBatch")


# ------------------------------------------------------------------ generation
def _val(rng):
    return "VNone" if rng.random() < 0.08 else {"VInt": [rng.randrange(0, 60)]}


def _fut_payload(rng, ids):
    """a future as payload; now and then the SAME object is yielded again (same id, same kind)"""
    if ids and rng.random() < 0.1:
        return {"PFut": list(rng.choice(ids))}
    k = rng.choice(PKINDS + ["PTaskNew", "PTaskNew"])
    ids.append((k, len(ids) + 1))
    return {"PFut": [k, len(ids)]}


def _data_payload(rng, ids, fut_p=0.0, depth=2):
    r = rng.random()
    if r < 0.45 or depth == 0:
        return {"VInt": [rng.randrange(0, 60)]}
    if r < 0.55:
        return "VNone"
    mem = [(_fut_payload(rng, ids) if rng.random() < fut_p else _data_payload(rng, ids, fut_p, depth - 1))
           for _ in range(rng.choice([0, 1, 2, 2, 3]))]
    return {rng.choice(["VTuple", "VList"]): [mem]}


def _payload(rng, ids, fut_p):
    """what goes into Value(...): a future (probability fut_p), else None / int / tuple / list (which may hold futures)"""
    if rng.random() < fut_p:
        return _fut_payload(rng, ids)
    return _data_payload(rng, ids, 0.3)


def _await(rng, i, fail_p=0.0, end_p=0.0):
    r = rng.random()
    if r < fail_p:
        o = {"TErr": [500 + i]}
    elif r < fail_p + end_p:
        o = "TEnd"
    else:
        o = {"TVal": [{"VInt": [100 + i]}]} if rng.random() > 0.05 else {"TVal": ["VNone"]}
    return {"NAwait": [rng.choice(KINDS), o]}


_ctr = itertools.count()


def _fut(rng, fail_p):
    i = next(_ctr) % 300
    if rng.random() < fail_p:
        o = {"Err": [500 + i]}
    else:
        o = {"Ok": [{"VInt": [100 + i]} if rng.random() > 0.1 else "VNone"]}
    return {"WFut": [rng.choice(KINDS), o]}


def _aw(rng, fail_p=0.0, depth=2, none_p=0.5):
    """Something that is neither a Value nor a single future: None, or a container of futures / None / containers."""
    r = rng.random()
    if r < none_p:
        return "WNone"
    if depth == 0:
        return _fut(rng, fail_p)
    n = rng.choice([0, 0, 1, 1, 2, 2, 3])
    mem = [(_fut(rng, fail_p) if rng.random() < 0.5 else _aw(rng, fail_p, depth - 1, 0.6)) for _ in range(n)]
    k = rng.choice(["WTuple", "WTuple", "WList", "WDict"])
    if k == "WDict":
        return {"WDict": [[{"": [j + 1, m]} for j, m in enumerate(mem)]]}
    return {k: [mem]}


def gen_body(rng, maxlen, depth, fail_p, raise_p, end_p, yield_p=0.0, pay_p=0.0, ids=None):
    n = rng.randrange(0, maxlen + 1)
    b = []
    ids = [] if ids is None else ids
    for _ in range(n):
        if yield_p and rng.random() < yield_p:
            b.append({"NYield": [_aw(rng, fail_p)]})
            continue
        if pay_p and rng.random() < 0.45:
            b.append({"NValue": [_payload(rng, ids, pay_p)]})
            continue
        r = rng.random()
        i = next(_ctr) % 300
        nest_p = 0.15 if depth > 0 else 0.0
        if r < nest_p:
            b.append({"NNest": [gen_body(rng, max(1, maxlen // 2), depth - 1, fail_p, raise_p, end_p, yield_p, pay_p, ids)]})
        elif r < nest_p + raise_p:
            b.append({"NRaise": [700 + i]})
        elif r < 0.58:
            b.append(_await(rng, i, fail_p, end_p))
        else:
            b.append({"NValue": [_val(rng)]})
    return b


def gen_ops(rng, malformed):
    n = rng.choice([1, 1, 2, 2, 3, 4, 5, 8])
    ops = []
    for _ in range(n):
        r = rng.random()
        if malformed:
            ops.append("ONext" if r < 0.55 else "OCompute" if r < 0.65 else "OList" if r < 0.8 else {"OTake": [rng.randrange(0, 5)]})
        else:
            if r < 0.25:
                ops += ["ONext", "OCompute"]
            elif r < 0.35:
                ops.append("OList")
            elif r < 0.40:
                ops.append("OCompute")
            else:
                ops.append({"OTake": [rng.choice([0, 0, 1, 1, 2, 2, 3, 4, 5, 7, 9, 12])]})
    return ops


def _case(body, ops, **meta):
    return {"body": body, "ops": ops, "meta": meta, "tree": [body, ops]}


def exhaustive(rng, maxlen, reps=1):
    cs = []
    tails = [[], ["OList"], [{"OTake": [1]}, "OList"], ["ONext", "OCompute", "OList"], [{"OTake": [2]}, {"OTake": [0]}, "OList"],
             ["ONext", "ONext"]]
    for L in range(0, maxlen + 1):
        for mask in itertools.product("av", repeat=L):
            for n in list(range(0, 10)) * reps:
                body = []
                for i, ch in enumerate(mask):
                    if ch == "a":
                        body.append({"NAwait": [rng.choice(KINDS), {"TVal": [{"VInt": [100 + i]}]}]})
                    else:
                        body.append({"NValue": [{"VInt": [i + 1]}]})
                t = rng.choice(tails)
                if rng.random() < 0.15:
                    ops = [{"OTake": [rng.randrange(0, 3)]}, {"OTake": [n]}] + t      # repeated take_first on the same generator
                else:
                    ops = [{"OTake": [n]}] + t
                cs.append(_case(body, ops, exhaustive=True, via=("task" if rng.random() < 0.3 else "sync")))
    return cs


def exhaustive_yields(rng, maxlen, nmax):
    """Every body over {await, Value, non-Value yield} that has at least one such yield (None most of the time), x n."""
    cs = []
    tails = [[], ["OList"], ["OList", "ONext"], [{"OTake": [1]}, "OList"], ["ONext", "OCompute", "OList"], ["ONext", "ONext"],
             ["ONext", "OCompute", "ONext", "OCompute", "ONext"]]
    for L in range(1, maxlen + 1):
        for mask in itertools.product("avp", repeat=L):
            if "p" not in mask:
                continue
            for n in range(0, nmax + 1):
                body = []
                for i, ch in enumerate(mask):
                    if ch == "a":
                        body.append({"NAwait": [rng.choice(KINDS), {"TVal": [{"VInt": [100 + i]}]}]})
                    elif ch == "v":
                        body.append({"NValue": [{"VInt": [i + 1]}]})
                    else:
                        body.append({"NYield": [_aw(rng, 0.0, 1, 0.6)]})
                t = rng.choice(tails)
                r = rng.random()
                if r < 0.15:
                    ops = ["OList"] + t
                elif r < 0.30:
                    ops = ["ONext", "OCompute", {"OTake": [n]}] + t
                else:
                    ops = [{"OTake": [n]}] + t
                cs.append(_case(body, ops, exhaustive=True, yields=True, via=("task" if rng.random() < 0.3 else "sync")))
    return cs


def exhaustive_payloads(rng, maxlen, nmax):
    """Every body over {await, Value(data), Value(<a future>)} that has at least one Value holding a future, x n:
    the future payload sits first in the body, directly after another Value, after an await, last, alone."""
    cs = []
    tails = [[], ["OList"], [{"OTake": [1]}, "OList"], ["ONext", "OCompute", "OList"], ["ONext", "ONext"],
             [{"OTake": [2]}, {"OTake": [0]}, "OList"], ["ONext", "OCompute", "ONext", "OCompute", "ONext"]]
    for L in range(1, maxlen + 1):
        for mask in itertools.product("avf", repeat=L):
            if "f" not in mask:
                continue
            for n in range(0, nmax + 1):
                body, ids = [], []
                for i, ch in enumerate(mask):
                    if ch == "a":
                        body.append({"NAwait": [rng.choice(KINDS), {"TVal": [{"VInt": [100 + i]}]}]})
                    elif ch == "v":
                        body.append({"NValue": [_data_payload(rng, ids, 0.3)]})
                    else:
                        body.append({"NValue": [_fut_payload(rng, ids)]})
                t = rng.choice(tails)
                r = rng.random()
                if r < 0.2:
                    ops = ["OList"] + t
                elif r < 0.35:
                    ops = ["ONext", "OCompute", {"OTake": [n]}] + t
                elif r < 0.5:
                    ops = [{"OTake": [rng.randrange(0, 3)]}, {"OTake": [n]}] + t      # repeated take_first on the same generator
                else:
                    ops = [{"OTake": [n]}] + t
                cs.append(_case(body, ops, exhaustive=True, payloads=True, via=("task" if rng.random() < 0.3 else "sync")))
    return cs


def gen_cases(rng, tier):
    cs = _gen_cases_yields(rng, tier)
    # round 8: the payload of a Value (appended after the older streams so that those stay exactly what they were)
    quick = tier == "quick"
    cs += exhaustive_payloads(rng, 4, 4) if quick else exhaustive_payloads(rng, 6, 6)
    for _ in range(300 if quick else 8000):
        r = rng.random()
        malformed = rng.random() < 0.2
        pp = rng.choice([0.3, 0.5, 0.8])
        yp = rng.choice([0.0, 0.0, 0.2])
        if r < 0.45:      # clean flat
            body = gen_body(rng, 12, 0, 0.0, 0.0, 0.0, yp, pp)
        elif r < 0.75:    # clean nested: the inner generator's payloads pass through `x = yield task; yield Value(x)`
            body = gen_body(rng, 9, 2, 0.0, 0.0, 0.0, yp, pp)
        elif r < 0.9:     # failing awaits / raising bodies
            body = gen_body(rng, 10, 0, 0.15, 0.05, 0.05, yp, pp)
        else:
            body = gen_body(rng, 9, 2, 0.1, 0.04, 0.05, yp, pp)
        cs.append(_case(body, gen_ops(rng, malformed), malformed=malformed, payloads=True, via=("task" if rng.random() < 0.3 else "sync")))
    return cs


def _gen_cases_yields(rng, tier):
    cs = _gen_cases_base(rng, tier)
    # appended after the older streams so that those stay exactly what they were
    quick = tier == "quick"
    cs += exhaustive_yields(rng, 4, 4) if quick else exhaustive_yields(rng, 6, 7)
    for _ in range(300 if quick else 8000):
        r = rng.random()
        malformed = rng.random() < 0.2
        yp = rng.choice([0.15, 0.3, 0.5])
        if r < 0.45:      # clean flat
            body = gen_body(rng, 14, 0, 0.0, 0.0, 0.0, yp)
        elif r < 0.70:    # clean nested
            body = gen_body(rng, 9, 2, 0.0, 0.0, 0.0, yp)
        elif r < 0.88:    # failing awaits / failing members of containers / raising bodies, flat
            body = gen_body(rng, 10, 0, 0.15, 0.05, 0.05, yp)
        else:
            body = gen_body(rng, 9, 2, 0.1, 0.04, 0.05, yp)
        cs.append(_case(body, gen_ops(rng, malformed), malformed=malformed, yields=True, via=("task" if rng.random() < 0.3 else "sync")))
    return cs


def _gen_cases_base(rng, tier):
    quick = tier == "quick"
    cs = exhaustive(rng, 6, 1) if quick else exhaustive(rng, 8, 2)
    nrand = 500 if quick else 20000
    for _ in range(nrand):
        r = rng.random()
        malformed = rng.random() < 0.25
        if r < 0.35:      # clean flat, longer
            body = gen_body(rng, 20, 0, 0.0, 0.0, 0.0)
        elif r < 0.60:    # clean nested
            body = gen_body(rng, 10, 2, 0.0, 0.0, 0.0)
        elif r < 0.80:    # failing awaits / raising bodies, flat
            body = gen_body(rng, 12, 0, 0.2, 0.06, 0.05)
        else:             # everything
            body = gen_body(rng, 10, 2, 0.12, 0.04, 0.05)
        cs.append(_case(body, gen_ops(rng, malformed), malformed=malformed, via=("task" if rng.random() < 0.3 else "sync")))
    return cs


def _a(k, o):
    return {"NAwait": [k, o]}


def _ok(i):
    return {"TVal": [{"VInt": [i]}]}


def _v(i):
    return {"NValue": [{"VInt": [i]}]}


def _vf(kind, i):
    return {"NValue": [{"PFut": [kind, i]}]}


_P = {"NYield": ["WNone"]}          # `yield None` / bare `yield` / `yield (fut if cond else None)` with cond false

CORPUS = [
    # the documented example and the three bodies of test_generator.py
    _case([_a("ATask", _ok(42)), _v(42)], ["OList"], corpus=True),
    _case([_a("ATask", _ok(0)), _v(0), _a("ATask", _ok(1)), _v(1), _a("ATask", _ok(2)), _v(2)],
          [{"OTake": [1]}, {"OTake": [2]}, {"OTake": [3]}], corpus=True),
    _case([{"NNest": [[_a("ATask", _ok(0)), _v(0), _a("ATask", _ok(1)), _v(1)]]}, _a("ATask", _ok(2))],
          [{"OTake": [4]}, "ONext"], corpus=True),
    _case([_v(0), _v(1), _v(2)], [{"OTake": [4]}], corpus=True),
    # n = 0 (known finding while /repo is unrepaired)
    _case([_v(1)], [{"OTake": [0]}], corpus=True),
    _case([_a("AConst", _ok(5))], [{"OTake": [0]}], corpus=True),
    _case([_a("ATask", _ok(5)), _v(1)], ["ONext", {"OTake": [0]}], corpus=True),
    # advance guard: plain, and a second consumer while the task is blocked on a batch item
    _case([_a("ATask", _ok(5)), _v(1)], ["ONext", "ONext", "OCompute", "ONext"], corpus=True),
    _case([_a("ABatch", _ok(5)), _a("ABatch", _ok(6)), _v(1)], ["OList", "ONext", "ONext"], corpus=True),
    # failing await: the body is not told, the next resume receives None
    _case([_a("ATask", {"TErr": [501]}), _v(1), _a("AConst", {"TErr": [502]})], ["OList", "OList", "OList", "ONext"], corpus=True),
    _case([{"NNest": [[_a("ABatch", {"TErr": [503]}), _v(3)]]}, _v(4)], ["OList", "OList"], corpus=True),
    _case([_v(1), {"NRaise": [701]}, _v(2)], [{"OTake": [1]}, "ONext", "ONext", "OList"], corpus=True),
    _case([{"NNest": [[{"NRaise": [702]}]]}, _v(2)], ["OList", "OList"], corpus=True),
    _case([_a("ATask", "TEnd"), _v(1), _a("AConst", _ok(2))], ["ONext", "OCompute", "ONext", "OCompute", "ONext"], corpus=True),
    # yields that are neither a Value nor a future.  `yield None` first thing after the body is advanced (start / after a Value):
    _case([_P, _a("ATask", _ok(2)), _v(2), _P, _a("ATask", _ok(4)), _v(4), _P, _a("ATask", _ok(6)), _v(6)],
          ["OList", "ONext", "ONext"], corpus=True),
    # ... and in the middle of a run of awaits (conditional await whose condition is false), taken in chunks
    _case([_a("ATask", _ok(2)), _P, _v(2), _a("ATask", _ok(4)), _P, _v(4), _a("ATask", _ok(6)), _P, _v(6), _a("ATask", _ok(8)), _P, _v(8)],
          [{"OTake": [2]}, "ONext", "ONext", "OCompute", {"OTake": [5]}, "ONext"], corpus=True),
    # empty / None-holding / future-holding containers, a pause after the last Value, a nested generator that pauses
    _case([{"NYield": [{"WTuple": [[]]}]}, _v(1), {"NYield": [{"WList": [["WNone", {"WFut": ["ATask", {"Ok": [{"VInt": [3]}]}]}]]}]}, _v(2),
           {"NNest": [[_P, _v(3), {"NYield": [{"WDict": [[{"": [1, {"WFut": ["ABatch", {"Ok": [{"VInt": [4]}]}]}]}]]}]}, _P]]}, _v(4), _P],
          [{"OTake": [1]}, "ONext", "OCompute", "OList", "ONext"], corpus=True),
    # the payload of a Value is a future the consumer is to receive as an object.  An unstarted task, first thing in the body:
    _case([_vf("PTaskNew", 1)], ["OList"], corpus=True),
    # ... two in a row after an await (the consumer batches them), an await after the last Value, taken in chunks
    _case([_a("ATask", _ok(5)), _vf("PTaskNew", 1), _vf("PTaskNew", 2), _a("ATask", _ok(6)), _vf("PTaskNew", 3), _vf("PBatch", 4), _a("ATask", _ok(7))],
          [{"OTake": [0]}, {"OTake": [1]}, {"OTake": [2]}, {"OTake": [5]}], corpus=True),
    # ... already computed futures, a lazy one, data that holds futures; one by one, then the rest; through a nested generator
    _case([_vf("PConst", 1), _a("AConst", _ok(5)), _vf("PConst", 2), {"NValue": [{"VTuple": [[{"PFut": ["PLazy", 3]}, {"VInt": [7]}]]}]},
           {"NNest": [[_vf("PTaskDone", 4), _vf("PErr", 5), _a("ATask", _ok(6)), _vf("PTaskNew", 6)]]}],
          ["ONext", "OCompute", "ONext", "OCompute", "OList"], corpus=True),
]


# ------------------------------------------------------------------ model side
def _strip_aw(w):
    if w == "WNone":
        return w
    (k, a), = w.items()
    if k == "WFut":
        return {"WFut": [a[1]]}
    if k == "WDict":
        return {k: [[{"": [kv[""][0], _strip_aw(kv[""][1])]} for kv in a[0]]]}
    return {k: [[_strip_aw(x) for x in a[0]]]}


def _aw_members(w):
    if w == "WNone":
        return []
    (k, a), = w.items()
    if k == "WFut":
        return []
    if k == "WDict":
        return [kv[""][1] for kv in a[0]]
    return list(a[0])


def _aw_fails(w):
    if w == "WNone":
        return False
    (k, a), = w.items()
    if k == "WFut":
        return "Err" in a[1]
    return any(_aw_fails(m) for m in _aw_members(w))


def _aw_kind(w):
    if w == "WNone":
        return "None"
    k = next(iter(w))
    if k == "WFut":
        return "future-in-container"
    return {"WTuple": "tuple", "WList": "list", "WDict": "dict"}[k] + ("-empty" if not _aw_members(w) else "")


def _label(p):
    """The model's name for the object in a Value: data is itself, a future is an opaque label made of its id (Gen.v carries
    payloads without ever looking at them: GenProofs.run_relabel); the runner canonicalises results the same way, by IDENTITY."""
    if p == "VNone":
        return p
    (k, a), = p.items()
    if k == "PFut":
        return {"VTuple": [[{"VInt": [-1]}, {"VInt": [a[1]]}]]}
    if k in ("VTuple", "VList"):
        return {k: [[_label(x) for x in a[0]]]}
    return p


def _pay_kind(p):
    if p == "VNone":
        return "None"
    (k, a), = p.items()
    if k == "PFut":
        return "future:" + a[0]
    if k in ("VTuple", "VList"):
        return {"VTuple": "tuple", "VList": "list"}[k] + ("-of-futures" if "PFut" in json.dumps(p) else "")
    return "int"


def _pay_futs(p):
    if p == "VNone":
        return []
    (k, a), = p.items()
    if k == "PFut":
        return [(a[0], a[1])]
    if k in ("VTuple", "VList"):
        return [f for x in a[0] for f in _pay_futs(x)]
    return []


def _strip(b):
    out = []
    for st in b:
        (k, a), = st.items()
        if k == "NAwait":
            out.append({"NAwait": [a[1]]})
        elif k == "NValue":
            out.append({"NValue": [_label(a[0])]})
        elif k == "NYield":
            out.append({"NYield": [_strip_aw(a[0])]})
        elif k == "NNest":
            out.append({"NNest": [_strip(a[0])]})
        else:
            out.append(st)
    return out


def model_input(c):
    return coqrun.coq_of(_strip(c["body"])) + " " + coqrun.coq_of(c["ops"])


def canon(c):
    return json.dumps([_strip(c["body"]), c["ops"]], sort_keys=True)


def _count(b, key):
    n = 0
    for st in b:
        (k, a), = st.items()
        if k == key:
            n += 1
        elif k == "NNest":
            n += _count(a[0], key)
    return n


def nontrivial(c):
    return _count(c["body"], "NAwait") + _count(c["body"], "NYield") >= 1 and _count(c["body"], "NValue") >= 1


def compare(c, m, io):
    if m != io["out"]:
        mr, ms = m[""]
        ir, isent = io["out"][""]
        for i, (a, b) in enumerate(zip(mr, ir)):
            if a != b:
                return "op %d (%s): Gen.run_case gives (result, pulls, is_stopped) = %s, the implementation %s" % (
                    i, c["ops"][i], json.dumps(a), json.dumps(b))
        if ms != isent:
            return "values received by the body differ: model %s, implementation %s" % (json.dumps(ms), json.dumps(isent))
        return "outputs differ"
    return None


def distribution(cases):
    d = {"body_len": {}, "nested": 0, "failing_await": 0, "raising_body": 0, "exhaustive": 0, "malformed_ops": 0,
         "via_task": 0, "take_n": {}, "await_kinds": {}, "ops_len": {}, "trailing_await": 0, "no_values": 0,
         "non_value_yields": {}, "bodies_with_non_value_yield": 0, "yield_first_after_advance": 0, "yield_after_await": 0,
         "value_payloads": {}, "bodies_with_future_payload": 0, "future_payload_where": {}, "same_future_yielded_twice": 0}

    def pays(b):
        for pl, where in _value_sites(b):
            pk = _pay_kind(pl)
            d["value_payloads"][pk] = d["value_payloads"].get(pk, 0) + 1
            if _pay_futs(pl):
                d["future_payload_where"][where] = d["future_payload_where"].get(where, 0) + 1

    def kinds(b):
        for st in b:
            (k, a), = st.items()
            if k == "NAwait":
                d["await_kinds"][a[0]] = d["await_kinds"].get(a[0], 0) + 1
            elif k == "NYield":
                yk = _aw_kind(a[0])
                d["non_value_yields"][yk] = d["non_value_yields"].get(yk, 0) + 1
            elif k == "NNest":
                kinds(a[0])

    for c in cases:
        b = c["body"]
        L = len(b)
        bk = "0" if L == 0 else "1-3" if L <= 3 else "4-8" if L <= 8 else "9-20"
        d["body_len"][bk] = d["body_len"].get(bk, 0) + 1
        d["nested"] += 1 if _count_nest(b) else 0
        d["failing_await"] += 1 if "TErr" in json.dumps(b) else 0
        d["raising_body"] += 1 if _count(b, "NRaise") else 0
        d["exhaustive"] += 1 if c["meta"].get("exhaustive") else 0
        d["malformed_ops"] += 1 if c["meta"].get("malformed") else 0
        d["via_task"] += 1 if c["meta"].get("via") == "task" else 0
        d["trailing_await"] += 1 if b and "NAwait" in b[-1] else 0
        d["no_values"] += 1 if _count(b, "NValue") == 0 else 0
        d["bodies_with_non_value_yield"] += 1 if _count(b, "NYield") else 0
        # where the non-Value yield sits: first thing after the body is advanced (start / after a Value), or after an await
        d["yield_first_after_advance"] += 1 if any("NYield" in st and (j == 0 or "NValue" in b[j - 1]) for j, st in enumerate(b)) else 0
        d["yield_after_await"] += 1 if any("NYield" in st and j > 0 and ("NAwait" in b[j - 1] or "NYield" in b[j - 1]) for j, st in enumerate(b)) else 0
        kinds(b)
        pays(b)
        fids = [f for pl, _ in _value_sites(b) for f in _pay_futs(pl)]
        d["bodies_with_future_payload"] += 1 if fids else 0
        d["same_future_yielded_twice"] += 1 if len(fids) != len(set(fids)) else 0
        ol = len(c["ops"])
        d["ops_len"][str(min(ol, 8))] = d["ops_len"].get(str(min(ol, 8)), 0) + 1
        for o in c["ops"]:
            if isinstance(o, dict):
                n = o["OTake"][0]
                key = str(n) if n < 10 else "10+"
                d["take_n"][key] = d["take_n"].get(key, 0) + 1
    return d


def _count_nest(b):
    return sum(1 for st in b if "NNest" in st)


# ------------------------------------------------------------------ monitors (model-independent)
def _opname(o):
    return o if isinstance(o, str) else next(iter(o))


def _is_flat(b):
    return not any("NNest" in st for st in b)


def _bad_step(st):
    (k, a), = st.items()
    if k == "NRaise":
        return True
    if k == "NAwait" and isinstance(a[1], dict) and "TErr" in a[1]:
        return True
    if k == "NYield" and _aw_fails(a[0]):
        return True
    if k == "NNest":
        return any(_bad_step(x) for x in a[0])
    return False


def _tree_values(b):
    out = []
    for st in b:
        (k, a), = st.items()
        if k == "NValue":
            out.append({"TVal": [_label(a[0])]})
        elif k == "NNest":
            out += _tree_values(a[0])
    return out


def _prev_kind(b, j):
    if j == 0:
        return "first-in-body"
    k = next(iter(b[j - 1]))
    return {"NValue": "directly-after-a-Value", "NAwait": "after-an-await", "NYield": "after-a-non-Value-yield",
            "NNest": "after-a-nested-generator", "NRaise": "after-a-raise"}[k]


def _value_sites(b, nested=False):
    """(payload, where) of every Value the outermost body yields, in program order (bodies that cannot fail)"""
    out = []
    for j, st in enumerate(b):
        (k, a), = st.items()
        if k == "NValue":
            out.append((a[0], ("nested:" if nested else "") + _prev_kind(b, j)))
        elif k == "NNest":
            out += _value_sites(a[0], True)
    return out


def _remaining(body, pulls):
    """What a flat body still has to execute after `pulls` generator.send calls (nothing once it raised)."""
    if any("NRaise" in st for st in body[:pulls]):
        return []
    return body[pulls:]


def monitors(c, io, build):
    """Direct encoding of the C17 statement over what the implementation did.
    The position in a flat body is the observed number of generator.send calls; for nested bodies
    the position is the number of Values delivered so far."""
    body, ops = c["body"], c["ops"]
    res = [r[""] for r in io["out"][""][0]]
    fs = []
    flat = _is_flat(body)
    whole_clean = not any(_bad_step(st) for st in body)
    allvals = _tree_values(body)
    delivered = 0            # Values handed out so far (any op)
    handle_counted = True
    handle_expect = None     # what the task handed out by the last successful next() has to compute to, when it can be said
    exhausted = False        # a StopIteration / a completed list_of_generator has been seen
    # the Values of the body as OBJECTS: (payload, where it sits), by index of the outermost body's Value yields
    sites = _value_sites(body) if (whole_clean or (flat and not any("NRaise" in st for st in body))) else None
    last_idx = -1            # index (among the body's Value yields) of the object delivered last
    started_seen = set()
    fut_where = {}
    for pl, where in _value_sites(body):
        for kind, fid in _pay_futs(pl):
            fut_where.setdefault(fid, (kind, where))

    def site_of(j):
        if sites is not None and 0 <= j < len(sites):
            return "%s:%s" % (_pay_kind(sites[j][0]), sites[j][1])
        return "unknown"

    for i, (o, (r, pulls, stopped), ob) in enumerate(zip(ops, res, io["obs"])):
        name = _opname(o)
        pre, post = ob["pre"], ob["post"]
        pending = pre["last"] == "pending"
        dp = post["pulls"] - pre["pulls"]
        rk = _opname(r)
        lst = r.get("RList") if isinstance(r, dict) else None
        lst = lst[0] if lst is not None else None
        # expected remaining values (program order), when it can be said without a model
        expect = None
        if flat:
            remaining = _remaining(body, pre["pulls"])
            if not any(_bad_step(st) for st in remaining):
                expect = _tree_values(remaining)
        elif whole_clean:
            expect = allvals[delivered:]

        # --- END_OF_GENERATOR never appears in a result
        if lst is not None and "TEnd" in lst:
            fs.append(dict(clause="no-end-marker", site="%s:END-in-result" % name,
                           msg="%s returned a list containing END_OF_GENERATOR (op %d): %s" % (name, i, lst)))

        # --- advancing before the previous task is computed raises RuntimeError (and does not advance)
        for p in ob["probes"]:
            if p["result"] != "RuntimeError" or p["pulled"] != 0:
                fs.append(dict(clause="advance-guard", site="second-consumer-during-await:%s:%s" % (p["tag"].split(":")[0], p["result"] if p["result"] != "RuntimeError" else "pulled"),
                               msg="a next() issued while the generator's task was still waiting (%s) gave %s and pulled %d items, expected RuntimeError and 0 (op %d)" % (
                                   p["tag"], p["result"], p["pulled"], i)))
        advancing = name == "ONext" or name == "OList" or (name == "OTake" and o["OTake"][0] >= 1)
        if advancing and pending:
            if r != {"RRaise": [-9]}:
                fs.append(dict(clause="advance-guard", site="%s-before-previous-task-computed:%s" % (name, rk if rk != "RRaise" else "raised-other"),
                               msg="%s while the previously returned task is not computed gave %s instead of RuntimeError (op %d)" % (name, r, i)))
            if dp != 0:
                fs.append(dict(clause="advance-guard", site="%s-before-previous-task-computed:advanced" % name,
                               msg="%s while the previous task is not computed pulled %d items from the generator (op %d)" % (name, dp, i)))
        if advancing and not pending and r == {"RRaise": [-9]}:
            fs.append(dict(clause="advance-guard", site="%s:spurious-RuntimeError" % name,
                           msg="%s raised RuntimeError although the previous task was computed (op %d)" % (name, i)))

        # --- an exhausted generator keeps raising StopIteration
        gen_finished = flat and pre["pulls"] > len(body)
        if (exhausted or pre["stopped"] or gen_finished) and not pending:
            if name == "ONext" and r != {"RRaise": [-10]}:
                fs.append(dict(clause="stays-stopped", site="next-after-exhaustion:%s" % rk,
                               msg="next() on an exhausted generator gave %s instead of StopIteration (op %d)" % (r, i)))
            if name in ("OList", "OTake") and lst != []:
                fs.append(dict(clause="stays-stopped", site="%s-after-exhaustion:%s" % (name, "non-empty" if lst else rk),
                               msg="%s on an exhausted generator gave %s instead of [] (op %d)" % (name, r, i)))
            if (exhausted or pre["stopped"]) and dp != 0:
                fs.append(dict(clause="stays-stopped", site="%s-after-exhaustion:resumed-body" % name,
                               msg="%s resumed the underlying generator %d times after exhaustion (op %d)" % (name, dp, i)))
        if flat:
            # the underlying generator raises StopIteration at pull number `limit`; it must never be resumed after that
            raises = [j for j, st in enumerate(body) if "NRaise" in st]
            limit = (raises[0] + 2) if raises else len(body) + 1
            if post["pulls"] > limit and pre["pulls"] <= limit:
                fs.append(dict(clause="stays-stopped", site="%s:body-resumed-after-StopIteration" % name,
                               msg="%s resumed the underlying generator %d times although it raises StopIteration at resume %d (op %d)" % (
                                   name, post["pulls"], limit, i)))
        if exhausted and not post["stopped"]:
            fs.append(dict(clause="stays-stopped", site="is_stopped-reset", msg="is_stopped went back to False (op %d)" % i))

        # --- iterating as documented (next / task.value()) yields exactly the Values, in program order:
        #     no StopIteration and no END_OF_GENERATOR while Values remain, each item is the next Value
        if name == "ONext" and not pending and expect is not None and not (exhausted or pre["stopped"]):
            if r == {"RRaise": [-10]} and expect:
                fs.append(dict(clause="iteration-in-order", site="next:StopIteration-with-Values-remaining",
                               msg="next() raised StopIteration although the Values %s have not been delivered (op %d)" % (expect, i)))
            first_is_value = (flat and bool(_remaining(body, pre["pulls"])) and "NValue" in _remaining(body, pre["pulls"])[0])
            if rk == "RConst" and (not expect or {"TVal": [r["RConst"][0]]} != expect[0]):
                fs.append(dict(clause="iteration-in-order", site="next:ConstFuture:%s" % ("wrong-value" if expect else "after-last-Value"),
                               msg="next() returned ConstFuture(%s), the next Value in program order is %s (op %d)" % (
                                   r["RConst"][0], expect[0] if expect else "none", i)))
            if first_is_value and rk == "RTask":
                fs.append(dict(clause="iteration-in-order", site="next:task-for-a-Value-already-yielded",
                               msg="next() returned an uncomputed task although the body yields Value %s next (op %d)" % (expect[0], i)))
            if rk == "RTask":
                handle_expect = expect[0] if expect else "TEnd"
        elif name == "ONext" and rk in ("RTask", "RConst"):
            handle_expect = None
        if name == "OCompute" and not handle_counted and handle_expect is not None and rk == "RItem":
            got = r["RItem"][0]
            if got != handle_expect:
                why = ("END-with-Values-remaining" if got == "TEnd" else "value-after-last-Value" if handle_expect == "TEnd" else "wrong-value")
                fs.append(dict(clause="iteration-in-order", site="task.value():%s" % why,
                               msg="the task returned by next() computed to %s, the next item in program order is %s (op %d)" % (got, handle_expect, i)))

        # --- "exactly the Values": what the consumer receives IS the object the body put into the Value (whatever it is:
        #     data, or a future the consumer wants as a future), each yielded object at most once, in program order
        ident = ob.get("ident")
        if ident is not None:
            if lst is not None:
                got = [(x, ix) for x, ix in zip(lst, ident) if x != "TEnd"]
            elif rk == "RConst":
                got = [(r["RConst"][0], ident[0])]
            elif rk == "RItem" and not handle_counted and r["RItem"][0] != "TEnd":
                got = [(r["RItem"][0], ident[0])]
            else:
                got = []
            for x, ix in got:
                later = [j for j in ix if j > last_idx]
                if later:
                    last_idx = later[0]
                    continue
                what = "not-an-object-the-body-yielded" if not ix else "object-delivered-again"
                fs.append(dict(clause="value-is-the-yielded-object", site="%s:%s:%s" % (name, site_of(last_idx + 1), what),
                               msg="%s delivered %s, which is not the object of the next Value the body yielded (Value number %d of the body: %s; "
                                   "identity indices of the delivered object among the body's Values: %s) (op %d)" % (
                                       name, json.dumps(x), last_idx + 2, site_of(last_idx + 1), ix, i)))
                if not ix:
                    last_idx += 1
        if name == "ONext" and "handle_is_payload" in ob:
            fid = ob["handle_is_payload"]
            kind, where = fut_where.get(fid, ("?", "unknown"))
            fs.append(dict(clause="value-is-the-yielded-object", site="next:future:%s:%s:payload-handed-out-as-the-task-to-wait-for" % (kind, where),
                           msg="next() returned the very future the body put into a Value (payload %d, %s, %s): a consumer that waits for it "
                               "receives that future's result, not the Value (op %d)" % (fid, kind, where, i)))
        if name == "ONext" and rk == "RTask" and ob.get("handle_is_last_task") is False and "handle_is_payload" not in ob:
            fs.append(dict(clause="value-is-the-yielded-object", site="next:task-is-not-the-generators-task",
                           msg="next() returned a task that is not the generator's last_task (op %d)" % i))

        # --- "and only those": a future inside a Value is data for the consumer; iterating the generator must not start it
        for fid in ob.get("payload_started", []):
            if fid in started_seen:
                continue
            started_seen.add(fid)
            kind, where = fut_where.get(fid, ("?", "unknown"))
            fs.append(dict(clause="payload-future-not-started", site="%s:%s:%s" % (name, kind, where),
                           msg="%s started / computed the future that the body put into a Value (payload %d, %s, %s); nobody asked for "
                               "its result (op %d)" % (name, fid, kind, where, i)))

        # --- list_of_generator returns all Values in program order
        if name == "OList" and not pending and expect is not None:
            if lst != expect:
                why = ("raised" if lst is None else "missing-values" if len(lst) < len(expect) and lst == expect[:len(lst)]
                       else "extra-values" if len(lst) > len(expect) else "wrong-values")
                fs.append(dict(clause="list-all-values", site="list_of_generator:%s" % why,
                               msg="list_of_generator gave %s, the remaining Values in program order are %s (op %d)" % (r, expect, i)))

        # --- take_first(gen, n): first n, none for n = 0, no more consumption than needed
        if name == "OTake":
            n = o["OTake"][0]
            if n == 0:
                if lst is None:
                    fs.append(dict(clause="take-first-prefix", site="take_first:n=0:raised",
                                   msg="take_first(gen, 0) raised %s instead of returning [] (op %d)" % (r, i)))
                elif lst != []:
                    fs.append(dict(clause="take-first-prefix", site="take_first:n=0:returns-values",
                                   msg="take_first(gen, 0) returned %s instead of [] (op %d)" % (lst, i)))
                if dp != 0:
                    fs.append(dict(clause="bounded-consumption", site="take_first:n=0:advances-generator",
                                   msg="take_first(gen, 0) pulled %d items from the generator, none is needed (op %d)" % (dp, i)))
            elif not pending:
                if expect is None and lst is not None and len(lst) > n:
                    fs.append(dict(clause="take-first-prefix", site="take_first:n>=1:too-many",
                                   msg="take_first(gen, %d) returned %d items: %s (op %d)" % (n, len(lst), lst, i)))
                if expect is not None and lst != expect[:n]:
                    why = ("raised" if lst is None else "too-many" if len(lst) > n else
                           "too-few" if len(lst) < min(n, len(expect)) else "wrong-values")
                    fs.append(dict(clause="take-first-prefix", site="take_first:n>=1:%s" % why,
                                   msg="take_first(gen, %d) gave %s, the first %d remaining Values are %s (op %d)" % (n, r, n, expect[:n], i)))
                if flat:
                    remaining = _remaining(body, pre["pulls"])
                    need = None
                    seen = 0
                    for j, st in enumerate(remaining):
                        if "NValue" in st:
                            seen += 1
                            if seen == n:
                                need = j + 1
                                break
                    if need is None:
                        need = 0 if (pre["stopped"]) else len(remaining) + 1   # must run to the end to know there are no more
                    if dp > need:
                        fs.append(dict(clause="bounded-consumption", site="take_first:n>=1:over-consumed",
                                       msg="take_first(gen, %d) pulled %d items, %d suffice (remaining body %s) (op %d)" % (n, dp, need, remaining, i)))

        # bookkeeping from observed results only
        if name == "ONext":
            if rk == "RConst":
                delivered += 1
                handle_counted = True
            elif rk == "RTask":
                handle_counted = False
            elif r == {"RRaise": [-10]}:
                exhausted = True
        elif name == "OCompute":
            if not handle_counted and rk == "RItem":
                handle_counted = True
                if r["RItem"][0] != "TEnd":
                    delivered += 1
        elif lst is not None:
            delivered += len([x for x in lst if x != "TEnd"])
            if name == "OList":
                exhausted = True
        if post["stopped"]:
            exhausted = True
    return fs


# ------------------------------------------------------------------ shrinking
def shrink(c):
    for x in _shrink(c):
        x["tree"] = [x["body"], x["ops"]]
        yield x


def _shrink(c):
    body, ops, meta = c["body"], c["ops"], dict(c.get("meta", {}), shrunk=True)
    meta.pop("exhaustive", None)
    for i in range(len(ops)):
        yield {"body": body, "ops": ops[:i] + ops[i + 1:], "meta": meta}
    for i in range(len(body)):
        yield {"body": body[:i] + body[i + 1:], "ops": ops, "meta": meta}
        if "NNest" in body[i]:
            yield {"body": body[:i] + body[i]["NNest"][0] + body[i + 1:], "ops": ops, "meta": meta}
        if "NValue" in body[i]:
            pl = body[i]["NValue"][0]
            alts = []
            if isinstance(pl, dict) and "PFut" in pl and pl["PFut"][0] != "PConst":
                alts.append({"PFut": ["PConst", pl["PFut"][1]]})
            if isinstance(pl, dict) and ("VTuple" in pl or "VList" in pl):
                alts += list(next(iter(pl.values()))[0])
            if isinstance(pl, dict) and "VInt" not in pl:
                alts.append({"VInt": [i + 1]})
            for alt in alts:
                yield {"body": body[:i] + [{"NValue": [alt]}] + body[i + 1:], "ops": ops, "meta": meta}
        if "NAwait" in body[i] and body[i]["NAwait"][0] != "AConst":
            yield {"body": body[:i] + [{"NAwait": ["AConst", body[i]["NAwait"][1]]}] + body[i + 1:], "ops": ops, "meta": meta}
    for i, o in enumerate(ops):
        if isinstance(o, dict) and o["OTake"][0] > 1:
            yield {"body": body, "ops": ops[:i] + [{"OTake": [o["OTake"][0] - 1]}] + ops[i + 1:], "meta": meta}
    if meta.get("via") == "task":
        yield {"body": body, "ops": ops, "meta": dict(meta, via="sync")}
