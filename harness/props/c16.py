"""C16 — computations on different threads never interfere."""
import json

from ..lib import coqrun

PROP = "C16"
COQ_IMPORTS = ["Threads"]
COQ_FN = "Threads.run_case"
IMPL = "c16_impl.py"
IMPL_JOBS = 8
SHARD = 60
RULE = ("a case = 2..16 thread programs (op lists over: top-level DebugBatchItem, top-level flush, run of a task tree "
        "whose leaves await DebugBatchItems of 4 shared kinds / call one shared @deduplicate()d function / carry logging "
        "AsyncContexts or AsyncScopedValue overrides and whose nodes may also make deduplicated calls they never await, "
        "an un-awaited deduplicated call outside any task, profiler.flush(), profiler.reset(), scheduler probe, "
        "scheduler.reset(), fn.asyncio()), "
        "split into 1..4 thread GENERATIONS (a generation is started when every thread of the previous one has exited, so "
        "thread idents get reused and dead threads' leftovers are still around); no thread resets the profiler unless its "
        "program says so; "
        "COLLECT_PERF_STATS on in half of the cases; all threads use the same kinds, keys and functions; every program is "
        "run alone on a fresh thread and `reps` times generation by generation, the threads of a generation released "
        "together under sys.setswitchinterval(1e-6); "
        "85% structured stream (distinct batch sizes, so the flush order is forced), 15% rough stream (equal sizes, bare "
        "leaves as roots, empty nodes, deep nesting, repeated deduplicated calls); distinct = different (programs, option); "
        "non-trivial = at least 2 threads whose programs flush a batch")
TRUSTED = ["CPython's GIL makes one dict get/set/pop with int-tuple/Thread keys atomic (the model's `step` is one such access)",
           "threading.local and contextvars.Context give every thread its own slot (modelled as a map thread id -> slot)",
           "the interleavings of real OS threads are explored (tiny switch interval, repeated runs), not enumerated",
           "that the OS gives a new thread the ident of a finished one cannot be forced, only provoked (start after join) and "
           "counted (`ident_reuse` in the runner's output); a Thread object in a dict key is never equal to another thread's "
           "(modelled: thread ids of the model are never reused)"]
ASSUMPTIONS = ["thread programs share no user objects (an AsyncScopedValue instance is a plain process-wide cell; each "
               "program overrides its own instance); they share the asynq module state, the option object, the "
               "deduplicated function, batch kinds and keys",
               "_debug.options is set before the threads start and not written while they run",
               "one-wave programs: every DebugBatchItem of a computation is created before its first flush, so batch "
               "compositions do not depend on the tie-break among equal-priority batches; when a tie is observed the "
               "order-sensitive parts of the digest are compared as multisets"]
EXPLANATION = ("Theorems: the state-partitioning argument for every per-thread program and every interleaving of accesses to "
               "the shared deduplicate dict, including thread generations (threads that exited and left entries behind) and what "
               "the thread component of the key has to be (injective over all threads the process ever has). Real OS "
               "interleavings and ident reuse are explored by the correspondence run, not proved.")

KINDS = 4
KEYS = 6


# ------------------------------------------------------------------ generator
def _ctx(rng, counter):
    r = rng.random()
    if r < 0.45:
        return "CNone"
    if r < 0.8:
        counter[0] += 1
        return {"CLog": [counter[0]]}
    return {"COv": [rng.randrange(1, 9)]}


HOT = [(0, 0), (1, 3), (2, 2)]      # deduplication keys that many threads of a case ask for


def _dkey(rng, hot=0.5):
    if rng.random() < hot:
        return rng.choice(HOT)
    return (rng.randrange(KINDS), rng.randrange(KEYS))


def _add_specs(rng, node, rough):
    """Un-awaited deduplicated calls (Spec children) at random places of a tree."""
    nodes = []

    def walk(c):
        if "Node" in c:
            nodes.append(c)
            for x in c["Node"][2]:
                walk(x)
    walk(node)
    for _ in range(rng.choice([1, 1, 2, 3] if rough else [1, 1, 2])):
        ch = rng.choice(nodes)["Node"][2]
        dl = [x["DLeaf"] for nd in nodes for x in nd["Node"][2] if "DLeaf" in x]
        if dl and rng.random() < 0.25:
            k, x = rng.choice(dl)               # the same call is also awaited somewhere in this tree
        else:
            k, x = _dkey(rng)
        ch.insert(rng.randrange(len(ch) + 1), {"Spec": [k, x]})


def gen_comp(rng, rough, counter, spec=0.25):
    c = _gen_comp(rng, rough, counter)
    if "Node" in c and rng.random() < spec:
        _add_specs(rng, c, rough)
    return c


def _gen_comp(rng, rough, counter):
    """A one-wave task tree.  Structured stream: leaf kinds get pairwise distinct counts."""
    n = [0]

    def fresh():
        n[0] += 1
        return n[0] - 1

    if rough and rng.random() < 0.2:
        if rng.random() < 0.5:
            return {"DLeaf": list(_dkey(rng, 0.4))}
        return {"Leaf": [fresh(), _ctx(rng, counter), rng.randrange(KINDS), rng.randrange(KEYS)]}
    if rough:
        nleaves = rng.choice([0, 1, 2, 2, 3, 4, 6])
        kinds = [rng.randrange(KINDS) for _ in range(nleaves)]
    else:
        counts = rng.choice([[1], [2], [3], [2, 1], [3, 1], [3, 2], [3, 2, 1], [4, 2, 1], [4, 1], [5, 3]])
        ks = rng.sample(range(KINDS), len(counts))
        kinds = [k for k, cnt in zip(ks, counts) for _ in range(cnt)]
        rng.shuffle(kinds)
    used = set()
    leaves = []
    for k in kinds:
        if rng.random() < 0.3:
            key = rng.randrange(KEYS)
            hot = [x for (k2, x) in HOT if k2 == k]
            if hot and rng.random() < 0.4:
                key = hot[0]
            if not rough and (k, key) in used:
                free = [x for x in range(KEYS) if (k, x) not in used]
                key = rng.choice(free) if free else key
            used.add((k, key))
            leaves.append({"DLeaf": [k, key]})
            if rng.random() < (0.5 if rough else 0.25):
                leaves.append({"DLeaf": [k, key]})       # a second call of the same deduplicated function
        else:
            leaves.append(("L", k, rng.randrange(KEYS)))
    # distribute the leaves over a small tree
    root_id = fresh()
    root_ctx = _ctx(rng, counter)
    children = []
    rest = list(leaves)
    while rest:
        if len(rest) >= 2 and rng.random() < 0.35:
            take = rng.randrange(1, min(3, len(rest)) + 1)
            sub, rest = rest[:take], rest[take:]
            nid = fresh()
            nctx = _ctx(rng, counter)
            if rough and rng.random() < 0.3:
                inner_id = fresh()
                inner = {"Node": [inner_id, _ctx(rng, counter), [_leaf(rng, fresh, counter, x) for x in sub]]}
                children.append({"Node": [nid, nctx, [inner]]})
            else:
                children.append({"Node": [nid, nctx, [_leaf(rng, fresh, counter, x) for x in sub]]})
        else:
            children.append(_leaf(rng, fresh, counter, rest.pop(0)))
        if rough and rng.random() < 0.15:
            children.append({"Node": [fresh(), _ctx(rng, counter), []]})
    return {"Node": [root_id, root_ctx, children]}


def _leaf(rng, fresh, counter, x):
    if isinstance(x, dict):
        return x
    return {"Leaf": [fresh(), _ctx(rng, counter), x[1], x[2]]}


def gen_prog(rng, rough):
    counter = [0]
    ops = []
    for _ in range(rng.choice([1, 2, 3, 3, 4, 5, 6])):
        r = rng.random()
        if r < 0.42:
            ops.append({"ORun": [gen_comp(rng, rough, counter)]})
        elif r < 0.57:
            ops.append({"OItem": [rng.randrange(KINDS), rng.randrange(KEYS)]})
        elif r < 0.67:
            ops.append({"OFlush": [rng.randrange(KINDS)]})
        elif r < 0.77:
            ops.append("OProf")
        elif r < 0.85:
            ops.append({"OSpec": list(_dkey(rng))})
        elif r < 0.91:
            ops.append("OSched")
        elif r < 0.94:
            ops.append("OReset")
        elif r < 0.97:
            ops.append("OPReset")
        else:
            ops.append({"OAio": [rng.randrange(10)]})
    if not any(isinstance(o, dict) and "ORun" in o for o in ops):
        ops.insert(rng.randrange(len(ops) + 1), {"ORun": [gen_comp(rng, rough, counter)]})
    r = rng.random()
    if r < 0.12:
        ops.insert(0, "OPReset")        # the habit of the library's own multithreaded test: reset first
    elif r < 0.2:
        ops.insert(0, "OProf")
    return ops


def comp_size(c):
    (k, a), = c.items()
    return 1 + sum(comp_size(x) for x in a[2]) if k == "Node" else 1


def _op_steps(o):
    if isinstance(o, dict) and "ORun" in o:
        return 4 * comp_size(o["ORun"][0]) + 2
    if isinstance(o, dict) and "OSpec" in o:
        return 3
    return 1


def prog_steps(p):
    return 2 + sum(_op_steps(o) for o in p)


def gen_gens(rng, n):
    """Sizes of the thread generations (in thread order)."""
    if n < 2 or rng.random() < 0.4:
        return [n]
    g = min(n, rng.choice([2, 2, 2, 3, 3, 4]))
    cuts = sorted(rng.sample(range(1, n), g - 1))
    return [b - a for a, b in zip([0] + cuts, cuts + [n])]


def _finish(rng, threads, perf, reps, meta, gens=None):
    n = len(threads)
    gens = list(gens) if gens else [n]
    # per generation, a random interleaving of single accesses for the model (the theorems cover all of them)
    schs, at = [], 0
    for z in gens:
        total = sum(prog_steps(p) for p in threads[at:at + z])
        schs.append([at + rng.randrange(z) for _ in range(rng.randrange(0, total + 1))])
        at += z
    return _case(threads, perf, reps, gens, schs, meta)


def _case(threads, perf, reps, gens, schs, meta):
    return {"threads": threads, "perf": perf, "reps": reps, "gens": gens, "schs": schs, "meta": meta,
            "tree": {"perf": perf, "threads": threads, "reps": reps, "generations": gens, "model_schedules": schs}}


def gen_case(rng, tier):
    rough = rng.random() < 0.15
    if tier == "quick":
        n = rng.choice([2, 2, 2, 3, 3, 4, 5, 6, 8, 12, 16])
    else:
        n = rng.choice([2, 2, 3, 4, 5, 6, 8, 10, 12, 14, 16, 16])
    if rng.random() < 0.3:
        # every thread runs the same program: the same names, kinds, keys everywhere
        p = gen_prog(rng, rough)
        threads = [json.loads(json.dumps(p)) for _ in range(n)]
        same = True
    else:
        threads = [gen_prog(rng, rough) for _ in range(n)]
        same = False
    reps = 2 if tier == "quick" else 3
    return _finish(rng, threads, rng.random() < 0.5, reps, {"rough": rough, "same_program": same}, gen_gens(rng, n))


def gen_cases(rng, tier):
    n = 236 if tier == "quick" else 4000
    return [gen_case(rng, tier) for _ in range(n)]


def _corpus():
    import random
    rng = random.Random(16)
    big = {"Node": [0, {"CLog": [1]}, [
        {"Leaf": [1, {"CLog": [2]}, 0, 7]}, {"Leaf": [2, {"COv": [9]}, 1, 8]}, {"DLeaf": [1, 3]}, {"DLeaf": [1, 3]},
        {"Node": [3, {"COv": [4]}, [{"Leaf": [4, "CNone", 1, 2]}, {"Leaf": [5, {"CLog": [3]}, 2, 2]}]]},
        {"Node": [6, {"CLog": [4]}, []]}]]}
    p0 = [{"OItem": [0, 5]}, {"ORun": [big]}, "OProf", "OSched", {"OFlush": [0]}, "OReset", "OSched", {"OAio": [3]}]
    p1 = [{"ORun": [{"DLeaf": [1, 3]}]}, {"OItem": [1, 1]}, {"OFlush": [1]}, {"OFlush": [1]}, "OProf"]
    dd = [{"ORun": [{"Node": [0, "CNone", [{"DLeaf": [0, 0]}, {"DLeaf": [0, 0]}, {"DLeaf": [0, 1]}]]}]}, "OProf"]
    # --- thread generations and un-awaited deduplicated calls
    # a thread makes a deduplicated call it never awaits (inside a task / at top level) and exits; threads started
    # afterwards make the same call and must compute their own
    a0 = [{"ORun": [{"Node": [0, "CNone", [{"Spec": [1, 3]}, {"Leaf": [1, "CNone", 0, 2]}]]}]}, {"OSpec": [0, 0]}]
    a1 = [{"ORun": [{"Node": [0, "CNone", [{"DLeaf": [1, 3]}, {"DLeaf": [0, 0]}]]}]}, "OProf"]
    a2 = [{"OSpec": [1, 3]}, {"ORun": [{"DLeaf": [1, 3]}]}, {"OSpec": [0, 0]}, "OProf", {"ORun": [{"DLeaf": [0, 0]}]}, "OProf"]
    # the same program in every generation: its own abandoned call, abandoned again by every later thread
    sp = [{"ORun": [{"Node": [0, {"CLog": [1]}, [{"Leaf": [1, "CNone", 2, 1]}, {"Spec": [2, 2]}]]}]}, "OProf"]
    # profiler: threads that record before their first profiler.reset()/flush(), next to one that resets first
    q0 = [{"ORun": [{"Node": [0, "CNone", [{"Leaf": [1, "CNone", 0, 1]}, {"Leaf": [2, "CNone", 0, 2]}]]}]}, "OProf"]
    q1 = ["OPReset"] + q0
    out = []
    for perf in (False, True):
        out.append(_finish(rng, [a0, a1], perf, 3, {"corpus": "abandoned-deduplicated-calls-then-a-new-thread"}, [1, 1]))
        out.append(_finish(rng, [a0, a2, a1, a1], perf, 3, {"corpus": "abandoned-calls-three-generations"}, [1, 1, 2]))
        out.append(_finish(rng, [sp] * 4, perf, 3, {"corpus": "same-abandoning-program-in-every-generation"}, [1, 2, 1]))
    out.append(_finish(rng, [q0, q0, q1], True, 3, {"corpus": "profiler-flush-without-reset-first"}, [3]))
    out.append(_finish(rng, [q0, q1, q0], True, 3, {"corpus": "profiler-flush-without-reset-first-generations"}, [1, 1, 1]))
    for perf in (False, True):
        out.append(_finish(rng, [p0, p1], perf, 3, {"corpus": "worked-example"}))
        out.append(_finish(rng, [dd] * 8, perf, 3, {"corpus": "same-deduplicated-calls-on-8-threads"}))
        out.append(_finish(rng, [[{"OItem": [0, i % 3]}, {"OItem": [0, 1]}, {"OFlush": [0]}, {"OItem": [0, 2]},
                                  {"ORun": [{"Leaf": [0, "CNone", 0, 4]}]}, "OProf", "OSched"] for i in range(16)],
                           perf, 3, {"corpus": "same-kind-on-16-threads"}))
    return out


CORPUS = _corpus()


def model_input(c):
    return "%s %s %s %s" % ("true" if c["perf"] else "false", coqrun.coq_of(c["threads"]),
                            coqrun.coq_of([{"n": z} for z in c["gens"]]),
                            coqrun.coq_of([[{"n": i} for i in sch] for sch in c["schs"]]))


def canon(c):
    return json.dumps([c["threads"], c["perf"], c["gens"]], sort_keys=True)


def _flushes(p):
    pending = set()
    for o in p:
        if isinstance(o, dict):
            (k, a), = o.items()
            if k == "ORun" and ("Leaf" in json.dumps(a[0])):
                return True
            if k == "OItem":
                pending.add(a[0])
            if k == "OFlush" and a[0] in pending:
                return True
    return False


def _calls(c, out):
    """(awaited, un-awaited) deduplication keys of a task tree, added to out = (set, set)."""
    (k, a), = c.items()
    if k == "Node":
        for x in a[2]:
            _calls(x, out)
    elif k == "DLeaf":
        out[0].add(tuple(a))
    elif k == "Spec":
        out[1].add(tuple(a))


def _left_behind(p):
    """Deduplication keys whose task is still registered (never awaited) when the program ends, and all keys it calls."""
    pend, called = set(), set()
    for o in p:
        if isinstance(o, dict) and "OSpec" in o:
            pend.add(tuple(o["OSpec"]))
            called.add(tuple(o["OSpec"]))
        elif isinstance(o, dict) and "ORun" in o:
            aw, un = set(), set()
            c = o["ORun"][0]
            _calls({"DLeaf": c["Spec"]} if "Spec" in c else c, (aw, un))
            pend |= un
            pend -= aw
            called |= aw | un
    return pend, called


def _abandoned_then_repeated(c):
    left, at = set(), 0
    for z in c["gens"]:
        now = set()
        for p in c["threads"][at:at + z]:
            pend, called = _left_behind(p)
            if called & left:
                return True
            now |= pend
        left |= now
        at += z
    return False


def nontrivial(c):
    return sum(1 for p in c["threads"] if _flushes(p)) >= 2


def distribution(cases):
    d = {"threads": {}, "generations": {}, "perf": 0, "rough": 0, "same_program": 0, "ops_per_thread": {}, "tasks_per_run": {},
         "op_kinds": {}, "dedup_calls": 0, "unawaited_dedup_calls_in_tasks": 0, "contexts": {"CNone": 0, "CLog": 0, "COv": 0},
         "cases_where_a_later_generation_repeats_a_call_abandoned_by_an_earlier_one": 0,
         "threads_recording_perf_stats_before_their_first_profiler_reset_or_flush": 0,
         "threads_starting_with_profiler_reset_or_flush": 0}
    for c in cases:
        n = len(c["threads"])
        d["threads"][str(n)] = d["threads"].get(str(n), 0) + 1
        g = str(len(c["gens"]))
        d["generations"][g] = d["generations"].get(g, 0) + 1
        d["cases_where_a_later_generation_repeats_a_call_abandoned_by_an_earlier_one"] += 1 if _abandoned_then_repeated(c) else 0
        for p in c["threads"]:
            first = p[0] if p else None
            if first in ("OProf", "OPReset"):
                d["threads_starting_with_profiler_reset_or_flush"] += 1
            elif c["perf"] and "OProf" in p:
                d["threads_recording_perf_stats_before_their_first_profiler_reset_or_flush"] += 1
        d["perf"] += 1 if c["perf"] else 0
        d["rough"] += 1 if c.get("meta", {}).get("rough") else 0
        d["same_program"] += 1 if c.get("meta", {}).get("same_program") else 0
        for p in c["threads"]:
            b = str(min(len(p), 7))
            d["ops_per_thread"][b] = d["ops_per_thread"].get(b, 0) + 1
            for o in p:
                k = o if isinstance(o, str) else next(iter(o))
                d["op_kinds"][k] = d["op_kinds"].get(k, 0) + 1
                if k == "ORun":
                    s = comp_size(o["ORun"][0])
                    b = "1" if s == 1 else "2-4" if s <= 4 else "5-8" if s <= 8 else "9+"
                    d["tasks_per_run"][b] = d["tasks_per_run"].get(b, 0) + 1
                    txt = json.dumps(o)
                    d["dedup_calls"] += txt.count("DLeaf")
                    d["unawaited_dedup_calls_in_tasks"] += txt.count("Spec")
                    for cn in ("CNone", "CLog", "COv"):
                        d["contexts"][cn] += txt.count(cn)
    return d


# ------------------------------------------------------------------ comparison
def _ek(e):
    return e if isinstance(e, str) else next(iter(e))


def _canon_trace(tr):
    """Order-insensitive form used when a priority tie made the flush order a free choice."""
    out = []
    for op in tr:
        evs = []
        for e in op:
            k = _ek(e)
            if k in ("ECtx", "ETie"):
                continue
            if k == "EProf":
                e = {"EProf": [sorted(e["EProf"][0], key=json.dumps)]}
            evs.append(json.dumps(e, sort_keys=True))
        out.append(sorted(evs))
    return out


def _strip(tr):
    return [[e for e in op if e != "ETie"] for op in tr]


def _has_tie(tr):
    return any(e == "ETie" for op in tr for e in op)


def _traces(io):
    """All (where, thread, trace, tie) of one implementation output."""
    for i, s in enumerate(io["solo"]):
        yield "alone", i, s["trace"], s["tie"]
    for r, rep in enumerate(io["conc"]):
        for i, d in enumerate(rep):
            if d["trace"] != "same":
                yield "concurrent run %d" % r, i, d["trace"], d["tie"]


def compare(c, m, io):
    if "Hang" in io:
        return "the implementation hung on this case"
    inter, solo = m[""]
    if inter != solo:
        return "MODEL: interleaved run differs from the solo runs (contradicts C16_solo_equals_interleaved)"
    for where, i, tr, tie in _traces(io):
        mt = inter[i]
        if tie or _has_tie(mt):
            if _canon_trace(tr) != _canon_trace(mt):
                return "thread %d (%s): events differ from Threads.run_case (compared as multisets, tie observed)" % (i, where)
        elif tr != _strip(mt):
            return "thread %d (%s): per-op event trace differs from Threads.run_case" % (i, where)
    return None


# ------------------------------------------------------------------ monitors (do not consult the model)
def _expected_result(c):
    (k, a), = c.items()
    if k == "Node":
        return {"RList": [[_expected_result(x) for x in a[2] if "Spec" not in x]]}
    if k == "Leaf":
        return {"RInt": [a[3]]}
    return {"RInt": [a[1]]}


def _check_trace(prog, perf, tr, tie, where, i, fs):
    def hit(clause, site, msg):
        fs.append(dict(clause=clause, site=site, msg="thread %d (%s): %s" % (i, where, msg)))

    ops = list(prog) + ["OFinal"]
    if len(tr) != len(ops):
        hit("same-as-alone", "trace:op-count", "%d ops recorded for a program of %d ops" % (len(tr), len(ops)))
        return
    items = {}            # (kind, idx) -> {pos: key}
    flushed = set()
    top = []
    resets = 0
    seg_item_ids = []     # profiler ids handed to this thread since its last profiler.flush()/reset()
    seg_batches = [0]     # batches flushed by this thread's scheduler since then
    created = []          # [task name, _id] of the tasks this thread made whose profiler entry it has not read yet
    pend = {}             # deduplication key -> _id of this thread's registered, not yet computed task
    broken = [False]      # an op raised: completeness clauses are off from there on
    ctxstate = {}

    def end_segment(what):
        allids = sorted(seg_item_ids)
        if perf and allids != list(range(1, len(allids) + 1)):
            site = "profiler:duplicate-id" if len(set(allids)) != len(allids) else "profiler:counter-gap"
            hit("own-profiler", site, "ids handed out to this thread's tasks and items before %s: %s (expected 1..%d once each)" % (
                what, allids, len(allids)))
        del seg_item_ids[:]
        seg_batches[0] = 0

    for o, evs in zip(ops, tr):
        name = _ek(o)
        for e in evs:
            k = _ek(e)
            a = e[k] if isinstance(e, dict) else []
            if k == "EExc":
                broken[0] = True
                hit("same-as-alone", "exception:%s:%s" % (name, a[0]["s"]), "%s raised %s" % (name, a[0]["s"]))
            elif k in ("ENew", "EOld"):
                tn, iid = a
                if not perf and iid != 0:
                    hit("own-profiler", "profiler:id-without-option", "task _id %d although COLLECT_PERF_STATS is off" % iid)
                dk = tuple(tn["TD"]) if "TD" in tn else None
                if k == "ENew":
                    if perf:
                        seg_item_ids.append(iid)
                        created.append([tn, iid])
                    if dk is not None:
                        if dk in pend:
                            hit("own-dedup-scope", "deduplicate:second-task-while-own-task-registered",
                                "dleaf%s made a new task although this thread's task for the same call was registered and not running" % (dk,))
                        pend[dk] = iid
                else:
                    # deduplication is per thread: an existing task can only be one this thread made and has not computed yet
                    if dk not in pend:
                        hit("own-dedup-scope", "deduplicate:existing-task-for-a-call-this-thread-has-not-pending",
                            "dleaf%s returned an existing task; this thread has no un-computed task for that call" % (dk,))
                    elif pend[dk] != iid:
                        hit("own-dedup-scope", "deduplicate:existing-task-is-not-the-own-pending-one",
                            "dleaf%s returned a task with _id %d, this thread's pending one has %d" % (dk, iid, pend[dk]))
            elif k == "EItem":
                kind, key, idx, pos, iid = a
                slot = items.setdefault((kind, idx), {})
                if pos in slot or pos != len(slot):
                    hit("own-batches", "item:position-not-next-in-own-batch",
                        "DebugBatchItem of kind %d got index %d in batch %d which holds %d items of this thread" % (kind, pos, idx, len(slot)))
                slot[pos] = key
                if (kind, idx) in flushed:
                    hit("own-batches", "item:added-to-flushed-batch", "item joined batch (%d,%d) after its flush" % (kind, idx))
                if name == "OItem":
                    top.append((kind, idx))
                if perf:
                    seg_item_ids.append(iid)
                elif iid != 0:
                    hit("own-profiler", "profiler:id-without-option", "item _id %d although COLLECT_PERF_STATS is off" % iid)
            elif k == "EFlush":
                kind, idx, keys = a[1], a[2], a[3]
                own = items.get((kind, idx), {})
                want = [own[p] for p in sorted(own)]
                if keys != want:
                    hit("own-batches", "flush:composition-differs-from-own-items",
                        "batch (%d,%d) flushed with keys %s, this thread put %s into it" % (kind, idx, keys, want))
                if (kind, idx) in flushed:
                    hit("own-batches", "flush:batch-flushed-twice", "batch (%d,%d) flushed twice" % (kind, idx))
                if a[0] == "false":
                    seg_batches[0] += 1
                if any(k2 == kind and i2 > idx for (k2, i2) in flushed):
                    hit("own-batches", "flush:index-went-back", "batch index of kind %d went back to %d" % (kind, idx))
                flushed.add((kind, idx))
            elif k == "EProbe":
                t, pt, active, sv = a
                if active != {"Some": [t]}:
                    hit("own-active-task", "probe:active-task-is-not-the-running-task",
                        "get_active_task() inside %s returned %s" % (t, active))
            elif k == "ECtx":
                st = ctxstate.get(a[1], "false")
                if st == a[0]:
                    hit("context-events", "context:%s-twice" % ("resume" if a[0] == "true" else "pause"),
                        "context %d got two consecutive %s" % (a[1], "resumes" if a[0] == "true" else "pauses"))
                ctxstate[a[1]] = a[0]
            elif k == "EResult":
                want = _expected_result(o["ORun"][0])
                if a[0] != want:
                    hit("results", "result:differs-from-program-text", "computation returned %s, its text says %s" % (
                        json.dumps(a[0])[:200], json.dumps(want)[:200]))
            elif k == "EProf":
                if not perf and a[0]:
                    hit("own-profiler", "profiler:entries-without-option", "profiler.flush() returned %d entries" % len(a[0]))
                if perf:
                    # the buffer is this thread's: exactly one entry per task it made and computed since its last
                    # flush()/reset() (or since the thread started), one per batch its scheduler flushed
                    nb = 0
                    for x in a[0]:
                        if x == "PBatch":
                            nb += 1
                        elif x["PTask"] in created:
                            created.remove(x["PTask"])
                        else:
                            hit("own-profiler", "profiler:entry-for-a-task-this-thread-did-not-make",
                                "profiler.flush() returned an entry for %s with _id %d; this thread has made no such task "
                                "(or has read its entry already)" % (json.dumps(x["PTask"][0]), x["PTask"][1]))
                    if nb != seg_batches[0] and not broken[0]:
                        hit("own-profiler", "profiler:batch-entries-differ-from-own-flushes",
                            "profiler.flush() returned %d batch entries, this thread's scheduler flushed %d batches" % (nb, seg_batches[0]))
                    left = [x for x in created if not ("TD" in x[0] and pend.get(tuple(x[0]["TD"])) == x[1])]
                    if left and not broken[0]:
                        hit("own-profiler", "profiler:own-entry-missing",
                            "profiler.flush() returned no entry for %d computed task(s) of this thread, e.g. %s" % (
                                len(left), json.dumps(left[0])))
                    created[:] = [x for x in created if x not in left]
                end_segment("this profiler.flush()")
            elif k == "ESched":
                sid, nt, nb, active = a
                if sid != 1 + resets:
                    hit("own-scheduler", "scheduler:name-id", "scheduler id %d after %d reset()s on a fresh thread" % (sid, resets))
                if nt != 0 or nb != 0:
                    hit("own-scheduler", "scheduler:not-empty-between-computations", "%d tasks, %d batches between computations" % (nt, nb))
                if active != "None":
                    hit("own-active-task", "top-level:active-task-not-None", "get_active_task() outside any task returned %s" % active)
            elif k == "EAio":
                if a[0] != "true" or a[1] != "false":
                    hit("asyncio-mode", "asyncio-mode:inside-%s-after-%s" % (a[0], a[1]), "is_asyncio_mode() inside/after .asyncio(): %s/%s" % (a[0], a[1]))
            elif k == "EFinal":
                want = ["true" if b in flushed else "false" for b in top]
                if a[0] != want:
                    hit("own-batches", "final:top-level-item-state", "top-level items computed: %s, flushes seen say %s" % (a[0], want))
        if name == "OReset":
            resets += 1
        if name == "OPReset":
            # profiler.reset() throws the buffered entries away; tasks that are still pending report later
            created[:] = [x for x in created if "TD" in x[0] and pend.get(tuple(x[0]["TD"])) == x[1]]
            end_segment("this profiler.reset()")
        if name == "OFinal":
            end_segment("the end of the program")
        if name == "ORun":
            aw = (set(), set())
            c0 = o["ORun"][0]
            _calls({"DLeaf": c0["Spec"]} if "Spec" in c0 else c0, aw)
            for dk in aw[0]:
                pend.pop(dk, None)       # awaited, so computed: deduplicate forgets it (tools.py:368-372)
            for cid, st in ctxstate.items():
                if st == "true":
                    hit("context-events", "context:left-resumed", "context %d still resumed after the computation" % cid)
            ctxstate = {}


def monitors(c, io, build):
    fs = []
    if "Hang" in io:
        return [dict(clause="same-as-alone", site="hang", msg="the case did not finish within the per-case alarm")]
    progs = c["threads"]
    # (1) every concurrent digest equals the digest of the same program run alone
    for r, rep in enumerate(io["conc"]):
        for i, d in enumerate(rep):
            for an in d["anoms"]:
                fs.append(dict(clause="no-foreign-observation", site=an, msg="thread %d (concurrent run %d) observed: %s" % (i, r, an)))
            if d["trace"] == "same":
                continue
            if d["tie"] and d["diff"][1] != "profiler-names" and _canon_trace(d["trace"]) == _canon_trace(io["solo"][i]["trace"]):
                continue
            fs.append(dict(clause="same-as-alone", site="digest:%s:%s" % (_ek(progs[i][d["diff"][0]]) if d["diff"][0] < len(progs[i]) else "end", d["diff"][1]),
                           msg="thread %d of %d: trace of concurrent run %d differs from the trace of the same program run alone at op %d (%s)" % (
                               i, len(progs), r, d["diff"][0], d["diff"][1])))
    for i, s in enumerate(io["solo"]):
        for an in s["anoms"]:
            fs.append(dict(clause="no-foreign-observation", site=an, msg="thread %d (alone) observed: %s" % (i, an)))
    # (2) direct clauses on every trace
    for where, i, tr, tie in _traces(io):
        _check_trace(progs[i], c["perf"], tr, tie, where, i, fs)
    # one broken thread-local makes dozens of clauses fire on the same case: keep the few most telling
    # signatures per case (what was observed of another thread first, digest differences last)
    order = {"no-foreign-observation": 0, "own-dedup-scope": 1, "own-active-task": 1, "own-scheduler": 1, "own-batches": 1, "own-profiler": 1,
             "asyncio-mode": 1, "results": 2, "context-events": 2, "same-as-alone": 3}
    seen = set()
    out = []
    for f in sorted(fs, key=lambda f: order.get(f["clause"], 9)):
        if (f["clause"], f["site"]) not in seen:
            seen.add((f["clause"], f["site"]))
            out.append(f)
    return out[:MAX_SIGS_PER_CASE]


def crash_finding(c, io, build):
    return None


# ------------------------------------------------------------------ shrinking
MAX_SIGS_PER_CASE = 3
SHRINK_BUDGET_S = 90
_shrink_t0 = [None]


def shrink(c):
    """Smaller neighbours (fewer threads, fewer ops, fewer children).  Failures under real interleavings
    are probabilistic and a broken thread-local produces many signatures, so the whole shrinking phase
    has a time budget; after it the unshrunk failing case is the replay."""
    import time
    if _shrink_t0[0] is None:
        _shrink_t0[0] = time.time()
    if time.time() - _shrink_t0[0] > SHRINK_BUDGET_S:
        return
    for x in list(_shrink(c))[:24]:
        yield x


def _shrink(c):
    th = c["threads"]

    gens = list(c.get("gens") or [len(th)])

    def mkc(threads, g=None):
        g = [z for z in (g or gens) if z > 0]
        return _case(threads, c["perf"], max(c.get("reps", 1), 3), g, [[] for _ in g], {"shrunk": True})

    if len(th) > 2:
        for i in range(len(th)):
            g, at = list(gens), 0
            for j, z in enumerate(g):
                if at <= i < at + z:
                    g[j] -= 1
                    break
                at += z
            yield mkc(th[:i] + th[i + 1:], g)
    if len(gens) > 1:
        yield mkc(th, [len(th)])                      # all threads in one generation
        for j in range(len(gens) - 1):
            yield mkc(th, gens[:j] + [gens[j] + gens[j + 1]] + gens[j + 2:])
    for i, p in enumerate(th):
        for j in range(len(p)):
            if len(p) > 1:
                yield mkc(th[:i] + [p[:j] + p[j + 1:]] + th[i + 1:])
        for j, o in enumerate(p):
            if isinstance(o, dict) and "ORun" in o and "Node" in o["ORun"][0]:
                ch = o["ORun"][0]["Node"][2]
                for x in range(len(ch)):
                    node = {"Node": [o["ORun"][0]["Node"][0], o["ORun"][0]["Node"][1], ch[:x] + ch[x + 1:]]}
                    yield mkc(th[:i] + [p[:j] + [{"ORun": [node]}] + p[j + 1:]] + th[i + 1:])
