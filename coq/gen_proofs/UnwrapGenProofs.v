(* UnwrapGenProofs.v - the definitions GENERATED from asynq/async_task.py by harness/lib/pytrans.py (UnwrapGen.v,
   regenerated on every run) are equal to the hand-written model (Prog.unwrap, Prog.extract); the C02 / C03 theorems
   about unwrap / extract_futures, restated for the generated definitions.
   Not part of the main build (not under coq/theories): harness/lib/transcheck.py compiles a copy of this file next to a
   fresh UnwrapGen.v with  coqc -Q coq/theories Asynq -Q <tmp> AsynqGen.  Stdlib only, no axioms. *)
From Coq Require Import List ZArith.
Import ListNotations.
From Asynq Require Import Base Prog proofs.ProgProofs.
From AsynqGen Require Import UnwrapGen.

(* ---- the prelude's loops against the list-level views of the model's nested fixpoints *)
Section Loops.
  Context {A : Type} (look : A -> outcome).

  Lemma for_each_is (f : ystruct A -> outcome) l :
    Forall (fun x => f x = unwrap look x) l -> for_each f l = unwrap_list look l.
  Proof.
    induction 1 as [|x l Hx _ IH]; simpl; [reflexivity|]. rewrite Hx, IH. reflexivity.
  Qed.

  Lemma for_each_item_is (f : Z -> ystruct A -> outcome) l :
    Forall (fun kv => f (fst kv) (snd kv) = unwrap look (snd kv)) l -> for_each_item f l = unwrap_dict look l.
  Proof.
    induction 1 as [|[k x] l Hx _ IH]; simpl in *; [reflexivity|]. rewrite Hx, IH. reflexivity.
  Qed.
End Loops.

Lemma each_backwards_is {A} (f : ystruct A -> list A) l :
  Forall (fun x => f x = extract x) l -> each_backwards f l = flat_map extract (rev l).
Proof.
  induction 1 as [|x l Hx _ IH]; simpl; [reflexivity|]. rewrite flat_map_app, IH, Hx. simpl. rewrite app_nil_r. reflexivity.
Qed.

Lemma each_value_is {A} (f : ystruct A -> list A) (l : list (Z * ystruct A)) :
  Forall (fun kv => f (snd kv) = extract (snd kv)) l -> each_value f l = flat_map (fun kv => extract (snd kv)) l.
Proof.
  induction 1 as [|[k x] l Hx _ IH]; simpl in *; [reflexivity|]. rewrite Hx, IH. reflexivity.
Qed.

(* a branch of the generated function that handles a container of a FIXED small length (the fast paths of unwrap):
   the elements' induction hypotheses one after the other, then the cases of their outcomes *)
Ltac use_elements :=
  repeat match goal with
         | H : Forall _ (_ :: _) |- _ =>
           let h := fresh "h" in
           pose proof (Forall_inv H) as h; cbv beta in h; apply Forall_inv_tail in H; try rewrite h; clear h
         end.
Ltac by_cases :=
  simpl; unfold obind, collect;
  repeat (try reflexivity;
          match goal with |- context [match unwrap ?look ?x with _ => _ end] => destruct (unwrap look x); simpl end);
  reflexivity.
(* [general] : the equation for the branch that loops over all children, stated for every l.  After splitting l into
   [], [x0], [x0; x1], [x0; x1; x2], longer, each case either IS the general branch (by computation) or is a fast path. *)
Ltac container general IH l :=
  pose proof general as Hgen;
  destruct l as [|?x [|?x [|?x [|?x ?l]]]];
  first [ exact Hgen | simpl; use_elements; by_cases ].

Theorem unwrap_gen_is_model : forall (A : Type) (look : A -> outcome) (s : ystruct A),
  unwrap_gen look s = Prog.unwrap look s.
Proof.
  intros A look s. induction s as [| a | l IH | l IH | l IH] using ystruct_ind2.
  - reflexivity.
  - reflexivity.
  - rewrite unwrap_tuple.
    assert (G : collect VTuple (for_each (fun x => unwrap_gen look x) l)
                = match unwrap_list look l with inl vs => Ok (VTuple vs) | inr e => Err e end)
      by (rewrite (for_each_is look (fun x => unwrap_gen look x) l IH); reflexivity).
    container G IH l.
  - rewrite unwrap_ylist.
    assert (G : collect VList (for_each (fun x => unwrap_gen look x) l)
                = match unwrap_list look l with inl vs => Ok (VList vs) | inr e => Err e end)
      by (rewrite (for_each_is look (fun x => unwrap_gen look x) l IH); reflexivity).
    container G IH l.
  - rewrite unwrap_ydict.
    assert (G : collect VDict (for_each_item (fun _ x => unwrap_gen look x) l)
                = match unwrap_dict look l with inl vs => Ok (VDict vs) | inr e => Err e end)
      by (rewrite (for_each_item_is look (fun _ x => unwrap_gen look x) l IH); reflexivity).
    exact G.
Qed.
Print Assumptions unwrap_gen_is_model.

Theorem extract_gen_is_model : forall (A : Type) (s : ystruct A), extract_gen s = Prog.extract s.
Proof.
  intros A s. induction s as [| a | l IH | l IH | l IH] using ystruct_ind2.
  - reflexivity.
  - reflexivity.
  - rewrite extract_tuple. exact (each_backwards_is (fun x => extract_gen x) l IH).
  - rewrite extract_ylist. exact (each_backwards_is (fun x => extract_gen x) l IH).
  - rewrite extract_ydict. exact (each_value_is (fun x => extract_gen x) l IH).
Qed.
Print Assumptions extract_gen_is_model.

(* ---- the theorems of props/C02.v and props/C03.v about these two functions, for the generated definitions *)
Theorem first_failing_future_wins_gen : forall (A : Type) (look : A -> outcome) (s : ystruct A),
  match unwrap_gen look s with
  | Err e => first_err (map look (leaves s)) = Some e
  | Ok _ => first_err (map look (leaves s)) = None
  end.
Proof. intros A look s. rewrite unwrap_gen_is_model. exact (unwrap_first_error look s). Qed.
Print Assumptions first_failing_future_wins_gen.

Theorem extract_gen_same_elements : forall (A : Type) (s : ystruct A) (a : A),
  In a (extract_gen s) <-> In a (leaves s).
Proof. intros A s a. rewrite extract_gen_is_model. exact (extract_same_elements s a). Qed.
Print Assumptions extract_gen_same_elements.

Theorem extract_gen_reverse_written_order : forall (A : Type) (s : ystruct A),
  dict_free s = true -> extract_gen s = rev (leaves s).
Proof. intros A s H. rewrite extract_gen_is_model. exact (extract_rev_leaves s H). Qed.
Print Assumptions extract_gen_reverse_written_order.
