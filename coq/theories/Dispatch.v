(* Dispatch.v — executable model of how asynq's decorators dispatch a call (C09).

   What is modelled (source anchors):
     qcore/decorators.py   DecoratorBinder.__call__ 47-51 (prepend .instance unless None)
                           DecoratorBase.__init__ 77-86 (self.type from classmethod/staticmethod
                             or from the wrapped decorator), DecoratorBase.__get__ 96-102
     asynq/decorators.py   is_pure_async_fn 56-74, has_async_fn 51-53, is_async_fn 77-79,
                           get_async_fn 82-97, get_async_or_sync_fn 100-106
                           PureAsyncDecoratorBinder 143-145, PureAsyncDecorator 148-187
                           AsyncDecoratorBinder.asynq 190-195, AsyncDecorator 204-230
                           AsyncAndSyncPairDecoratorBinder.__call__ 233-238,
                           AsyncAndSyncPairDecorator.__call__/__get__ 241-280
                           AsyncProxyDecorator._call_pure 304-308, async_proxy 364-378
                           async_call 398-414, AsyncWrapper 417-440, make_async_decorator 443-452
                           PureAsyncDecorator._fn_wrapper 165-168 / _call_pure 179-187 (every run of fn's
                             body is wrapped in a task of its own), AsyncDecorator.__call__ 219-230
     asynq/async_task.py   AsyncTask._continue 164-206 (StopIteration value / AsyncTaskResult raised by
                             utils.result 22-27 both finish THE TASK WHOSE GENERATOR RAISED IT),
                           get_active_task (scheduler.py 336) as seen by a body
     asynq/tools.py        acached_per_instance 165-209, alru_cache 212-252, aretry 286-313,
                           DeduplicateDecoratorBinder/DeduplicateDecorator/deduplicate 333-428
     lookup history        one decorated attribute in a hierarchy C, Sub(C), Sub2(C): every lookup calls __get__
                           (owner, cls) on the ONE decorator object stored in C.__dict__; [dstate] is what that object
                           keeps between lookups, [get_step] one lookup (hands out a target, leaves the state as it
                           was: decorators.py 263-280 builds new_self, qcore DecoratorBase.__get__ 96-102 a binder),
                           [resolve hs d b] the lookup through path b after the earlier lookups hs.  The argument-keyed
                           caches of alru_cache / acached_per_instance are NOT part of this state (the harness'
                           warm-up calls use argument values the call under test never uses).
   ARGS abbreviates Python's star-args, star-star-kwargs.
   Python's own attribute lookup (function / classmethod / staticmethod / bound method objects) is
   modelled by [py_get]; it is not verified, the exhaustive correspondence run checks it.

   The model follows the REPAIRED async_proxy(pure=True) (work/fixes/C09-async-proxy-pure-marker.diff):
   the returned function carries is_pure_async_fn, as `lazy` does at decorators.py:47.            *)
From Asynq Require Export Base.

Definition E_ATTR : exn := -20.           (* AttributeError: no .asynq / get_async_fn gave None *)

Inductive deco :=
| DAsynq          (* @asynq()                                                   *)
| DPure           (* @asynq(pure=True)                                          *)
| DProxy          (* @async_proxy()                                             *)
| DProxyPure      (* @async_proxy(pure=True): returns the function itself       *)
| DPair           (* @asynq(sync_fn=...)                                        *)
| DWrap           (* make_async_decorator(asynq()(fn), wrapper_fn, name)        *)
| DDedup          (* @deduplicate() @asynq()                                    *)
| DRetry          (* @aretry(VErr, max_tries=2, sleep=0) @asynq()               *)
| DLru            (* @alru_cache() @asynq()                                     *)
| DCpi.           (* @acached_per_instance() @asynq()                           *)

Inductive binding :=
| BFunc           (* module-level function  f(...)                              *)
| BInst           (* obj.m(...)                                                 *)
| BClass          (* C.m(obj, ...)                                              *)
| BSub            (* subobj.m(...)  with  class Sub(C)                          *)
| BCmClass        (* classmethod, C.m(...)                                      *)
| BCmInst         (* classmethod, obj.m(...)                                    *)
| BCmSub          (* classmethod, Sub.m(...)                                    *)
| BSmClass        (* staticmethod, C.m(...)                                     *)
| BSmInst         (* staticmethod, obj.m(...)                                   *)
| BSub2           (* sub2obj.m(...)  with a sibling  class Sub2(C)              *)
| BCmSub2         (* classmethod, Sub2.m(...)                                   *)
| BCmSubInst.     (* classmethod, subobj.m(...)                                 *)

Inductive form :=
| Sync                 (* t(ARGS)                                      *)
| AsynqValue           (* t.asynq(ARGS).value()                        *)
| YieldAsynq           (* v = yield t.asynq(ARGS)  inside a task       *)
| AsyncCall            (* v = yield async_call.asynq(t, ARGS)          *)
| YieldDirect          (* v = yield t(ARGS)  when that is a future     *)
| ViaGetAsync          (* get_async_fn(t)(ARGS).value()                *)
| ViaGetAsyncOrSync.   (* get_async_or_sync_fn(t)(ARGS) [.value()]     *)

(* what the body does before it returns; the ...Own shapes look at get_active_task(): is it a task
   made for this very function (plain body / generator body after a yield) *)
Inductive shape := BPlain | BGenConst | BGenTask | BBatch | BPlainOwn | BGenOwn.
(* how the body hands its value back:  return v   /   result(v); return  (raises AsyncTaskResult) *)
Inductive retstyle := RetReturn | RetResult.
Inductive bodykind := BK (s : shape) (r : retstyle).
Definition bshape (bk : bodykind) : shape := match bk with BK s _ => s end.
Definition bret (bk : bodykind) : retstyle := match bk with BK _ r => r end.
(* where the calling form is executed *)
Inductive ctx :=
| CTop            (* at top level: no task is running                                            *)
| CGen            (* in the generator body of a running task                                     *)
| CPlain          (* in the plain (non-generator) body of a running task (_fn_wrapper)           *)
| CNested.        (* in a plain-bodied task that a generator task called synchronously           *)
(* get_active_task() as seen by a body *)
Inductive active := ANone | ACaller | AOwn.
(* what became of the task the form was executed in *)
Inductive caller :=
| CallerNone          (* top level: there is none                                                *)
| CallerOwn           (* it went on and finished with its own value / the propagated exception   *)
| CallerHijacked.     (* it was finished early with the callee's value (AsyncTaskResult escaped) *)
Definition E_TASKRESULT : exn := -30.     (* AsyncTaskResult reaching the top level as an exception *)
Inductive kname := Ka | Kb | Kk | Kz.            (* Kz: a keyword the body does not have *)
Inductive recv := RObj | RSubObj | RCls | RSubCls | RSub2Obj | RSub2Cls.
Inductive mtype := TNone | TClassmethod | TStaticmethod.     (* DecoratorBase.type *)
Inductive style := SFunc | SSelf | SCls.         (* does the raw function take a receiver first *)
Inductive tag := FnBody | SyncBody.              (* fn / sync_fn *)
Inductive status := SRetValue | SRetFuture | SNoAsynqAttr | SNotAFuture | SNoAsyncFn | SRaised.
Inductive gkind := GNone | GSelf | GAsynqAttr.   (* what get_async_fn / get_async_or_sync_fn return *)
Inductive retkind := KValue | KFuture.
Inductive tkind :=
| KDeco           (* the decorator object itself (module level, or staticmethod: __get__ returns self) *)
| KBinder         (* binder_cls(decorator, instance)                                                 *)
| KPy.            (* a plain Python function / bound method (async_proxy(pure=True))                 *)

Record target := mkT { t_kind : tkind; t_inst : option recv; t_sync : option recv }.

Definition kname_eqb (x y : kname) : bool :=
  match x, y with Ka, Ka | Kb, Kb | Kk, Kk | Kz, Kz => true | _, _ => false end.

Definition mtype_of (b : binding) : mtype :=
  match b with
  | BCmClass | BCmInst | BCmSub | BCmSub2 | BCmSubInst => TClassmethod
  | BSmClass | BSmInst => TStaticmethod
  | _ => TNone
  end.

Definition style_of (b : binding) : style :=
  match b with
  | BFunc | BSmClass | BSmInst => SFunc
  | BInst | BClass | BSub | BSub2 => SSelf
  | _ => SCls
  end.

(* attribute access: (owner, cls) given to __get__; None = no descriptor call (module global) *)
Definition access (b : binding) : option (option recv * recv) :=
  match b with
  | BFunc => None
  | BInst | BCmInst | BSmInst => Some (Some RObj, RCls)
  | BClass | BCmClass | BSmClass => Some (None, RCls)
  | BSub | BCmSubInst => Some (Some RSubObj, RSubCls)
  | BCmSub => Some (None, RSubCls)
  | BSub2 => Some (Some RSub2Obj, RSub2Cls)
  | BCmSub2 => Some (None, RSub2Cls)
  end.

(* Python's function.__get__ / classmethod.__get__ / staticmethod.__get__: what gets bound *)
Definition py_get (m : mtype) (owner : option recv) (cls : recv) : option recv :=
  match m with TNone => owner | TClassmethod => Some cls | TStaticmethod => None end.

(* qcore DecoratorBase.__get__ 96-102 *)
Definition base_get (m : mtype) (owner : option recv) (cls : recv) : tkind * option recv :=
  match m with
  | TStaticmethod => (KDeco, None)
  | TClassmethod => (KBinder, Some cls)
  | TNone => match owner with None => (KBinder, None) | Some o => (KBinder, Some o) end
  end.

(* ---- the lookup history of one decorated attribute over a class hierarchy C, Sub(C), Sub2(C) ----
   The object every lookup goes through is the ONE decorator object stored in C.__dict__ (Python calls
   its __get__(owner, cls) on every attribute access, through whichever class or instance).  What it
   keeps between lookups: DecoratorBase.type (qcore 77-86) and its sync_fn, which stays the UNBOUND
   one: only the per-access copy new_self made by AsyncAndSyncPairDecorator.__get__ (asynq/decorators.py
   263-280) carries a bound sync_fn, and that copy is handed out, not stored. *)
Record dstate := mkDS { ds_type : mtype; ds_sync : option recv }.
Definition ds_init (b : binding) : dstate := mkDS (mtype_of b) None.

(* __get__(owner, cls) on the stored decorator object in state s: what the lookup hands out *)
Definition resolve_at (d : deco) (s : dstate) (owner : option recv) (cls : recv) : target :=
  let m := ds_type s in
  match d with
  | DProxyPure => mkT KPy (py_get m owner cls) None
  | DPair =>      (* AsyncAndSyncPairDecorator.__get__: sync_fn.__get__(owner, cls) (a method that is
                     already bound stays bound to what it was), re-wrap fn in self.type, new decorator,
                     then the base __get__ *)
    let '(k, i) := base_get m owner cls in
    mkT k i (match ds_sync s with Some r => Some r | None => py_get m owner cls end)
  | _ => let '(k, i) := base_get m owner cls in mkT k i None
  end.

(* one lookup through path b: what it hands out and the stored object AFTERWARDS.  None of the __get__
   implementations writes to self (pair: 263-280 builds new_self; DecoratorBase.__get__ 96-102 builds
   a binder; function/classmethod/staticmethod objects are immutable): the state comes back unchanged. *)
Definition get_step (d : deco) (s : dstate) (b : binding) : option target * dstate :=
  (match access b with None => None | Some (owner, cls) => Some (resolve_at d s owner cls) end, s).

Fixpoint after_hist (d : deco) (s : dstate) (hs : list binding) : dstate :=
  match hs with [] => s | b :: r => after_hist d (snd (get_step d s b)) r end.

(* what `t` is after looking the decorated attribute up through path b, the same attribute having been
   looked up before through the paths hs (other classes / instances of the hierarchy) *)
Definition resolve (hs : list binding) (d : deco) (b : binding) : target :=
  match access b with
  | None => match d with DProxyPure => mkT KPy None None | _ => mkT KDeco None None end
  | Some (owner, cls) => resolve_at d (after_hist d (ds_init b) hs) owner cls
  end.

Definition deco_has_asynq (d : deco) : bool :=
  match d with DPure | DProxyPure => false | _ => true end.
(* PureAsyncDecoratorBinder has no .asynq; AsyncDecoratorBinder / DeduplicateDecoratorBinder do *)
Definition binder_has_asynq (d : deco) : bool :=
  match d with DPure => false | _ => true end.

(* hasattr(t, "asynq") *)
Definition has_asynq_attr (hs : list binding) (d : deco) (b : binding) : bool :=
  match t_kind (resolve hs d b) with
  | KPy => false
  | KDeco => deco_has_asynq d
  | KBinder => binder_has_asynq d
  end.

(* is_pure_async_fn(t): the is_pure_async_fn attribute when there is one, else via .fn, else False.
   AsyncDecoratorBinder has neither attribute. *)
Definition is_pure (hs : list binding) (d : deco) (b : binding) : bool :=
  match t_kind (resolve hs d b) with
  | KPy => true                                            (* marker set by async_proxy(pure=True) *)
  | KDeco | KBinder => match d with DPure => true | _ => false end
  end.

Definition has_async (hs : list binding) (d : deco) (b : binding) : bool := has_asynq_attr hs d b.
Definition is_async (hs : list binding) (d : deco) (b : binding) : bool := has_asynq_attr hs d b || is_pure hs d b.
Definition get_async_kind (hs : list binding) (d : deco) (b : binding) : gkind :=
  if has_asynq_attr hs d b then GAsynqAttr else if is_pure hs d b then GSelf else GNone.
Definition get_async_or_sync_kind (hs : list binding) (d : deco) (b : binding) : gkind :=
  if has_asynq_attr hs d b then GAsynqAttr else GSelf.

Definition ctx_active (c : ctx) : active := match c with CTop => ANone | _ => ACaller end.
Definition caller_of (c : ctx) : caller := match c with CTop => CallerNone | _ => CallerOwn end.

(* the last component of the value a body returns: what it yielded / observed *)
Definition extra (bk : bodykind) (act : active) : Z :=
  match bshape bk with
  | BPlain => 0 | BGenConst => 5 | BGenTask => 6 | BBatch => 7
  | BPlainOwn => match act with AOwn => 8 | ACaller => 9 | ANone => 10 end
  | BGenOwn => match act with AOwn => 11 | ACaller => 12 | ANone => 13 end
  end.
Definition tagnum (t : tag) : Z := match t with FnBody => 1 | SyncBody => 2 end.
Definition is_verr (e : exn) : bool := 900 <=? e.

Section Args.
  Variable A : Type.                 (* user argument values *)
  Variable raises : A -> bool.       (* the body raises VErr when its parameter a satisfies this *)
  Variables dflt_b dflt_k : A.       (* defaults of  def body([recv,] a, b=dflt_b, *, k=dflt_k) *)
  Variable cx : ctx.                 (* where the calling form is executed *)
  Variable hs : list binding.        (* earlier lookups of the same decorated attribute (paths) *)

  Inductive arg := AObj (r : recv) | AVal (a : A).
  Definition kwargs := list (kname * arg).

  Inductive call :=
  | CBody (t : tag) (r : option arg) (a b k : arg)       (* a body ran: receiver and bound parameters *)
  | CWrap (r : option recv) (npos nkw : Z).               (* make_async_decorator's wrapper_fn ran *)
  Inductive rval :=
  | VBody (t : tag) (a b k : arg) (x : Z)
  | VWrapped (v : rval)
  | VFuture.                                               (* an unresolved future object as a value *)
  Inductive res :=
  | ROk (v : rval)
  | RErr (e : exn)
  | RResult (v : rval).      (* AsyncTaskResult(v) in flight: finishes the first task frame it reaches *)
  Definition effect : Type := list call * res.

  Fixpoint kw_get (n : kname) (kw : kwargs) : option arg :=
    match kw with
    | [] => None
    | (m, v) :: kw' => if kname_eqb n m then Some v else kw_get n kw'
    end.
  Definition kw_or (n : kname) (kw : kwargs) (d : A) : arg :=
    match kw_get n kw with Some v => v | None => AVal d end.
  Definition kw_has (n : kname) (kw : kwargs) : bool :=
    match kw_get n kw with Some _ => true | None => false end.

  (* Python's binding of (a, b=dflt_b, *, k=dflt_k) ; None = TypeError *)
  Definition bind3 (pos : list arg) (kw : kwargs) : option (arg * arg * arg) :=
    if kw_has Kz kw then None else
    match pos with
    | [] => match kw_get Ka kw with
            | None => None
            | Some a => Some (a, kw_or Kb kw dflt_b, kw_or Kk kw dflt_k)
            end
    | [a] => if kw_has Ka kw then None else Some (a, kw_or Kb kw dflt_b, kw_or Kk kw dflt_k)
    | [a; b] => if kw_has Ka kw || kw_has Kb kw then None else Some (a, b, kw_or Kk kw dflt_k)
    | _ => None
    end.

  Definition arg_raises (a : arg) : bool := match a with AVal v => raises v | AObj _ => false end.

  (* calling the raw function fn(ARGS) and running the resulting body to the end IN THE CURRENT FRAME
     (act = what get_active_task() is there); result(v) leaves it as AsyncTaskResult(v) *)
  Definition run_fn (t : tag) (st : style) (bk : bodykind) (act : active) (pos : list arg) (kw : kwargs) : effect :=
    let go (r : option arg) (rest : list arg) : effect :=
        match bind3 rest kw with
        | None => ([], RErr E_TYPEERROR)
        | Some (a, b, k) =>
          ([CBody t r a b k],
           if arg_raises a then RErr (900 + tagnum t)
           else let v := VBody t a b k (extra bk act) in
                match bret bk with RetReturn => ROk v | RetResult => RResult v end)
        end in
    match st with
    | SFunc => go None pos
    | SSelf | SCls => match pos with [] => ([], RErr E_TYPEERROR) | r :: rest => go (Some r) rest end
    end.

  (* a task of its own around a body: AsyncTask._continue 183-201 turns the generator's return value
     and an AsyncTaskResult into the value of that task; other exceptions become its error *)
  Definition task_frame (e : effect) : effect :=
    (fst e, match snd e with RResult v => ROk v | r => r end).

  (* PureAsyncDecorator._call_pure 179-187: task_cls(generator or _fn_wrapper, fn, ...) — fn's body
     always runs inside a task made for it (for a proxy the harness body hands back inner.asynq(...),
     inner being an @asynq() function: same thing) *)
  Definition own_task (st : style) (bk : bodykind) (pos : list arg) (kw : kwargs) : effect :=
    task_frame (run_fn FnBody st bk AOwn pos kw).

  Definition prepend (i : option recv) (pos : list arg) : list arg :=
    match i with Some r => AObj r :: pos | None => pos end.

  (* aretry(VErr, max_tries=2): a VErr from the body makes it run a second time *)
  Definition dup_on_raise (e : effect) : effect :=
    match snd e with
    | RErr x => if is_verr x then (fst e ++ fst e, snd e) else e
    | _ => e
    end.

  (* acached_per_instance: weakref.ref(self) first — TypeError for a self that is a plain value *)
  Definition cpi_guard (pos : list arg) (e : effect) : effect :=
    match pos with AVal _ :: _ => ([], RErr E_TYPEERROR) | _ => e end.

  (* the harness' wrapper_fn: records, yields fun.asynq(ARGS), tags the value *)
  Definition wrap_effect (pos : list arg) (kw : kwargs) (e : effect) : effect :=
    (match pos with
     | AObj r :: rest => CWrap (Some r) (Z.of_nat (length rest)) (Z.of_nat (length kw))
     | _ => CWrap None (Z.of_nat (length pos)) (Z.of_nat (length kw))
     end :: fst e,
     match snd e with ROk v => ROk (VWrapped v) | r => r end).

  (* effect of the asynchronous path once the full positional list is known:
     PureAsyncDecorator._call_pure -> fn(ARGS) ; the wrappers of tools.py yield fn.asynq(ARGS) *)
  Definition async_effect (d : deco) (st : style) (bk : bodykind) (pos : list arg) (kw : kwargs) : effect :=
    let e := own_task st bk pos kw in
    match d with
    | DRetry => dup_on_raise e
    | DCpi => cpi_guard pos e
    | DWrap => wrap_effect pos kw e
    | _ => e
    end.

  (* decorator.asynq(ARGS); None = the class has no such attribute *)
  Definition deco_asynq (d : deco) (st : style) (bk : bodykind) (pos : list arg) (kw : kwargs) : option effect :=
    if deco_has_asynq d then Some (async_effect d st bk pos kw) else None.

  (* decorator(ARGS): __call__ of each class; sb = receiver already bound into sync_fn *)
  Definition deco_call (d : deco) (st : style) (bk : bodykind) (sb : option recv) (pos : list arg) (kw : kwargs)
    : retkind * effect :=
    match d with
    | DPure | DProxyPure => (KFuture, async_effect d st bk pos kw)
    | DPair =>        (* sync_fn(ARGS): an ordinary call, in the caller's frame *)
      (KValue, run_fn SyncBody st (BK BPlain RetReturn) (ctx_active cx) (prepend sb pos) kw)
    | _ => (KValue, async_effect d st bk pos kw)           (* _call_pure(args, kwargs).value() *)
    end.

  (* t.asynq(ARGS) *)
  Definition target_asynq (d : deco) (b : binding) (bk : bodykind) (pos : list arg) (kw : kwargs) : option effect :=
    let t := resolve hs d b in
    match t_kind t with
    | KPy => None
    | KDeco => deco_asynq d (style_of b) bk pos kw
    | KBinder =>                                              (* AsyncDecoratorBinder.asynq 190-195 *)
      if binder_has_asynq d then deco_asynq d (style_of b) bk (prepend (t_inst t) pos) kw else None
    end.

  (* t(ARGS) *)
  Definition target_call (d : deco) (b : binding) (bk : bodykind) (pos : list arg) (kw : kwargs) : retkind * effect :=
    let t := resolve hs d b in
    match t_kind t with
    | KPy => (KFuture, async_effect d (style_of b) bk (prepend (t_inst t) pos) kw)    (* bound method *)
    | KDeco => deco_call d (style_of b) bk (t_sync t) pos kw
    | KBinder =>
      match d with
      | DPair => deco_call d (style_of b) bk (t_sync t) pos kw      (* pair binder: no prepending, 233-238 *)
      | _ => deco_call d (style_of b) bk None (prepend (t_inst t) pos) kw   (* DecoratorBinder.__call__ *)
      end
    end.

  (* async_call's body, 407-414 *)
  Definition async_call_effect (d : deco) (b : binding) (bk : bodykind) (pos : list arg) (kw : kwargs) : effect :=
    if is_pure hs d b then snd (target_call d b bk pos kw)
    else match target_asynq d b bk pos kw with
         | Some e => e
         | None =>                                            (* ConstFuture(fn(ARGS)) *)
           match target_call d b bk pos kw with
           | (KValue, e) => e
           | (KFuture, e) => match snd e with ROk _ => (fst e, ROk VFuture) | _ => e end
           end
         end.

  Definition finish (s : status) (e : effect) : status * list call * res :=
    match snd e with RErr _ => (SRaised, fst e, snd e) | _ => (s, fst e, snd e) end.

  Definition via_asynq (d : deco) (b : binding) (bk : bodykind) (pos : list arg) (kw : kwargs) :=
    match target_asynq d b bk pos kw with
    | None => (SNoAsynqAttr, [], RErr E_ATTR)
    | Some e => finish SRetFuture e
    end.

  Definition via_call (ifvalue : status) (d : deco) (b : binding) (bk : bodykind) (pos : list arg) (kw : kwargs) :=
    let '(k, e) := target_call d b bk pos kw in
    finish (match k with KValue => ifvalue | KFuture => SRetFuture end) e.

  Definition invoke (d : deco) (b : binding) (f : form) (pos : list arg) (kw : kwargs) (bk : bodykind)
    : status * list call * res :=
    match f with
    | Sync => via_call SRetValue d b bk pos kw
    | AsynqValue | YieldAsynq => via_asynq d b bk pos kw
    | AsyncCall => finish SRetFuture (async_call_effect d b bk pos kw)
    | YieldDirect => via_call SNotAFuture d b bk pos kw
    | ViaGetAsync =>
      match get_async_kind hs d b with
      | GNone => (SNoAsyncFn, [], RErr E_ATTR)
      | GAsynqAttr => via_asynq d b bk pos kw
      | GSelf => via_call SNotAFuture d b bk pos kw
      end
    | ViaGetAsyncOrSync =>
      match get_async_or_sync_kind hs d b with
      | GAsynqAttr => via_asynq d b bk pos kw
      | _ => via_call SRetValue d b bk pos kw
      end
    end.

  (* the form executed in context cx: an AsyncTaskResult that no task frame of the callee caught
     finishes the CALLING task (its generator / _fn_wrapper raised it: async_task.py 193-196); at top
     level it is just an exception *)
  Definition in_ctx (x : status * list call * res) : caller * (status * list call * res) :=
    match x with
    | (s, cs, RResult v) =>
      match cx with
      | CTop => (CallerNone, (SRaised, cs, RErr E_TASKRESULT))
      | _ => (CallerHijacked, (s, cs, ROk v))
      end
    | _ => (caller_of cx, x)
    end.

  Definition invoke_ctx (d : deco) (b : binding) (f : form) (pos : list arg) (kw : kwargs) (bk : bodykind) :=
    in_ctx (invoke d b f pos kw bk).
End Args.

Arguments AObj {A} r.
Arguments AVal {A} a.
Arguments CBody {A} t r a b k.
Arguments CWrap {A} r npos nkw.
Arguments VBody {A} t a b k x.
Arguments VWrapped {A} v.
Arguments VFuture {A}.
Arguments ROk {A} v.
Arguments RErr {A} e.
Arguments RResult {A} v.

(* the bindings each decorator is written for *)
Definition valid (d : deco) (b : binding) : bool :=
  match d with
  | DRetry | DLru => match b with BFunc | BInst | BClass | BSub | BSub2 => true | _ => false end
  | DCpi => match b with BInst | BClass | BSub | BSub2 => true | _ => false end
  | _ => true
  end.

Definition all_decos := [DAsynq; DPure; DProxy; DProxyPure; DPair; DWrap; DDedup; DRetry; DLru; DCpi].
Definition all_bindings := [BFunc; BInst; BClass; BSub; BCmClass; BCmInst; BCmSub; BSmClass; BSmInst; BSub2; BCmSub2; BCmSubInst].
Definition all_forms := [Sync; AsynqValue; YieldAsynq; AsyncCall; YieldDirect; ViaGetAsync; ViaGetAsyncOrSync].
Definition all_shapes := [BPlain; BGenConst; BGenTask; BBatch; BPlainOwn; BGenOwn].
Definition all_retstyles := [RetReturn; RetResult].
Definition all_bodykinds := map (fun p => BK (fst p) (snd p)) (list_prod all_shapes all_retstyles).
Definition all_ctxs := [CTop; CGen; CPlain; CNested].

(* ---- a history of lookups / calls of ONE decorated attribute through the class hierarchy ----
   A warm-up is an earlier use of the same attribute through path b: just the lookup (K.m), or a call
   in one of the forms with the single positional value v (the instance first for C.m(obj, v)). *)
Inductive wact := WGet | WSync | WAsynq | WAsyncCall.
Definition wform (a : wact) : option form :=
  match a with WGet => None | WSync => Some Sync | WAsynq => Some AsynqValue | WAsyncCall => Some AsyncCall end.
Definition explicit_inst (A : Type) (b : binding) : list (arg A) :=
  match b with BClass => [AObj RObj] | _ => [] end.

Section Trace.
  Variable A : Type.
  Variable raises : A -> bool.
  Variables dflt_b dflt_k : A.
  Definition warm : Type := binding * wact * A.
  Definition warm_path (w : warm) : binding := fst (fst w).

  (* the outcome of one warm-up made (at top level) after the lookups hs; None for a bare lookup *)
  Definition warm_out (hs : list binding) (d : deco) (bk : bodykind) (w : warm)
    : option (status * list (call A) * res A) :=
    let '(b, a, v) := w in
    match wform a with
    | None => None
    | Some f => Some (invoke A raises dflt_b dflt_k CTop hs d b f (explicit_inst A b ++ [AVal v]) [] bk)
    end.

  (* the warm-ups in order: each sees the lookups made by all earlier ones *)
  Fixpoint run_warm (hs : list binding) (d : deco) (bk : bodykind) (ws : list warm) :=
    match ws with
    | [] => []
    | w :: r => warm_out hs d bk w :: run_warm (hs ++ [warm_path w]) d bk r
    end.
End Trace.

(* entry point of the correspondence: A := Z, the body raises on a = 99, defaults 20 and 30;
   for BClass the instance is passed explicitly unless explicit = false; the warm-ups ws are made
   first (top level, same callable), then every form is executed in context cx *)
Definition run_case (d : deco) (b : binding) (explicit : bool) (pos : list Z) (kw : list (kname * Z)) (bk : bodykind)
                    (cx : ctx) (ws : list (binding * wact * Z)) :=
  let hs := map (warm_path Z) ws in
  let upos := (match b with BClass => if explicit then [AObj RObj] else [] | _ => [] end) ++ map AVal pos in
  let ukw := map (fun p => (fst p, AVal (snd p))) kw in
  (map (fun f => invoke_ctx Z (fun z => z =? 99) 20 30 cx hs d b f upos ukw bk) all_forms,
   (is_async hs d b, is_pure hs d b, has_async hs d b, get_async_kind hs d b, get_async_or_sync_kind hs d b),
   run_warm Z (fun z => z =? 99) 20 30 [] d bk ws).
