(* Dispatch.v — executable model of how asynq's decorators dispatch a call (C09).

   What is modelled (source anchors):
     qcore/decorators.py   DecoratorBinder.__call__ 47-51 (prepend .instance unless None)
                           DecoratorBase.__init__ 77-86 (self.type from classmethod/staticmethod
                             or from the wrapped decorator), DecoratorBase.__get__ 96-102
     asynq/decorators.py   is_pure_async_fn 56-74, has_async_fn 51-53, is_async_fn 77-79,
                           get_async_fn 82-97, get_async_or_sync_fn 100-106
                           PureAsyncDecoratorBinder 143-145, PureAsyncDecorator 148-187
                           AsyncDecoratorBinder.asynq 190-195, AsyncDecorator 204-230
                           AsyncAndSyncPairDecoratorBinder.__call__ 233-238,
                           AsyncAndSyncPairDecorator.__call__/__get__ 241-280
                           AsyncProxyDecorator._call_pure 304-308, async_proxy 364-378
                           async_call 398-414, AsyncWrapper 417-440, make_async_decorator 443-452
     asynq/tools.py        acached_per_instance 165-209, alru_cache 212-252, aretry 286-313,
                           DeduplicateDecoratorBinder/DeduplicateDecorator/deduplicate 333-428
   ARGS abbreviates Python's star-args, star-star-kwargs.
   Python's own attribute lookup (function / classmethod / staticmethod / bound method objects) is
   modelled by [py_get]; it is not verified, the exhaustive correspondence run checks it.

   The model follows the REPAIRED async_proxy(pure=True) (work/fixes/C09-async-proxy-pure-marker.diff):
   the returned function carries is_pure_async_fn, as `lazy` does at decorators.py:47.            *)
From Asynq Require Export Base.

Definition E_ATTR : exn := -20.           (* AttributeError: no .asynq / get_async_fn gave None *)

Inductive deco :=
| DAsynq          (* @asynq()                                                   *)
| DPure           (* @asynq(pure=True)                                          *)
| DProxy          (* @async_proxy()                                             *)
| DProxyPure      (* @async_proxy(pure=True): returns the function itself       *)
| DPair           (* @asynq(sync_fn=...)                                        *)
| DWrap           (* make_async_decorator(asynq()(fn), wrapper_fn, name)        *)
| DDedup          (* @deduplicate() @asynq()                                    *)
| DRetry          (* @aretry(VErr, max_tries=2, sleep=0) @asynq()               *)
| DLru            (* @alru_cache() @asynq()                                     *)
| DCpi.           (* @acached_per_instance() @asynq()                           *)

Inductive binding :=
| BFunc           (* module-level function  f(...)                              *)
| BInst           (* obj.m(...)                                                 *)
| BClass          (* C.m(obj, ...)                                              *)
| BSub            (* subobj.m(...)  with  class Sub(C)                          *)
| BCmClass        (* classmethod, C.m(...)                                      *)
| BCmInst         (* classmethod, obj.m(...)                                    *)
| BCmSub          (* classmethod, Sub.m(...)                                    *)
| BSmClass        (* staticmethod, C.m(...)                                     *)
| BSmInst.        (* staticmethod, obj.m(...)                                   *)

Inductive form :=
| Sync                 (* t(ARGS)                                      *)
| AsynqValue           (* t.asynq(ARGS).value()                        *)
| YieldAsynq           (* v = yield t.asynq(ARGS)  inside a task       *)
| AsyncCall            (* v = yield async_call.asynq(t, ARGS)          *)
| YieldDirect          (* v = yield t(ARGS)  when that is a future     *)
| ViaGetAsync          (* get_async_fn(t)(ARGS).value()                *)
| ViaGetAsyncOrSync.   (* get_async_or_sync_fn(t)(ARGS) [.value()]     *)

Inductive bodykind := BPlain | BGenConst | BGenTask | BBatch.
Inductive kname := Ka | Kb | Kk | Kz.            (* Kz: a keyword the body does not have *)
Inductive recv := RObj | RSubObj | RCls | RSubCls.
Inductive mtype := TNone | TClassmethod | TStaticmethod.     (* DecoratorBase.type *)
Inductive style := SFunc | SSelf | SCls.         (* does the raw function take a receiver first *)
Inductive tag := FnBody | SyncBody.              (* fn / sync_fn *)
Inductive status := SRetValue | SRetFuture | SNoAsynqAttr | SNotAFuture | SNoAsyncFn | SRaised.
Inductive gkind := GNone | GSelf | GAsynqAttr.   (* what get_async_fn / get_async_or_sync_fn return *)
Inductive retkind := KValue | KFuture.
Inductive tkind :=
| KDeco           (* the decorator object itself (module level, or staticmethod: __get__ returns self) *)
| KBinder         (* binder_cls(decorator, instance)                                                 *)
| KPy.            (* a plain Python function / bound method (async_proxy(pure=True))                 *)

Record target := mkT { t_kind : tkind; t_inst : option recv; t_sync : option recv }.

Definition kname_eqb (x y : kname) : bool :=
  match x, y with Ka, Ka | Kb, Kb | Kk, Kk | Kz, Kz => true | _, _ => false end.

Definition mtype_of (b : binding) : mtype :=
  match b with
  | BCmClass | BCmInst | BCmSub => TClassmethod
  | BSmClass | BSmInst => TStaticmethod
  | _ => TNone
  end.

Definition style_of (b : binding) : style :=
  match b with
  | BFunc | BSmClass | BSmInst => SFunc
  | BInst | BClass | BSub => SSelf
  | _ => SCls
  end.

(* attribute access: (owner, cls) given to __get__; None = no descriptor call (module global) *)
Definition access (b : binding) : option (option recv * recv) :=
  match b with
  | BFunc => None
  | BInst | BCmInst | BSmInst => Some (Some RObj, RCls)
  | BClass | BCmClass | BSmClass => Some (None, RCls)
  | BSub => Some (Some RSubObj, RSubCls)
  | BCmSub => Some (None, RSubCls)
  end.

(* Python's function.__get__ / classmethod.__get__ / staticmethod.__get__: what gets bound *)
Definition py_get (m : mtype) (owner : option recv) (cls : recv) : option recv :=
  match m with TNone => owner | TClassmethod => Some cls | TStaticmethod => None end.

(* qcore DecoratorBase.__get__ 96-102 *)
Definition base_get (m : mtype) (owner : option recv) (cls : recv) : tkind * option recv :=
  match m with
  | TStaticmethod => (KDeco, None)
  | TClassmethod => (KBinder, Some cls)
  | TNone => match owner with None => (KBinder, None) | Some o => (KBinder, Some o) end
  end.

(* what `t` is after looking the decorated attribute up *)
Definition resolve (d : deco) (b : binding) : target :=
  match access b with
  | None => match d with DProxyPure => mkT KPy None None | _ => mkT KDeco None None end
  | Some (owner, cls) =>
    let m := mtype_of b in
    match d with
    | DProxyPure => mkT KPy (py_get m owner cls) None
    | DPair =>      (* AsyncAndSyncPairDecorator.__get__: sync_fn.__get__(owner, cls), re-wrap fn in
                       self.type, new decorator, then the base __get__ *)
      let '(k, i) := base_get m owner cls in mkT k i (py_get m owner cls)
    | _ => let '(k, i) := base_get m owner cls in mkT k i None
    end
  end.

Definition deco_has_asynq (d : deco) : bool :=
  match d with DPure | DProxyPure => false | _ => true end.
(* PureAsyncDecoratorBinder has no .asynq; AsyncDecoratorBinder / DeduplicateDecoratorBinder do *)
Definition binder_has_asynq (d : deco) : bool :=
  match d with DPure => false | _ => true end.

(* hasattr(t, "asynq") *)
Definition has_asynq_attr (d : deco) (b : binding) : bool :=
  match t_kind (resolve d b) with
  | KPy => false
  | KDeco => deco_has_asynq d
  | KBinder => binder_has_asynq d
  end.

(* is_pure_async_fn(t): the is_pure_async_fn attribute when there is one, else via .fn, else False.
   AsyncDecoratorBinder has neither attribute. *)
Definition is_pure (d : deco) (b : binding) : bool :=
  match t_kind (resolve d b) with
  | KPy => true                                            (* marker set by async_proxy(pure=True) *)
  | KDeco | KBinder => match d with DPure => true | _ => false end
  end.

Definition has_async (d : deco) (b : binding) : bool := has_asynq_attr d b.
Definition is_async (d : deco) (b : binding) : bool := has_asynq_attr d b || is_pure d b.
Definition get_async_kind (d : deco) (b : binding) : gkind :=
  if has_asynq_attr d b then GAsynqAttr else if is_pure d b then GSelf else GNone.
Definition get_async_or_sync_kind (d : deco) (b : binding) : gkind :=
  if has_asynq_attr d b then GAsynqAttr else GSelf.

Definition extra (bk : bodykind) : Z :=
  match bk with BPlain => 0 | BGenConst => 5 | BGenTask => 6 | BBatch => 7 end.
Definition tagnum (t : tag) : Z := match t with FnBody => 1 | SyncBody => 2 end.
Definition is_verr (e : exn) : bool := 900 <=? e.

Section Args.
  Variable A : Type.                 (* user argument values *)
  Variable raises : A -> bool.       (* the body raises VErr when its parameter a satisfies this *)
  Variables dflt_b dflt_k : A.       (* defaults of  def body([recv,] a, b=dflt_b, *, k=dflt_k) *)

  Inductive arg := AObj (r : recv) | AVal (a : A).
  Definition kwargs := list (kname * arg).

  Inductive call :=
  | CBody (t : tag) (r : option arg) (a b k : arg)       (* a body ran: receiver and bound parameters *)
  | CWrap (r : option recv) (npos nkw : Z).               (* make_async_decorator's wrapper_fn ran *)
  Inductive rval :=
  | VBody (t : tag) (a b k : arg) (x : Z)
  | VWrapped (v : rval)
  | VFuture.                                               (* an unresolved future object as a value *)
  Inductive res := ROk (v : rval) | RErr (e : exn).
  Definition effect : Type := list call * res.

  Fixpoint kw_get (n : kname) (kw : kwargs) : option arg :=
    match kw with
    | [] => None
    | (m, v) :: kw' => if kname_eqb n m then Some v else kw_get n kw'
    end.
  Definition kw_or (n : kname) (kw : kwargs) (d : A) : arg :=
    match kw_get n kw with Some v => v | None => AVal d end.
  Definition kw_has (n : kname) (kw : kwargs) : bool :=
    match kw_get n kw with Some _ => true | None => false end.

  (* Python's binding of (a, b=dflt_b, *, k=dflt_k) ; None = TypeError *)
  Definition bind3 (pos : list arg) (kw : kwargs) : option (arg * arg * arg) :=
    if kw_has Kz kw then None else
    match pos with
    | [] => match kw_get Ka kw with
            | None => None
            | Some a => Some (a, kw_or Kb kw dflt_b, kw_or Kk kw dflt_k)
            end
    | [a] => if kw_has Ka kw then None else Some (a, kw_or Kb kw dflt_b, kw_or Kk kw dflt_k)
    | [a; b] => if kw_has Ka kw || kw_has Kb kw then None else Some (a, b, kw_or Kk kw dflt_k)
    | _ => None
    end.

  Definition arg_raises (a : arg) : bool := match a with AVal v => raises v | AObj _ => false end.

  (* calling the raw function fn(ARGS) and running the resulting body to the end *)
  Definition run_fn (t : tag) (st : style) (bk : bodykind) (pos : list arg) (kw : kwargs) : effect :=
    let go (r : option arg) (rest : list arg) : effect :=
        match bind3 rest kw with
        | None => ([], RErr E_TYPEERROR)
        | Some (a, b, k) =>
          ([CBody t r a b k],
           if arg_raises a then RErr (900 + tagnum t) else ROk (VBody t a b k (extra bk)))
        end in
    match st with
    | SFunc => go None pos
    | SSelf | SCls => match pos with [] => ([], RErr E_TYPEERROR) | r :: rest => go (Some r) rest end
    end.

  Definition prepend (i : option recv) (pos : list arg) : list arg :=
    match i with Some r => AObj r :: pos | None => pos end.

  (* aretry(VErr, max_tries=2): a VErr from the body makes it run a second time *)
  Definition dup_on_raise (e : effect) : effect :=
    match snd e with
    | RErr x => if is_verr x then (fst e ++ fst e, snd e) else e
    | ROk _ => e
    end.

  (* acached_per_instance: weakref.ref(self) first — TypeError for a self that is a plain value *)
  Definition cpi_guard (pos : list arg) (e : effect) : effect :=
    match pos with AVal _ :: _ => ([], RErr E_TYPEERROR) | _ => e end.

  (* the harness' wrapper_fn: records, yields fun.asynq(ARGS), tags the value *)
  Definition wrap_effect (pos : list arg) (kw : kwargs) (e : effect) : effect :=
    (match pos with
     | AObj r :: rest => CWrap (Some r) (Z.of_nat (length rest)) (Z.of_nat (length kw))
     | _ => CWrap None (Z.of_nat (length pos)) (Z.of_nat (length kw))
     end :: fst e,
     match snd e with ROk v => ROk (VWrapped v) | RErr x => RErr x end).

  (* effect of the asynchronous path once the full positional list is known:
     PureAsyncDecorator._call_pure -> fn(ARGS) ; the wrappers of tools.py yield fn.asynq(ARGS) *)
  Definition async_effect (d : deco) (st : style) (bk : bodykind) (pos : list arg) (kw : kwargs) : effect :=
    let e := run_fn FnBody st bk pos kw in
    match d with
    | DRetry => dup_on_raise e
    | DCpi => cpi_guard pos e
    | DWrap => wrap_effect pos kw e
    | _ => e
    end.

  (* decorator.asynq(ARGS); None = the class has no such attribute *)
  Definition deco_asynq (d : deco) (st : style) (bk : bodykind) (pos : list arg) (kw : kwargs) : option effect :=
    if deco_has_asynq d then Some (async_effect d st bk pos kw) else None.

  (* decorator(ARGS): __call__ of each class; sb = receiver already bound into sync_fn *)
  Definition deco_call (d : deco) (st : style) (bk : bodykind) (sb : option recv) (pos : list arg) (kw : kwargs)
    : retkind * effect :=
    match d with
    | DPure | DProxyPure => (KFuture, async_effect d st bk pos kw)
    | DPair => (KValue, run_fn SyncBody st BPlain (prepend sb pos) kw)
    | _ => (KValue, async_effect d st bk pos kw)           (* _call_pure(args, kwargs).value() *)
    end.

  (* t.asynq(ARGS) *)
  Definition target_asynq (d : deco) (b : binding) (bk : bodykind) (pos : list arg) (kw : kwargs) : option effect :=
    let t := resolve d b in
    match t_kind t with
    | KPy => None
    | KDeco => deco_asynq d (style_of b) bk pos kw
    | KBinder =>                                              (* AsyncDecoratorBinder.asynq 190-195 *)
      if binder_has_asynq d then deco_asynq d (style_of b) bk (prepend (t_inst t) pos) kw else None
    end.

  (* t(ARGS) *)
  Definition target_call (d : deco) (b : binding) (bk : bodykind) (pos : list arg) (kw : kwargs) : retkind * effect :=
    let t := resolve d b in
    match t_kind t with
    | KPy => (KFuture, async_effect d (style_of b) bk (prepend (t_inst t) pos) kw)    (* bound method *)
    | KDeco => deco_call d (style_of b) bk (t_sync t) pos kw
    | KBinder =>
      match d with
      | DPair => deco_call d (style_of b) bk (t_sync t) pos kw      (* pair binder: no prepending, 233-238 *)
      | _ => deco_call d (style_of b) bk None (prepend (t_inst t) pos) kw   (* DecoratorBinder.__call__ *)
      end
    end.

  (* async_call's body, 407-414 *)
  Definition async_call_effect (d : deco) (b : binding) (bk : bodykind) (pos : list arg) (kw : kwargs) : effect :=
    if is_pure d b then snd (target_call d b bk pos kw)
    else match target_asynq d b bk pos kw with
         | Some e => e
         | None =>                                            (* ConstFuture(fn(ARGS)) *)
           match target_call d b bk pos kw with
           | (KValue, e) => e
           | (KFuture, e) => match snd e with ROk _ => (fst e, ROk VFuture) | RErr _ => e end
           end
         end.

  Definition finish (s : status) (e : effect) : status * list call * res :=
    match snd e with RErr _ => (SRaised, fst e, snd e) | ROk _ => (s, fst e, snd e) end.

  Definition via_asynq (d : deco) (b : binding) (bk : bodykind) (pos : list arg) (kw : kwargs) :=
    match target_asynq d b bk pos kw with
    | None => (SNoAsynqAttr, [], RErr E_ATTR)
    | Some e => finish SRetFuture e
    end.

  Definition via_call (ifvalue : status) (d : deco) (b : binding) (bk : bodykind) (pos : list arg) (kw : kwargs) :=
    let '(k, e) := target_call d b bk pos kw in
    finish (match k with KValue => ifvalue | KFuture => SRetFuture end) e.

  Definition invoke (d : deco) (b : binding) (f : form) (pos : list arg) (kw : kwargs) (bk : bodykind)
    : status * list call * res :=
    match f with
    | Sync => via_call SRetValue d b bk pos kw
    | AsynqValue | YieldAsynq => via_asynq d b bk pos kw
    | AsyncCall => finish SRetFuture (async_call_effect d b bk pos kw)
    | YieldDirect => via_call SNotAFuture d b bk pos kw
    | ViaGetAsync =>
      match get_async_kind d b with
      | GNone => (SNoAsyncFn, [], RErr E_ATTR)
      | GAsynqAttr => via_asynq d b bk pos kw
      | GSelf => via_call SNotAFuture d b bk pos kw
      end
    | ViaGetAsyncOrSync =>
      match get_async_or_sync_kind d b with
      | GAsynqAttr => via_asynq d b bk pos kw
      | _ => via_call SRetValue d b bk pos kw
      end
    end.
End Args.

Arguments AObj {A} r.
Arguments AVal {A} a.
Arguments CBody {A} t r a b k.
Arguments CWrap {A} r npos nkw.
Arguments VBody {A} t a b k x.
Arguments VWrapped {A} v.
Arguments VFuture {A}.
Arguments ROk {A} v.
Arguments RErr {A} e.

(* the bindings each decorator is written for *)
Definition valid (d : deco) (b : binding) : bool :=
  match d with
  | DRetry | DLru => match b with BFunc | BInst | BClass | BSub => true | _ => false end
  | DCpi => match b with BInst | BClass | BSub => true | _ => false end
  | _ => true
  end.

Definition all_decos := [DAsynq; DPure; DProxy; DProxyPure; DPair; DWrap; DDedup; DRetry; DLru; DCpi].
Definition all_bindings := [BFunc; BInst; BClass; BSub; BCmClass; BCmInst; BCmSub; BSmClass; BSmInst].
Definition all_forms := [Sync; AsynqValue; YieldAsynq; AsyncCall; YieldDirect; ViaGetAsync; ViaGetAsyncOrSync].
Definition all_bodykinds := [BPlain; BGenConst; BGenTask; BBatch].

(* entry point of the correspondence: A := Z, the body raises on a = 99, defaults 20 and 30;
   for BClass the instance is passed explicitly unless explicit = false *)
Definition run_case (d : deco) (b : binding) (explicit : bool) (pos : list Z) (kw : list (kname * Z)) (bk : bodykind) :=
  let upos := (match b with BClass => if explicit then [AObj RObj] else [] | _ => [] end) ++ map AVal pos in
  let ukw := map (fun p => (fst p, AVal (snd p))) kw in
  (map (fun f => invoke Z (fun z => z =? 99) 20 30 d b f upos ukw bk) all_forms,
   (is_async d b, is_pure d b, has_async d b, get_async_kind d b, get_async_or_sync_kind d b)).
