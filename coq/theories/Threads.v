(* Threads.v — executable model of the thread-related state of asynq (C16).

   What the code does (source anchors, /repo/asynq):
     scheduler.py 303-329   _state = LocalTaskSchedulerState() (threading.local): last_id, current scheduler;
                            get_scheduler / reset / get_active_task read the CURRENT THREAD's slot
     scheduler.py 44-61     TaskScheduler.__init__/reset: name "<thread name> / <last_id>", _batches, _tasks, active_task
     batching.py 279-286    _debug_batch_state = LocalDebugBatchState() (threading.local): batches: name -> DebugBatch
     batching.py 234-259    DebugBatchItem.__init__ (setdefault in the registry), DebugBatch._try_switch_active_batch
     profiler.py 4-32       _state = LocalProfileState() (threading.local): stats, counter; flush/append/reset/incr_counter
     tools.py 343-387       DeduplicateDecorator.tasks = {} (ONE dict for the whole process);
                            cache_key = (keygetter(args, kwargs), threading.current_thread(), id(self.fn))
     asynq_to_async.py 24-29, 73-90   _asyncio_mode ContextVar (every thread has its own context)
     _debug.py              options: one process-wide object; read, never written, by the code above

   Part 1 is the machine that matters for the theorems: a process is
        read-only options  x  (thread id -> thread-local state)  x  the shared deduplicate dict,
   a thread's code is ANY pair of functions (next_request, advance) over its own local state: run
   thread-local code up to the next access to the shared dict, perform that one access with a key that
   contains the current thread (this is the only thing Part 1 fixes), continue.  One `step i` is one such
   atomic access by thread i, so a schedule (list of thread ids) is an interleaving at the granularity
   of single accesses to shared state.

   Part 2 instantiates the local state and code with an executable model of what asynq keeps per
   thread (scheduler slot, debug-batch registry, profiler buffer/counter, asyncio-mode flag) driven by
   a small op language; `run_case` is what the correspondence harness evaluates. *)
From Asynq Require Export Base.

(* ------------------------------------------------------------------------------------------- *)
(* Part 1 — threads over thread-local slots and one shared dict keyed with the thread           *)
(* ------------------------------------------------------------------------------------------- *)

Definition tid := nat.

(* tools.py:351-352  cache_key = (keygetter(args, kwargs), threading.current_thread(), id(self.fn)) *)
Definition dkey := (list Z * tid * Z)%type.
Definition dk_thread (k : dkey) : tid := snd (fst k).

Fixpoint zlist_eqb (a b : list Z) : bool :=
  match a, b with
  | [], [] => true
  | x :: a', y :: b' => Z.eqb x y && zlist_eqb a' b'
  | _, _ => false
  end.

Definition dkey_eqb (a b : dkey) : bool :=
  zlist_eqb (fst (fst a)) (fst (fst b)) && Nat.eqb (dk_thread a) (dk_thread b) && Z.eqb (snd a) (snd b).

(* DeduplicateDecorator.tasks: a Python dict as an association list, most recent insertion first *)
Definition dmap := list (dkey * Z).

Fixpoint d_get (k : dkey) (d : dmap) : option Z :=
  match d with
  | [] => None
  | (k', v) :: r => if dkey_eqb k k' then Some v else d_get k r
  end.

Fixpoint d_pop (k : dkey) (d : dmap) : dmap :=
  match d with
  | [] => []
  | (k', v) :: r => if dkey_eqb k k' then d_pop k r else (k', v) :: d_pop k r
  end.

Definition d_set (k : dkey) (v : Z) (d : dmap) : dmap := (k, v) :: d_pop k d.

(* the accesses to the shared dict that thread code can make; args = keygetter(args, kwargs), f = id(fn) *)
Inductive request :=
| RqNone                                   (* thread-local work only *)
| RqGet (args : list Z) (f : Z)            (* tools.py:364, 371  self.tasks[cache_key] / self.tasks.get(cache_key) *)
| RqSet (args : list Z) (f : Z) (v : Z)    (* tools.py:374       self.tasks[cache_key] = task *)
| RqPop (args : list Z) (f : Z).           (* tools.py:372, 387  del self.tasks[cache_key] / self.tasks.pop(cache_key, None) *)

Inductive response := RsNone | RsFound (v : Z) | RsMissing.

(* one access, made by thread i: the key is built with the CURRENT thread *)
Definition serve (i : tid) (rq : request) (d : dmap) : dmap * response :=
  match rq with
  | RqNone => (d, RsNone)
  | RqGet a f => (d, match d_get (a, i, f) d with Some v => RsFound v | None => RsMissing end)
  | RqSet a f v => (d_set (a, i, f) v d, RsNone)
  | RqPop a f => (d_pop (a, i, f) d, RsNone)
  end.

(* the entries of the dict whose key names thread i / does not name thread i *)
Definition owned (i : tid) (d : dmap) : dmap := filter (fun kv => Nat.eqb (dk_thread (fst kv)) i) d.
Definition others (i : tid) (d : dmap) : dmap := filter (fun kv => negb (Nat.eqb (dk_thread (fst kv)) i)) d.

Section Machine.
  Variable RO : Type.                 (* process-wide, read-only: _debug.options *)
  Variable local : Type.              (* everything a thread keeps in threading.local slots, its ContextVar
                                         context, and the private objects of the program it runs *)
  Variable next_request : RO -> local -> request.          (* arbitrary thread code ...            *)
  Variable advance : RO -> local -> response -> local.     (* ... continued after the access       *)

  Record global := mkG {
    g_ro : RO;
    g_loc : tid -> local;             (* threading.local: one slot per thread *)
    g_dedup : dmap                    (* DeduplicateDecorator.tasks: one dict per process *)
  }.

  Definition upd (i : tid) (l : local) (m : tid -> local) : tid -> local :=
    fun j => if Nat.eqb j i then l else m j.

  (* thread i runs up to and including its next access to the shared dict *)
  Definition step (i : tid) (g : global) : global :=
    let l := g_loc g i in
    let rq := next_request (g_ro g) l in
    let '(d', rs) := serve i rq (g_dedup g) in
    mkG (g_ro g) (upd i (advance (g_ro g) l rs) (g_loc g)) d'.

  (* an interleaving is any list of thread ids *)
  Fixpoint run (sch : list tid) (g : global) : global :=
    match sch with
    | [] => g
    | i :: r => run r (step i g)
    end.

  (* thread i alone, n steps *)
  Definition solo (i : tid) (n : nat) (g : global) : global := run (repeat i n) g.

  Definition count (i : tid) (sch : list tid) : nat := length (filter (Nat.eqb i) sch).

  (* The same machine with the thread component of the key computed from the thread by `ident`.
     `step` is `step_by (fun i => i)`: the key holds the Thread object (tools.py:353
     threading.current_thread()), which the dict keeps alive, so it is never the key component of any other
     thread, dead or alive.  A number that the OS hands out again after a thread has exited (pthread ident,
     threading.get_ident()) is an `ident` that is not injective over the threads of a process' lifetime. *)
  Definition step_by (ident : tid -> nat) (i : tid) (g : global) : global :=
    let l := g_loc g i in
    let rq := next_request (g_ro g) l in
    let '(d', rs) := serve (ident i) rq (g_dedup g) in
    mkG (g_ro g) (upd i (advance (g_ro g) l rs) (g_loc g)) d'.

  Fixpoint run_by (ident : tid -> nat) (sch : list tid) (g : global) : global :=
    match sch with
    | [] => g
    | i :: r => run_by ident r (step_by ident i g)
    end.
End Machine.

Arguments mkG {RO local}.
Arguments g_ro {RO local}.
Arguments g_loc {RO local}.
Arguments g_dedup {RO local}.
Arguments upd {local}.
Arguments step {RO local}.
Arguments run {RO local}.
Arguments solo {RO local}.
Arguments step_by {RO local}.
Arguments run_by {RO local}.

(* ------------------------------------------------------------------------------------------- *)
(* Part 2 — what asynq keeps per thread, driven by a small op language                           *)
(* ------------------------------------------------------------------------------------------- *)

Inductive tname := TN (n : Z) | TD (kind key : Z).      (* a task of the generated program / dleaf(kind, key) *)
Inductive ctx := CNone | CLog (cid : Z) | COv (v : Z).  (* no context / logging AsyncContext / sv.override(v) *)

(* one computation; every DebugBatchItem is created before the first flush ("one wave") *)
Inductive comp :=
| Node (n : Z) (c : ctx) (ch : list comp)     (* with c: rs = yield [children...]; return rs           *)
| Leaf (n : Z) (c : ctx) (kind key : Z)       (* with c: v = yield DebugBatchItem(kind, key); return v *)
| DLeaf (kind key : Z)                        (* the @deduplicate()d function dleaf(kind, key)         *)
| Spec (kind key : Z).                        (* as a child: the parent calls dleaf.asynq(kind, key) and does NOT
                                                 yield the task (created speculatively, never awaited here): its
                                                 entry stays in DeduplicateDecorator.tasks, tools.py:357-383 *)

Inductive op :=
| OItem (kind key : Z)      (* DebugBatchItem(kind, key) outside any task                    *)
| OFlush (kind : Z)         (* flush the thread's current batch of that kind, if it has items *)
| ORun (c : comp)           (* root(...).value()                                              *)
| OProf                     (* profiler.flush()                                               *)
| OPReset                   (* profiler.reset()                                               *)
| OSpec (kind key : Z)      (* dleaf.asynq(kind, key) outside any task, never awaited: the thread may
                               even exit with the entry still in the shared dict               *)
| OSched                    (* str(get_scheduler()), get_active_task()                        *)
| OReset                    (* asynq.scheduler.reset()                                        *)
| OAio (v : Z)              (* asyncio.run(fn.asyncio(v)): is_asyncio_mode() inside / after   *)
| OFinal.                   (* end of program: which top-level items are computed             *)

Inductive rv := RInt (z : Z) | RList (l : list rv).
Inductive pentry := PTask (t : tname) (id : Z) | PBatch.   (* entry of a computed task (its name, its _id) / of a flushed batch *)

Inductive event :=
| EItem (kind key idx pos id : Z)                      (* batch.index, item.index, item._id        *)
| EFlush (top : bool) (kind idx : Z) (keys : list Z)   (* composition of a flushed batch           *)
| ENoFlush (kind : Z)
| EProbe (t : tname) (pt : Z) (active : option tname) (sv : Z)   (* get_active_task(), sv.get() *)
| ECtx (resume : bool) (cid : Z)
| EResult (r : rv)
| ENew (t : tname) (id : Z)                            (* fn.asynq(...) made a new task; its _id (0 without the option) *)
| EOld (t : tname) (id : Z)                            (* the deduplicated call returned an existing task of this thread *)
| EProf (l : list pentry)
| ESched (id ntasks nbatches : Z) (active : option tname)
| EAio (inside after : bool) (r : Z)
| EFinal (l : list bool)
| ETie.                                                (* two batches of maximal priority: order unspecified *)

Definition item := (Z * Z * option tname)%type.        (* key, _id, the leaf task awaiting it *)

Record lstate := mkL {
  s_lastid : Z;
  s_active : option tname;
  s_batches : list (Z * Z);
  d_reg : list (Z * (Z * list item));
  p_stats : list pentry;
  p_counter : Z;
  a_mode : bool;
  u_sv : Z;
  u_ovold : list (tname * Z);
  u_started : list tname;
  u_ids : list (tname * Z);
  u_flushed : list (Z * Z);
  u_leafbatch : list (tname * (Z * Z));
  u_vals : list (tname * Z);
  u_res : list (tname * rv);
  u_top : list (Z * Z);
  u_hnext : Z;
  u_hand : list (tname * Z);
  u_pend : list (Z * Z);
  x_out : list event;
  x_log : list response
}.

Definition set_s_lastid (v : Z) (s : lstate) : lstate :=
  mkL v (s_active s) (s_batches s) (d_reg s) (p_stats s) (p_counter s) (a_mode s) (u_sv s) (u_ovold s) (u_started s) (u_ids s) (u_flushed s) (u_leafbatch s) (u_vals s) (u_res s) (u_top s) (u_hnext s) (u_hand s) (u_pend s) (x_out s) (x_log s).
Definition set_s_active (v : option tname) (s : lstate) : lstate :=
  mkL (s_lastid s) v (s_batches s) (d_reg s) (p_stats s) (p_counter s) (a_mode s) (u_sv s) (u_ovold s) (u_started s) (u_ids s) (u_flushed s) (u_leafbatch s) (u_vals s) (u_res s) (u_top s) (u_hnext s) (u_hand s) (u_pend s) (x_out s) (x_log s).
Definition set_s_batches (v : list (Z * Z)) (s : lstate) : lstate :=
  mkL (s_lastid s) (s_active s) v (d_reg s) (p_stats s) (p_counter s) (a_mode s) (u_sv s) (u_ovold s) (u_started s) (u_ids s) (u_flushed s) (u_leafbatch s) (u_vals s) (u_res s) (u_top s) (u_hnext s) (u_hand s) (u_pend s) (x_out s) (x_log s).
Definition set_d_reg (v : list (Z * (Z * list item))) (s : lstate) : lstate :=
  mkL (s_lastid s) (s_active s) (s_batches s) v (p_stats s) (p_counter s) (a_mode s) (u_sv s) (u_ovold s) (u_started s) (u_ids s) (u_flushed s) (u_leafbatch s) (u_vals s) (u_res s) (u_top s) (u_hnext s) (u_hand s) (u_pend s) (x_out s) (x_log s).
Definition set_p_stats (v : list pentry) (s : lstate) : lstate :=
  mkL (s_lastid s) (s_active s) (s_batches s) (d_reg s) v (p_counter s) (a_mode s) (u_sv s) (u_ovold s) (u_started s) (u_ids s) (u_flushed s) (u_leafbatch s) (u_vals s) (u_res s) (u_top s) (u_hnext s) (u_hand s) (u_pend s) (x_out s) (x_log s).
Definition set_p_counter (v : Z) (s : lstate) : lstate :=
  mkL (s_lastid s) (s_active s) (s_batches s) (d_reg s) (p_stats s) v (a_mode s) (u_sv s) (u_ovold s) (u_started s) (u_ids s) (u_flushed s) (u_leafbatch s) (u_vals s) (u_res s) (u_top s) (u_hnext s) (u_hand s) (u_pend s) (x_out s) (x_log s).
Definition set_a_mode (v : bool) (s : lstate) : lstate :=
  mkL (s_lastid s) (s_active s) (s_batches s) (d_reg s) (p_stats s) (p_counter s) v (u_sv s) (u_ovold s) (u_started s) (u_ids s) (u_flushed s) (u_leafbatch s) (u_vals s) (u_res s) (u_top s) (u_hnext s) (u_hand s) (u_pend s) (x_out s) (x_log s).
Definition set_u_sv (v : Z) (s : lstate) : lstate :=
  mkL (s_lastid s) (s_active s) (s_batches s) (d_reg s) (p_stats s) (p_counter s) (a_mode s) v (u_ovold s) (u_started s) (u_ids s) (u_flushed s) (u_leafbatch s) (u_vals s) (u_res s) (u_top s) (u_hnext s) (u_hand s) (u_pend s) (x_out s) (x_log s).
Definition set_u_ovold (v : list (tname * Z)) (s : lstate) : lstate :=
  mkL (s_lastid s) (s_active s) (s_batches s) (d_reg s) (p_stats s) (p_counter s) (a_mode s) (u_sv s) v (u_started s) (u_ids s) (u_flushed s) (u_leafbatch s) (u_vals s) (u_res s) (u_top s) (u_hnext s) (u_hand s) (u_pend s) (x_out s) (x_log s).
Definition set_u_started (v : list tname) (s : lstate) : lstate :=
  mkL (s_lastid s) (s_active s) (s_batches s) (d_reg s) (p_stats s) (p_counter s) (a_mode s) (u_sv s) (u_ovold s) v (u_ids s) (u_flushed s) (u_leafbatch s) (u_vals s) (u_res s) (u_top s) (u_hnext s) (u_hand s) (u_pend s) (x_out s) (x_log s).
Definition set_u_ids (v : list (tname * Z)) (s : lstate) : lstate :=
  mkL (s_lastid s) (s_active s) (s_batches s) (d_reg s) (p_stats s) (p_counter s) (a_mode s) (u_sv s) (u_ovold s) (u_started s) v (u_flushed s) (u_leafbatch s) (u_vals s) (u_res s) (u_top s) (u_hnext s) (u_hand s) (u_pend s) (x_out s) (x_log s).
Definition set_u_flushed (v : list (Z * Z)) (s : lstate) : lstate :=
  mkL (s_lastid s) (s_active s) (s_batches s) (d_reg s) (p_stats s) (p_counter s) (a_mode s) (u_sv s) (u_ovold s) (u_started s) (u_ids s) v (u_leafbatch s) (u_vals s) (u_res s) (u_top s) (u_hnext s) (u_hand s) (u_pend s) (x_out s) (x_log s).
Definition set_u_leafbatch (v : list (tname * (Z * Z))) (s : lstate) : lstate :=
  mkL (s_lastid s) (s_active s) (s_batches s) (d_reg s) (p_stats s) (p_counter s) (a_mode s) (u_sv s) (u_ovold s) (u_started s) (u_ids s) (u_flushed s) v (u_vals s) (u_res s) (u_top s) (u_hnext s) (u_hand s) (u_pend s) (x_out s) (x_log s).
Definition set_u_vals (v : list (tname * Z)) (s : lstate) : lstate :=
  mkL (s_lastid s) (s_active s) (s_batches s) (d_reg s) (p_stats s) (p_counter s) (a_mode s) (u_sv s) (u_ovold s) (u_started s) (u_ids s) (u_flushed s) (u_leafbatch s) v (u_res s) (u_top s) (u_hnext s) (u_hand s) (u_pend s) (x_out s) (x_log s).
Definition set_u_res (v : list (tname * rv)) (s : lstate) : lstate :=
  mkL (s_lastid s) (s_active s) (s_batches s) (d_reg s) (p_stats s) (p_counter s) (a_mode s) (u_sv s) (u_ovold s) (u_started s) (u_ids s) (u_flushed s) (u_leafbatch s) (u_vals s) v (u_top s) (u_hnext s) (u_hand s) (u_pend s) (x_out s) (x_log s).
Definition set_u_top (v : list (Z * Z)) (s : lstate) : lstate :=
  mkL (s_lastid s) (s_active s) (s_batches s) (d_reg s) (p_stats s) (p_counter s) (a_mode s) (u_sv s) (u_ovold s) (u_started s) (u_ids s) (u_flushed s) (u_leafbatch s) (u_vals s) (u_res s) v (u_hnext s) (u_hand s) (u_pend s) (x_out s) (x_log s).
Definition set_u_hnext (v : Z) (s : lstate) : lstate :=
  mkL (s_lastid s) (s_active s) (s_batches s) (d_reg s) (p_stats s) (p_counter s) (a_mode s) (u_sv s) (u_ovold s) (u_started s) (u_ids s) (u_flushed s) (u_leafbatch s) (u_vals s) (u_res s) (u_top s) v (u_hand s) (u_pend s) (x_out s) (x_log s).
Definition set_u_hand (v : list (tname * Z)) (s : lstate) : lstate :=
  mkL (s_lastid s) (s_active s) (s_batches s) (d_reg s) (p_stats s) (p_counter s) (a_mode s) (u_sv s) (u_ovold s) (u_started s) (u_ids s) (u_flushed s) (u_leafbatch s) (u_vals s) (u_res s) (u_top s) (u_hnext s) v (u_pend s) (x_out s) (x_log s).
Definition set_u_pend (v : list (Z * Z)) (s : lstate) : lstate :=
  mkL (s_lastid s) (s_active s) (s_batches s) (d_reg s) (p_stats s) (p_counter s) (a_mode s) (u_sv s) (u_ovold s) (u_started s) (u_ids s) (u_flushed s) (u_leafbatch s) (u_vals s) (u_res s) (u_top s) (u_hnext s) (u_hand s) v (x_out s) (x_log s).
Definition set_x_out (v : list event) (s : lstate) : lstate :=
  mkL (s_lastid s) (s_active s) (s_batches s) (d_reg s) (p_stats s) (p_counter s) (a_mode s) (u_sv s) (u_ovold s) (u_started s) (u_ids s) (u_flushed s) (u_leafbatch s) (u_vals s) (u_res s) (u_top s) (u_hnext s) (u_hand s) (u_pend s) v (x_log s).
Definition set_x_log (v : list response) (s : lstate) : lstate :=
  mkL (s_lastid s) (s_active s) (s_batches s) (d_reg s) (p_stats s) (p_counter s) (a_mode s) (u_sv s) (u_ovold s) (u_started s) (u_ids s) (u_flushed s) (u_leafbatch s) (u_vals s) (u_res s) (u_top s) (u_hnext s) (u_hand s) (u_pend s) (x_out s) v.

Definition tname_eqb (a b : tname) : bool :=
  match a, b with
  | TN x, TN y => Z.eqb x y
  | TD k x, TD k' y => Z.eqb k k' && Z.eqb x y
  | _, _ => false
  end.

Definition pair_eqb (a b : Z * Z) : bool := Z.eqb (fst a) (fst b) && Z.eqb (snd a) (snd b).

Fixpoint zget {A} (k : Z) (l : list (Z * A)) : option A :=
  match l with [] => None | (k', v) :: r => if Z.eqb k k' then Some v else zget k r end.
Fixpoint zput {A} (k : Z) (v : A) (l : list (Z * A)) : list (Z * A) :=
  match l with
  | [] => [(k, v)]
  | (k', v') :: r => if Z.eqb k k' then (k, v) :: r else (k', v') :: zput k v r
  end.
Fixpoint tget {A} (k : tname) (l : list (tname * A)) : option A :=
  match l with [] => None | (k', v) :: r => if tname_eqb k k' then Some v else tget k r end.
Definition tmem (k : tname) (l : list tname) : bool := existsb (tname_eqb k) l.
Definition bmem (b : Z * Z) (l : list (Z * Z)) : bool := existsb (pair_eqb b) l.

(* a fresh thread: threading.local __init__ ran once in it (scheduler.py:303-310: last_id 0, then the
   first TaskScheduler() bumps it to 1), empty registry, empty profiler, asyncio mode off *)
Definition init_lstate : lstate :=
  mkL 1 None [] [] [] 0 false 0 [] [] [] [] [] [] [] [] 0 [] [] [] [].

(* the local code asks for an access to the shared dict; answered from the replay log if the answer
   is already known, otherwise the op stops here with the request *)
Inductive res (A : Type) := Go (a : A) (s : lstate) | Ask (rq : request).
Arguments Go {A}. Arguments Ask {A}.
Definition M (A : Type) := lstate -> res A.
Definition ret {A} (a : A) : M A := fun s => Go a s.
Definition bind {A B} (m : M A) (f : A -> M B) : M B :=
  fun s => match m s with Go a s' => f a s' | Ask rq => Ask rq end.
Notation "x <- m ;; f" := (bind m (fun x => f)) (at level 61, m at next level, right associativity).
Notation "m ;;; f" := (bind m (fun _ => f)) (at level 61, right associativity).
Definition get : M lstate := fun s => Go s s.
Definition modify (f : lstate -> lstate) : M unit := fun s => Go tt (f s).
Definition ask (rq : request) : M response :=
  fun s => match x_log s with r :: rest => Go r (set_x_log rest s) | [] => Ask rq end.

Definition ev (e : event) : M unit := modify (fun s => set_x_out (e :: x_out s) s).

Definition FN_DLEAF : Z := 1.       (* id(dleaf.fn): one function shared by all threads *)

Section Local.
  Variable perf : bool.             (* _debug.options.COLLECT_PERF_STATS (process-wide, read-only) *)

  (* profiler.py:30-32 incr_counter, only under COLLECT_PERF_STATS (async_task.py:85-86, batching.py:217-220) *)
  Definition next_id : M Z :=
    s <- get ;;
    if perf then modify (set_p_counter (p_counter s + 1)) ;;; ret (p_counter s + 1) else ret 0.

  Definition prof_append (e : pentry) : M unit :=      (* profiler.py:21-22 *)
    if perf then modify (fun s => set_p_stats (p_stats s ++ [e]) s) else ret tt.

  (* get_active_task() and the scoped value, as the running code sees them *)
  Definition probe (t : tname) (pt : Z) : M unit :=
    s <- get ;; ev (EProbe t pt (s_active s) (u_sv s)).

  (* contexts.py:86-101 __enter__/__exit__, async_task.py:395-430 _pause_contexts/_resume_contexts;
     scoped_value.py:59-70 override: resume saves the current value and installs v, pause restores *)
  Definition ctx_resume (t : tname) (c : ctx) : M unit :=
    match c with
    | CNone => ret tt
    | CLog cid => ev (ECtx true cid)
    | COv v => modify (fun s => set_u_sv v (set_u_ovold ((t, u_sv s) :: u_ovold s) s))
    end.
  Definition ctx_pause (t : tname) (c : ctx) : M unit :=
    match c with
    | CNone => ret tt
    | CLog cid => ev (ECtx false cid)
    | COv v => modify (fun s => set_u_sv (match tget t (u_ovold s) with Some o => o | None => 0 end) s)
    end.

  (* batching.py:234-243 DebugBatchItem.__init__: setdefault in THIS THREAD's registry, append, _id *)
  Definition new_item (owner : option tname) (kind key : Z) : M (Z * Z) :=
    s <- get ;;
    let '(idx, items) := match zget kind (d_reg s) with Some b => b | None => (0, []) end in
    id <- next_id ;;
    modify (fun s => set_d_reg (zput kind (idx, items ++ [(key, id, owner)]) (d_reg s)) s) ;;;
    ev (EItem kind key idx (Z.of_nat (length items)) id) ;;;
    ret (kind, idx).

  (* AsyncTask.__init__ (async_task.py:58-86): creator = active task, _id.  u_pend remembers the _id of
     every task object this thread made (by identity), for tasks that outlive the computation that
     created them (un-awaited deduplicated calls) *)
  Definition new_task (t : tname) : M unit :=
    id <- next_id ;;
    modify (fun s => set_u_ids ((t, id) :: u_ids s)
                       (set_u_hand ((t, u_hnext s) :: u_hand s)
                          (set_u_pend ((u_hnext s, id) :: u_pend s) (set_u_hnext (u_hnext s + 1) s)))) ;;;
    ev (ENew t id).

  (* the identity of the task object, as stored in the shared dict *)
  Definition handle (t : tname) (s : lstate) : Z :=
    match tget t (u_hand s) with Some h => h | None => -1 end.

  Definition comp_name (c : comp) : tname :=
    match c with Node n _ _ => TN n | Leaf n _ _ _ => TN n | DLeaf k x => TD k x | Spec k x => TD k x end.

  (* the children a node yields (a Spec child is created but not yielded) *)
  Definition is_spec (c : comp) : bool := match c with Spec _ _ => true | _ => false end.
  Definition awaited (l : list comp) : list comp := filter (fun c => negb (is_spec c)) l.

  (* what the parent's body does for one child: fn.asynq(...);
     tools.py:357-383 DeduplicateDecorator.asynq: lookup with the current thread in the key, create and
     register on a miss *)
  (* a hit returns the registered task object (tools.py:364, 379-383; `task.running` is false for a task
     that is not executing right now).  It may have been created by an earlier computation or an earlier
     top-level call of this thread: the thread knows the object, hence its _id *)
  Definition mk_dedup (k x : Z) : M unit :=
    r <- ask (RqGet [k; x] FN_DLEAF) ;;
    match r with
    | RsFound h =>
        s <- get ;;
        let id := match zget h (u_pend s) with Some i => i | None => 0 end in
        modify (fun s => set_u_hand ((TD k x, h) :: u_hand s) (set_u_ids ((TD k x, id) :: u_ids s) s)) ;;;
        ev (EOld (TD k x) id)
    | _ => new_task (TD k x) ;;; s <- get ;;
           _ <- ask (RqSet [k; x] FN_DLEAF (handle (TD k x) s)) ;; ret tt
    end.

  Definition mk (c : comp) : M unit :=
    match c with
    | DLeaf k x => mk_dedup k x
    | Spec k x => mk_dedup k x
    | _ => new_task (comp_name c)
    end.

  Fixpoint mk_all (l : list comp) : M unit :=
    match l with [] => ret tt | c :: r => mk c ;;; mk_all r end.

  Definition is_done (t : tname) (s : lstate) : bool :=
    match tget t (u_res s) with Some _ => true | None => false end.

  (* FutureBase._computed -> on_computed; deduplicate's callback (tools.py:368-372) removes the entry
     only if it still is this task: `if self.tasks.get(cache_key) is task: del self.tasks[cache_key]`;
     scheduler.py:194-195: a computed task appends its perf stats *)
  Definition complete (t : tname) (r : rv) : M unit :=
    modify (fun s => set_u_res ((t, r) :: u_res s) s) ;;;
    match t with
    | TD k x =>
        f <- ask (RqGet [k; x] FN_DLEAF) ;;
        s <- get ;;
        match f with
        | RsFound h => if Z.eqb h (handle t s) then _ <- ask (RqPop [k; x] FN_DLEAF) ;; ret tt else ret tt
        | _ => ret tt
        end
    | _ => ret tt
    end ;;;
    s <- get ;;
    prof_append (PTask t (match tget t (u_ids s) with Some i => i | None => 0 end)).

  (* scheduler.py:180-204 _continue_with_task: active_task := task around task._continue() *)
  Definition with_active {A} (t : tname) (m : M A) : M A :=
    s <- get ;;
    modify (set_s_active (Some t)) ;;;
    a <- m ;;
    modify (set_s_active (s_active s)) ;;;
    ret a.

  Definition result_of (c : comp) (s : lstate) : rv :=
    match tget (comp_name c) (u_res s) with Some r => r | None => RList [] end.

  (* scheduler.py:118-128 _schedule_batch *)
  Definition schedule_batch (b : Z * Z) : M unit :=
    modify (fun s => if bmem b (u_flushed s) || bmem b (s_batches s) then s
                     else set_s_batches (s_batches s ++ [b]) s).

  Definition leaf_blocked (t : tname) (s : lstate) : bool :=
    match tget t (u_leafbatch s) with Some b => negb (bmem b (u_flushed s)) | None => true end.

  (* first and later visits of a leaf by TaskScheduler._execute / _handle_async_task (scheduler.py:76-178) *)
  Definition visit_leaf (t : tname) (c : ctx) (kind key : Z) : M unit :=
    s <- get ;;
    if is_done t s then ret tt else
    let fresh := negb (tmem t (u_started s)) in
    (if fresh then
       with_active t (probe t 0 ;;; ctx_resume t c ;;;
                      b <- new_item (Some t) kind key ;;
                      modify (fun s => set_u_started (t :: u_started s) (set_u_leafbatch ((t, b) :: u_leafbatch s) s)))
     else ret tt) ;;;
    s <- get ;;
    if negb fresh && negb (leaf_blocked t s) then
      (* not blocked any more: _continue_with_task resumes the contexts and runs the rest of the body *)
      ctx_resume t c ;;;
      with_active t (probe t 1 ;;; ctx_pause t c ;;; probe t 2 ;;;
                     s <- get ;; complete t (RInt (match tget t (u_vals s) with Some v => v | None => -1 end)))
    else
      (* blocked on its item: dependencies scheduled (contexts resumed if they were paused), the item's
         batch is scheduled, then the task is skipped and its contexts paused *)
      (if fresh then ret tt else ctx_resume t c) ;;;
      match tget t (u_leafbatch s) with Some b => schedule_batch b | None => ret tt end ;;;
      ctx_pause t c.

  Fixpoint visit (t : comp) {struct t} : M unit :=
    let fix visit_list (l : list comp) : M unit :=
        match l with [] => ret tt | c :: r => visit c ;;; visit_list r end in
    match t with
    | Leaf n c kind key => visit_leaf (TN n) c kind key
    | DLeaf kind key => visit_leaf (TD kind key) CNone kind key
    | Spec _ _ => ret tt                      (* never yielded, so never scheduled *)
    | Node n c all =>
        let ch := awaited all in
        let t := TN n in
        let blocked := fun s => existsb (fun c => negb (is_done (comp_name c) s)) ch in
        let finish := with_active t (probe t 1 ;;; ctx_pause t c ;;; probe t 2 ;;;
                                     s <- get ;; complete t (RList (map (fun c => result_of c s) ch))) in
        s <- get ;;
        if is_done t s then ret tt else
        let fresh := negb (tmem t (u_started s)) in
        (if fresh then
           with_active t (probe t 0 ;;; ctx_resume t c ;;; mk_all all ;;;
                          modify (fun s => set_u_started (t :: u_started s) s) ;;;
                          (* yield []: no dependencies, AsyncTask._continue goes on in the same call *)
                          match ch with
                          | [] => probe t 1 ;;; ctx_pause t c ;;; probe t 2 ;;; complete t (RList [])
                          | _ => ret tt
                          end)
         else ret tt) ;;;
        s <- get ;;
        if is_done t s then ret tt else
        if negb fresh && negb (blocked s) then ctx_resume t c ;;; finish
        else
          (if fresh then ret tt else ctx_resume t c) ;;;
          visit_list all ;;;                  (* a Spec child is skipped by `visit` *)
          s <- get ;;
          if blocked s then ctx_pause t c else finish
    end.

  (* scheduler.py:225-254 _select_batch_to_flush: greatest (0, len(items)); the set's iteration order
     decides among equals (ETie marks that the choice was not forced) *)
  Definition batch_size (b : Z * Z) (s : lstate) : Z :=
    match zget (fst b) (d_reg s) with
    | Some (idx, items) => if Z.eqb idx (snd b) then Z.of_nat (length items) else 0
    | None => 0
    end.

  Fixpoint select (l : list (Z * Z)) (s : lstate) (best : option (Z * Z)) (tie : bool) : option (Z * Z) * bool :=
    match l with
    | [] => (best, tie)
    | b :: r =>
        if bmem b (u_flushed s) || Z.eqb (batch_size b s) 0 then select r s best tie else
        match best with
        | None => select r s (Some b) false
        | Some b0 =>
            if Z.ltb (batch_size b0 s) (batch_size b s) then select r s (Some b) false
            else select r s best (tie || Z.eqb (batch_size b0 s) (batch_size b s))
        end
    end.

  (* BatchBase.flush -> _compute (batching.py:64-116): switch the registry entry of THIS THREAD to a new
     batch (index + 1), give every item its value *)
  Definition do_flush (top : bool) (b : Z * Z) : M unit :=
    s <- get ;;
    match zget (fst b) (d_reg s) with
    | Some (idx, items) =>
        if Z.eqb idx (snd b) then
          ev (EFlush top (fst b) idx (map (fun it => fst (fst it)) items)) ;;;
          modify (fun s => set_d_reg (zput (fst b) (idx + 1, []) (d_reg s)) s) ;;;
          modify (fun s => set_u_vals (fold_right (fun (it : item) acc =>
                                         match snd it with Some t => (t, fst (fst it)) :: acc | None => acc end)
                                       (u_vals s) items) s) ;;;
          modify (fun s => set_u_flushed (b :: u_flushed s) s)
        else ret tt
    | None => ret tt
    end.

  (* scheduler.py:206-223 _continue_with_batch + 130-141 _flush_batch *)
  Definition flush_one : M unit :=
    s <- get ;;
    match select (s_batches s) s None false with
    | (Some b, tie) =>
        (if tie then ev ETie else ret tt) ;;;
        modify (fun s => set_s_batches (filter (fun b' => negb (pair_eqb b b') && negb (bmem b' (u_flushed s))) (s_batches s)) s) ;;;
        do_flush false b ;;;
        prof_append PBatch
    | (None, _) => ret tt
    end.

  (* scheduler.py:63-74 wait_for *)
  Fixpoint drive (fuel : nat) (root : comp) : M unit :=
    match fuel with
    | O => ret tt
    | S f =>
        visit root ;;;
        s <- get ;;
        if is_done (comp_name root) s then ret tt else flush_one ;;; drive f root
    end.

  Fixpoint comp_size (c : comp) : nat :=
    match c with
    | Node _ _ ch => S (fold_right (fun c acc => comp_size c + acc)%nat O ch)
    | _ => 1%nat
    end.

  Definition run_op (o : op) : M unit :=
    match o with
    | OItem kind key =>
        b <- new_item None kind key ;; modify (fun s => set_u_top (u_top s ++ [b]) s)
    | OFlush kind =>
        s <- get ;;
        match zget kind (d_reg s) with
        | Some (idx, _ :: _) => do_flush true (kind, idx)
        | _ => ev (ENoFlush kind)
        end
    | ORun c0 =>
        let c := match c0 with Spec k x => DLeaf k x | _ => c0 end in
        modify (fun s => set_u_ovold [] (set_u_started [] (set_u_ids [] (set_u_leafbatch []
                          (set_u_vals [] (set_u_res [] (set_u_hand [] s))))))) ;;;
        mk c ;;;
        s <- get ;;
        drive (comp_size c + length (d_reg s) + 2) c ;;;
        s <- get ;;
        ev (EResult (result_of c s))
    | OProf =>                                       (* profiler.py:15-18, 25-27 *)
        s <- get ;;
        ev (EProf (p_stats s)) ;;; modify (fun s => set_p_counter 0 (set_p_stats [] s))
    | OPReset =>                                     (* profiler.py:25-27 *)
        modify (fun s => set_p_counter 0 (set_p_stats [] s))
    | OSpec kind key => mk_dedup kind key            (* creator = None; the task is dropped *)
    | OSched =>
        s <- get ;;
        ev (ESched (s_lastid s) 0 (Z.of_nat (length (s_batches s))) (s_active s))
    | OReset =>                                      (* scheduler.py:303-310, 321-322, 44-61 *)
        modify (fun s => set_s_lastid (s_lastid s + 1) (set_s_batches [] (set_s_active None s)))
    | OAio v =>                                      (* asynq_to_async.py:73-90 AsyncioMode *)
        modify (set_a_mode true) ;;;
        s <- get ;;
        modify (set_a_mode false) ;;;
        s' <- get ;;
        ev (EAio (a_mode s) (a_mode s') v)
    | OFinal =>
        s <- get ;; ev (EFinal (map (fun b => bmem b (u_flushed s)) (u_top s)))
    end.

  (* The thread as a (next_request, advance) machine: the current op is re-run from the state at its
     start with the answers received so far; it either needs one more access or finishes. *)
  Record local := mkLoc {
    l_base : lstate;                 (* state when the current op started *)
    l_prog : list op;                (* current op and the rest of the program *)
    l_log : list response;           (* answers to the current op's accesses so far *)
    l_trace : list (list event)      (* events of the finished ops, one list per op *)
  }.

  Definition big (o : op) (base : lstate) (log : list response) : res unit :=
    run_op o (set_x_log log (set_x_out [] base)).

  Definition next_request (l : local) : request :=
    match l_prog l with
    | [] => RqNone
    | o :: _ => match big o (l_base l) (l_log l) with Ask rq => rq | Go _ _ => RqNone end
    end.

  Definition advance (l : local) (rs : response) : local :=
    match l_prog l with
    | [] => l
    | o :: rest =>
        match big o (l_base l) (l_log l) with
        | Ask _ => mkLoc (l_base l) (l_prog l) (l_log l ++ [rs]) (l_trace l)
        | Go _ s' => mkLoc s' rest [] (l_trace l ++ [rev (x_out s')])
        end
    end.
End Local.

Definition init_local (p : list op) : local := mkLoc init_lstate (p ++ [OFinal]) [] [].

Definition proc := @global bool local.

Definition init_global (perf : bool) (progs : list (list op)) : proc :=
  mkG perf (fun i => init_local (nth i progs [])) [].

Definition tstep : tid -> proc -> proc := step next_request advance.
Definition trun : list tid -> proc -> proc := run next_request advance.

(* enough steps to finish any program of the case: every op makes at most 4 accesses per task *)
Definition op_steps (o : op) : nat :=
  match o with ORun c => (4 * comp_size c + 2)%nat | OSpec _ _ => 3%nat | _ => 1%nat end.
Definition prog_steps (p : list op) : nat := (fold_right (fun o acc => op_steps o + acc) 2 p)%nat.

(* Thread generations: the threads of a case are started in groups; a group is started only after every
   thread of the previous group has finished (threading.Thread.join), so a later thread may be given the
   OS ident of a dead one — its Thread object, the key component (tools.py:353), is still a different one.
   `sizes` = group sizes in thread-id order, `schs` = one arbitrary interleaving per group (ids outside
   the group are dropped), each followed by enough steps for every thread of the group to finish. *)
Fixpoint gen_schedule (progs : list (list op)) (start : nat) (sizes : list nat) (schs : list (list nat)) : list nat :=
  match sizes with
  | [] => []
  | n :: r =>
      let ids := seq start n in
      filter (fun i => existsb (Nat.eqb i) ids) (hd [] schs)
      ++ flat_map (fun i => repeat i (prog_steps (nth i progs []))) ids
      ++ gen_schedule progs (start + n) r (tl schs)
  end.

(* what the correspondence compares: per thread, the events of each op,
   (a) after the generation-wise interleaving (then letting every thread finish), (b) when run alone *)
Definition run_case (perf : bool) (progs : list (list op)) (sizes : list nat) (schs : list (list nat))
  : list (list (list event)) * list (list (list event)) :=
  let n := length progs in
  let g0 := init_global perf progs in
  let fin := flat_map (fun i => repeat i (prog_steps (nth i progs []))) (seq 0 n) in
  let g := trun (gen_schedule progs 0 sizes schs ++ fin) g0 in
  (map (fun i => l_trace (g_loc g i)) (seq 0 n),
   map (fun i => l_trace (g_loc (trun (repeat i (prog_steps (nth i progs []))) g0) i)) (seq 0 n)).
