(* Base.v — values, exceptions, outcomes shared by all models.  Stdlib only. *)
From Coq Require Export ZArith List Bool Arith Lia.
Export ListNotations.
Open Scope Z_scope.

(* An exception *instance* is identified by an integer: each raise site / injected fault uses a
   fresh id, so "the same exception instance" is equality of ids.  A few negative ids are reserved
   for exceptions the library itself creates. *)
Definition exn := Z.
Definition E_TYPEERROR : exn := -1.       (* unwrap: not a future *)
Definition E_NOTSET : exn := -2.          (* AssertionError: value of this item wasn't set *)
Definition E_ALREADY : exn := -3.         (* FutureIsAlreadyComputed *)
Definition E_NOTIMPL : exn := -4.         (* NotImplementedError *)
Definition E_BATCHING : exn := -5.        (* BatchingError: already flushed or cancelled *)
Definition E_CANCELLED : exn := -6.       (* BatchCancelledError *)
Definition E_NONASYNC : exn := -7.        (* AssertionError of NonAsyncContext.pause/resume *)
Definition E_ADDFLUSHED : exn := -8.      (* AssertionError: can't add an item to a flushed batch *)
Definition E_RUNTIME : exn := -9.         (* RuntimeError *)
Definition E_STOPITER : exn := -10.       (* StopIteration *)

Inductive val :=
| VNone
| VInt (z : Z)
| VTuple (l : list val)
| VList (l : list val)
| VDict (l : list (Z * val)).

Inductive outcome := Ok (v : val) | Err (e : exn).

Fixpoint val_eqb (a b : val) {struct a} : bool :=
  let fix list_eqb (l1 l2 : list val) {struct l1} : bool :=
      match l1, l2 with
      | [], [] => true
      | x :: l1', y :: l2' => val_eqb x y && list_eqb l1' l2'
      | _, _ => false
      end in
  let fix dict_eqb (l1 l2 : list (Z * val)) {struct l1} : bool :=
      match l1, l2 with
      | [], [] => true
      | (k1, x) :: l1', (k2, y) :: l2' => Z.eqb k1 k2 && val_eqb x y && dict_eqb l1' l2'
      | _, _ => false
      end in
  match a, b with
  | VNone, VNone => true
  | VInt x, VInt y => Z.eqb x y
  | VTuple l1, VTuple l2 => list_eqb l1 l2
  | VList l1, VList l2 => list_eqb l1 l2
  | VDict l1, VDict l2 => dict_eqb l1 l2
  | _, _ => false
  end.

Definition outcome_eqb (a b : outcome) : bool :=
  match a, b with
  | Ok x, Ok y => val_eqb x y
  | Err x, Err y => Z.eqb x y
  | _, _ => false
  end.
