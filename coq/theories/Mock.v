(* Mock.v — executable model of asynq/mock_.py (C19).

   Verified (anchored to asynq/mock_.py):
     patch / _patch_object / _make_patch_async 36-143, _PatchAsync.__enter__ 146-155,
     _AsynqWrapper 189-212, _AsyncioWrapper 215-241, _maybe_wrap_new 244-280,
   and the parts of asynq/decorators.py the installed objects go through:
     AsyncDecoratorBinder 190-201, AsyncDecorator 204-230, AsyncAndSyncPairDecoratorBinder 233-238,
     AsyncAndSyncPairDecorator.__call__/__get__ 241-280, asynq() 322-361,
     qcore.decorators.DecoratorBase.__init__/__get__, DecoratorBinder.__call__.
   Modelled, not verified (CPython 3.12 unittest/mock.py): _patch.get_original, __enter__,
     __exit__, start, stop, _patch_stopall, decoration_helper / decorate_class (they reduce to
     __enter__/__exit__ pairs), MagicMock being a non-descriptor callable, the descriptor protocol.

   Two repairs are modelled (work/fixes/C19-*.diff, known/C19.json; both are in /repo now):
     - patch()/patch.object default autospec=None, so that new_callable can be used at all;
     - _PatchAsync.__enter__ undoes the patch when attaching .asynq/.asyncio fails, WHATEVER the
       exception the replacement refuses the attribute with (bare `except:` 157-162), and re-raises it.
   Object identity: _patch.__enter__ (mock.py) builds a NEW object on every activation when
   new is DEFAULT (MagicMock or new_callable()); an explicit new= object is the same object every
   time.  `ONew p g` = the object installed by patcher p, g = which activation made it (0 for an
   explicit object); `gen` counts the successful activations per patcher.
   Shared replacements: the SAME caller-supplied object may be given as new= to several patchers
   (`pshare` = the lowest patcher that was given it).  _maybe_wrap_new (244-280) runs once per
   patch() call: a function / bound method / attribute-refusing callable gets its OWN
   AsyncAndSyncPairDecorator / Wrapper per patcher (`ONew p 0`, all delegating to the one shared
   body `ONew (pshare) 0`), an object installed as is (callable object, Mock instance, class,
   @asynq function, non-callable) IS the one shared object `ONew (pshare) 0` in every slot.
   `attached` = the objects on which _PatchAsync.__enter__ 150-154 has set .asynq/.async/.asyncio;
   nothing in mock_.py ever takes them off again (there is no __exit__ override), which is what
   keeps a patch usable after an overlapping patch sharing its replacement has ended.            *)
From Asynq Require Export Base.

(* ------------------------------------------------------------------ static description *)
Inductive tkind := TModFn | TMethod | TInstMethod | TClassmethod | TStaticmethod | TAttr.

Inductive rkind :=
| RDefault            (* new=DEFAULT: _patch creates a MagicMock                                  *)
| RFunc               (* plain function / lambda                                                  *)
| RClassmethod        (* classmethod(function)                                                    *)
| RStaticmethod       (* staticmethod(function)                                                   *)
| RAsynqFn            (* an @asynq() function (AsyncDecorator object)                             *)
| RBound              (* bound method: attribute assignment raises AttributeError                 *)
| RCallableObj        (* instance with __call__ and a __dict__                                    *)
| RSlotsObj           (* instance with __call__ refusing attributes (__slots__ / cdef class)      *)
| RNonCallable        (* e.g. a string                                                            *)
| RNcMock             (* new_callable=MagicMock                                                   *)
| RNcObj              (* new_callable=<class with __call__ and __dict__>                          *)
| RNcSlots            (* new_callable=<class with __call__ and __slots__>: AttributeError on setattr *)
| RNcNonCallable      (* new_callable=NonCallableMock                                             *)
| RNcFrozen           (* new_callable=<class with __call__ whose __setattr__ raises TypeError>,
                         like a Cython cdef class                                                 *)
| RNcType             (* new_callable=lambda: <immutable builtin type, e.g. dict>: TypeError      *)
| RNcRaiser           (* new_callable=<class with __call__ whose __setattr__ raises RuntimeError> *)
| RMockObj            (* a Mock / MagicMock INSTANCE given as new=: callable, takes attributes     *)
| RClassObj.          (* a class given as new= (calling it runs the replacement's code)           *)

(* what the replacement's body does with its arguments: raises, or returns a value.  The KIND of value
   is part of the behaviour: a plain value (BRet), None, an exception INSTANCE handed back as data, or a
   FUTURE OBJECT as the result (a computed ConstFuture, a not yet started AsyncTask, an unflushed batch
   item).  A future object returned by the replacement is a value like any other: _AsynqWrapper.__call__
   199-200 puts whatever the replacement returned into a NEW ConstFuture (`FConst` below) and `value` /
   `yielded` take off exactly that one level, so every convention delivers the very object the body
   returned (`CReached _ _ b` carries the body's b unchanged). *)
Inductive beh := BRet | BRaise | BRetNone | BRetExc | BRetFut | BRetTask | BRetBatch.

(* DecoratorBase.type (qcore/decorators.py DecoratorBase.__init__) *)
Inductive ftype := FPlain | FCM | FSM.

(* what _maybe_wrap_new looks at (mock_.py 253-269) *)
Record newdesc := mkdesc {
  is_default : bool;          (* new is mock.DEFAULT                                   253 *)
  is_fn_cm_sm : bool;         (* inspect.isfunction(new) or classmethod/staticmethod   256 *)
  is_callable : bool;         (* callable(new)                                         258 *)
  takes_attrs : bool          (* new._maybe_wrap_new_test_attribute = None succeeds    261-269 *)
}.

Definition desc_of (r : rkind) : newdesc :=
  match r with
  | RDefault | RNcMock | RNcObj | RNcSlots | RNcNonCallable | RNcFrozen | RNcType | RNcRaiser =>
    mkdesc true false true true
  | RFunc => mkdesc false true true true
  | RClassmethod => mkdesc false true false true      (* classmethod objects are not callable *)
  | RStaticmethod => mkdesc false true true true
  | RAsynqFn => mkdesc false false true true
  | RBound => mkdesc false false true false
  | RCallableObj | RMockObj | RClassObj => mkdesc false false true true
  | RSlotsObj => mkdesc false false true false
  | RNonCallable => mkdesc false false false false
  end.

Inductive wrapres := WDefault | WPair | WAsIs | WWrapper.

(* mock_.py 244-280 *)
Definition maybe_wrap_new (d : newdesc) : wrapres :=
  if is_default d then WDefault
  else if is_fn_cm_sm d then WPair
  else if negb (is_callable d) then WAsIs
  else if takes_attrs d then WAsIs else WWrapper.

(* the exception with which an object refuses `obj.asynq = ...` *)
Inductive refusal := RefAttr | RefType | RefOther.

(* the object that ends up in the patched slot *)
Inductive inst :=
| IMock               (* MagicMock made by _patch.__enter__                                       *)
| IObj                (* attribute-accepting callable object, installed as is                      *)
| IWrapper            (* _maybe_wrap_new.Wrapper() delegating to new                     274-278 *)
| IPair (ft : ftype)  (* asynq(sync_fn=new)(new): AsyncAndSyncPairDecorator                 257 *)
| IAsynq              (* an AsyncDecorator given as new, installed as is                          *)
| ISlots (e : refusal) (* attribute-refusing callable made by new_callable, installed unwrapped   *)
| IPlain              (* non-callable, installed as is                                       259 *)
| IOrig (ft : ftype). (* the original @asynq() function / method (AsyncDecorator)                 *)

Definition ftype_of (r : rkind) : ftype :=
  match r with RClassmethod => FCM | RStaticmethod => FSM | _ => FPlain end.

Definition installed (r : rkind) : inst :=
  match maybe_wrap_new (desc_of r) with
  | WPair => IPair (ftype_of r)
  | WWrapper => IWrapper
  | WAsIs => match r with
             | RAsynqFn => IAsynq
             | RNonCallable => IPlain
             | _ => IObj
             end
  | WDefault => match r with               (* _patch.__enter__: new = Klass(kwargs) *)
                | RNcObj => IObj
                | RNcSlots => ISlots RefAttr
                | RNcFrozen | RNcType => ISlots RefType
                | RNcRaiser => ISlots RefOther
                | RNcNonCallable => IPlain
                | _ => IMock
                end
  end.

Definition inst_callable (i : inst) : bool :=
  match i with IPlain => false | _ => true end.
Definition inst_takes_attrs (i : inst) : bool :=
  match i with ISlots _ => false | _ => true end.

(* a fresh object per activation (new is DEFAULT: mock.py _patch.__enter__ new = Klass(kwargs))
   or the one object given as new= *)
Definition per_activation (r : rkind) : bool := is_default (desc_of r).

(* ------------------------------------------------------------------ calling conventions *)
Inductive conv := CSync | CValue | CYield | CAsyncio.
Definition all_convs := [CSync; CValue; CYield; CAsyncio].

Inductive access := ADirect | AViaInstance | AViaClass.

Section Dispatch.
  Variable A : Type.
  Variables self_ cls_ : A.          (* the instance / the class the attribute is fetched through *)

  (* what a call delivers: the argument list the replacement's body receives, or a TypeError
     (classmethod object called without binding) *)
  Inductive reach := Reached (recv : list A) | NotCallable.

  (* futures and coroutines as far as C19 needs them *)
  Inductive fut := FConst (r : reach) | FTask (body : unit -> reach).
  Definition value (f : fut) : reach := match f with FConst r => r | FTask b => b tt end.
  Definition yielded (f : fut) : reach := value f.   (* a task yielding f is resumed with its value *)
  Definition coro := unit -> reach.
  Definition asyncio_run (c : coro) : reach := c tt.

  (* _AsynqWrapper.__call__ 199-200, _AsyncioWrapper.__call__ 225-229 *)
  Definition asynq_wrapper (mock_fn : list A -> reach) (args : list A) : fut := FConst (mock_fn args).
  Definition asyncio_wrapper (mock_fn : list A -> reach) (args : list A) : coro := fun _ => mock_fn args.

  (* an object whose .asynq/.asyncio were attached by _PatchAsync.__enter__ 150-154 *)
  Definition conv_attached (call : list A -> reach) (c : conv) (args : list A) : reach :=
    match c with
    | CSync => call args
    | CValue => value (asynq_wrapper call args)
    | CYield => yielded (asynq_wrapper call args)
    | CAsyncio => asyncio_run (asyncio_wrapper call args)
    end.

  (* AsyncDecorator.asynq / _call_pure / asyncio (decorators.py 165-188, 213-214): fn gets args *)
  Definition dec_asynq (fn : list A -> reach) (args : list A) : fut := FTask (fun _ => fn args).
  Definition dec_asyncio (fn : list A -> reach) (args : list A) : coro := fun _ => fn args.

  (* conventions on a decorator (or a binder of it) whose own methods are used.
     call : what __call__ does; fn : the wrapped function; pre : what the binder prepends *)
  Definition conv_decorator (call fn : list A -> reach) (pre : list A) (c : conv) (args : list A) : reach :=
    match c with
    | CSync => call args
    | CValue => value (dec_asynq fn (pre ++ args))
    | CYield => yielded (dec_asynq fn (pre ++ args))
    | CAsyncio => asyncio_run (dec_asyncio fn (pre ++ args))
    end.

  (* DecoratorBase.__get__: which object the attribute access yields and what gets bound *)
  Definition prefix (ft : ftype) (acc : access) : list A :=
    match acc, ft with
    | ADirect, _ => []
    | _, FSM => []
    | _, FCM => [cls_]
    | AViaInstance, FPlain => [self_]
    | AViaClass, FPlain => []
    end.

  Definition body (args : list A) : reach := Reached args.   (* the replacement's own code runs *)

  (* sync_fn called with args for an unbound AsyncAndSyncPairDecorator (250-261): a classmethod
     object is not callable *)
  Definition pair_direct_call (ft : ftype) (args : list A) : reach :=
    match ft with FCM => NotCallable | _ => body args end.

  Definition dispatch (i : inst) (acc : access) (c : conv) (args : list A) : reach :=
    match i with
    | IPlain => NotCallable
    | IMock | IObj | ISlots _ => conv_attached body c args
    | IWrapper => conv_attached (fun a => body a) c args                 (* Wrapper.__call__ 275-276 *)
    | IPair ft =>
      match acc with
      | ADirect => conv_attached (pair_direct_call ft) c args          (* instance attrs shadow methods *)
      | _ =>
        (* __get__ 263-280: copy with sync_fn bound; binder.__call__ 234-238 does not prepend,
           binder.asynq/asyncio 191-201 prepend the instance *)
        conv_decorator (fun a => body (prefix ft acc ++ a)) body (prefix ft acc) c args
      end
    | IAsynq =>
      match acc with
      | ADirect => conv_attached (fun a => value (dec_asynq body a)) c args   (* __call__ 219-230 *)
      | _ => conv_decorator (fun a => value (dec_asynq body (prefix FPlain acc ++ a))) body (prefix FPlain acc) c args
      end
    | IOrig ft =>
      conv_decorator (fun a => value (dec_asynq body (prefix ft acc ++ a))) body (prefix ft acc) c args
    end.
End Dispatch.
Arguments Reached {A} _.
Arguments NotCallable {A}.

(* which (target kind, replacement kind) pairs the property speaks about: classmethod /
   staticmethod objects only replace attributes fetched through a class *)
Definition compat (tk : tkind) (r : rkind) : bool :=
  match r, tk with
  | RClassmethod, (TClassmethod | TMethod | TStaticmethod | TAttr) => true
  | RClassmethod, _ => false
  | RStaticmethod, (TModFn | TInstMethod) => false
  | _, _ => true
  end.

Definition access_of (tk : tkind) (own_present : bool) : access :=
  match tk with
  | TModFn => ADirect
  | TMethod => AViaInstance
  | TInstMethod => if own_present then ADirect else AViaInstance
  | TClassmethod | TStaticmethod | TAttr => AViaClass
  end.

(* ------------------------------------------------------------------ the store and patchers *)
Inductive obj := OOrig (t : Z) | ONew (p : Z) (g : Z).
Definition obj_eqb (a b : obj) : bool :=
  match a, b with
  | OOrig x, OOrig y => Z.eqb x y
  | ONew x g, ONew y h => Z.eqb x y && Z.eqb g h
  | _, _ => false
  end.

Record pspec := mkp { ptarget : Z; prk : rkind; pbeh : beh; pshare : Z }.

(* dynamic state of one _patch object: temp_original / is_local exist only between enter and exit *)
Definition psaved := option (option obj * bool).

Record state := mkst {
  own : Z -> option obj;        (* target.__dict__[attribute]                                  *)
  saved : Z -> psaved;          (* per patcher                                                 *)
  active : list Z;              (* _patch._active_patches                                      *)
  gen : Z -> Z;                 (* per patcher: successful activations so far                  *)
  attached : obj -> bool        (* objects carrying the .asynq/.async/.asyncio wrappers 152-154 *)
}.

Definition upd {V} (f : Z -> V) (k : Z) (v : V) : Z -> V := fun x => if Z.eqb x k then v else f x.

Record world := mkw {
  tkinds : Z -> tkind;
  inh : Z -> option obj;        (* what getattr finds when the target's own dict has no entry  *)
  specs : Z -> option pspec
}.

Inductive ores :=
| RDone                         (* returned normally                                           *)
| RFail (e : exn).              (* raised                                                      *)

Definition E_ATTRIBUTE : exn := -19.   (* AttributeError *)
Definition E_TYPE : exn := E_TYPEERROR.   (* TypeError *)

(* the setattr failure is re-raised unchanged (mock_.py 161-162: `if not self.__exit__(..): raise`) *)
Definition refusal_exn (r : refusal) : exn :=
  match r with RefAttr => E_ATTRIBUTE | RefType => E_TYPE | RefOther => E_RUNTIME end.

(* mock_.py 150-156: attaching happens only to callables; it fails on an attribute-refusing one *)
Definition attach_failure (i : inst) : option exn :=
  if inst_callable i then match i with ISlots r => Some (refusal_exn r) | _ => None end else None.

(* the object an activation of patcher p installs when p has been activated g times before *)
(* _maybe_wrap_new returns `new` itself (259, 280) *)
Definition given_as_is (r : rkind) : bool :=
  match maybe_wrap_new (desc_of r) with WAsIs => true | _ => false end.

Definition new_obj (p : Z) (sp : pspec) (g : Z) : obj :=
  if per_activation (prk sp) then ONew p g
  else if given_as_is (prk sp) then ONew (pshare sp) 0 else ONew p 0.

Definition set_attached (f : obj -> bool) (o : obj) : obj -> bool :=
  fun x => if obj_eqb x o then true else f x.

Section Run.
  Variable w : world.

  (* _patch.__enter__ + _PatchAsync.__enter__ (repaired) *)
  Definition enter (st : state) (p : Z) : state * ores :=
    match specs w p with
    | None => (st, RFail E_ATTRIBUTE)
    | Some sp =>
      let t := ptarget sp in
      let '(orig, local) := match own st t with
                            | Some o => (Some o, true)
                            | None => (inh w t, false)
                            end in
      match orig with
      | None => (st, RFail E_ATTRIBUTE)             (* get_original: no such attribute, create=False *)
      | Some _ =>
        match attach_failure (installed (prk sp)) with
        | Some e => (st, RFail e)                   (* attaching .asynq fails: patch undone, re-raised *)
        | None =>
          (mkst (upd (own st) t (Some (new_obj p sp (gen st p))))
                (upd (saved st) p (Some (orig, local))) (active st)
                (upd (gen st) p (gen st p + 1))
                (if inst_callable (installed (prk sp))            (* `if callable(mock_fn):` 150 *)
                 then set_attached (attached st) (new_obj p sp (gen st p)) else attached st), RDone)
        end
      end
    end.

  (* _patch.__exit__ *)
  Definition exit (st : state) (p : Z) : state * ores :=
    match specs w p, saved st p with
    | Some sp, Some (orig, local) =>
      let t := ptarget sp in
      let own' := if local then upd (own st) t orig
                  else match inh w t with
                       | Some _ => upd (own st) t None         (* delattr; hasattr still true *)
                       | None => upd (own st) t orig
                       end in
      (mkst own' (upd (saved st) p None) (active st) (gen st) (attached st), RDone)   (* wrappers stay *)
    | _, _ => (st, RFail E_ATTRIBUTE)               (* del self.temp_original: AttributeError *)
    end.

  Definition start (st : state) (p : Z) : state * ores :=
    let '(st', r) := enter st p in
    match r with
    | RDone => (mkst (own st') (saved st') (active st' ++ [p]) (gen st') (attached st'), RDone)
    | _ => (st', r)
    end.

  Fixpoint remove1 (p : Z) (l : list Z) : option (list Z) :=
    match l with
    | [] => None
    | x :: l' => if Z.eqb x p then Some l'
                 else match remove1 p l' with Some r => Some (x :: r) | None => None end
    end.

  Definition stop (st : state) (p : Z) : state * ores :=
    match remove1 p (active st) with
    | None => (st, RDone)                           (* not started: returns None *)
    | Some l => exit (mkst (own st) (saved st) l (gen st) (attached st)) p
    end.

  (* _patch_stopall: for patch in reversed(_active_patches): patch.stop()
     The reversed-list iterator walks the LIVE list by index (CPython listreviter_next): with
     index i it yields active[i] if i < len(active) and is exhausted otherwise; stop() removes
     the first occurrence of the patcher.  k is index+1.  A stop() that raises (only possible
     after a double start) ends the loop. *)
  Fixpoint stopall_loop (k : nat) (st : state) : state * ores :=
    match k with
    | O => (st, RDone)
    | S i =>
      match nth_error (active st) i with
      | None => (st, RDone)
      | Some p => match stop st p with
                  | (st', RDone) => stopall_loop i st'
                  | (st', RFail e) => (st', RFail e)
                  end
      end
    end.
  Definition stopall (st : state) : state * ores := stopall_loop (length (active st)) st.

  (* SDecorStack: a further patch decorator stacked on the same function as the enclosing
     SDecor/SDecorStack block (one decoration_helper ExitStack enters and exits them together) *)
  Inductive style := SWith | SDecor | SDecorCls | SDecorStack.

  Inductive op :=
  | OEnter (p : Z) (s : style)
  | OExit (p : Z) (s : style) (exc : bool)
  | OStart (p : Z)
  | OStop (p : Z) (exc : bool)
  | OStopAll (exc : bool)
  | OProbe (t : Z) (args : list Z).

  Definition current (st : state) (t : Z) : option obj :=
    match own st t with Some o => Some o | None => inh w t end.

  Inductive cres :=
  | CReached (who : obj) (recv : list Z) (b : beh)   (* who = the object whose code ran *)
  | CNotCallable
  | CDetached.           (* AttributeError: the installed object has no .asynq / .asyncio *)

  Inductive res :=
  | RO (r : ores)
  | RProbe (cur : option obj) (cs : list cres).

  Definition orig_ftype (tk : tkind) : ftype :=
    match tk with TClassmethod => FCM | TStaticmethod => FSM | _ => FPlain end.

  Definition SELF : Z := -100.
  Definition CLS : Z := -200.

  Definition obj_inst (o : obj) : option (inst * beh) :=
    match o with
    | OOrig t => Some (match tkinds w t with TAttr => IPlain | tk => IOrig (orig_ftype tk) end, BRet)
    | ONew p _ => match specs w p with
                | Some sp => Some (installed (prk sp), pbeh sp)
                | None => None
                end
    end.

  (* the object whose code runs when o is called: a per-patcher AsyncAndSyncPairDecorator /
     Wrapper delegates to the (possibly shared) object it was made from *)
  Definition body_of (o : obj) : obj :=
    match o with
    | OOrig _ => o
    | ONew p _ => match specs w p with
                  | Some sp => if per_activation (prk sp) then o else ONew (pshare sp) 0
                  | None => o
                  end
    end.

  (* objects that bring their own .asynq/.asyncio (AsyncDecorator methods) *)
  Definition inst_unattached (i : inst) : option inst :=
    match i with
    | IOrig ft => Some (IOrig ft)
    | IAsynq => Some (IOrig FPlain)     (* an @asynq() function without the wrappers is just that *)
    | _ => None
    end.

  Definition probe_conv (i : inst) (att : bool) (acc : access) (who : obj) (b : beh) (c : conv) (args : list Z) : cres :=
    let go i' := match dispatch Z SELF CLS i' acc c args with
                 | Reached r => CReached who r b
                 | NotCallable => CNotCallable
                 end in
    if att then go i
    else match inst_unattached i with
         | Some i' => go i'
         | None => match c with CSync => go i | _ => CDetached end
         end.

  Definition probe (st : state) (t : Z) (args : list Z) : res :=
    match current st t with
    | None => RProbe None []
    | Some o =>
      match obj_inst o with
      | None => RProbe (Some o) []
      | Some (i, b) =>
        if inst_callable i then
          let acc := access_of (tkinds w t) (match own st t with Some _ => true | None => false end) in
          RProbe (Some o) (map (fun c => probe_conv i (attached st o) acc (body_of o) b c args) all_convs)
        else RProbe (Some o) []
      end
    end.

  Definition step (st : state) (o : op) : state * res :=
    match o with
    | OEnter p _ => let '(s, r) := enter st p in (s, RO r)
    | OExit p _ _ => let '(s, r) := exit st p in (s, RO r)
    | OStart p => let '(s, r) := start st p in (s, RO r)
    | OStop p _ => let '(s, r) := stop st p in (s, RO r)
    | OStopAll _ => let '(s, r) := stopall st in (s, RO r)
    | OProbe t args => (st, probe st t args)
    end.

  Fixpoint run (st : state) (ops : list op) : state * list res :=
    match ops with
    | [] => (st, [])
    | o :: ops' =>
      let '(s1, r) := step st o in
      let '(s2, rs) := run s1 ops' in (s2, r :: rs)
    end.

  Definition exec (st : state) (ops : list op) : state := fst (run st ops).
End Run.

(* ------------------------------------------------------------------ correspondence entry point *)
(* targets are numbered 0.. in `tks`; target t's own slot initially holds OOrig t, except a
   TInstMethod target whose attribute lives on the class (own = None, inherited = OOrig t) *)
Definition nthZ {V} (l : list V) (k : Z) : option V :=
  if Z.ltb k 0 then None else nth_error l (Z.to_nat k).

Definition mk_world (tks : list tkind) (ps : list (Z * rkind * beh * Z)) : world :=
  mkw (fun t => match nthZ tks t with Some k => k | None => TModFn end)
      (fun t => match nthZ tks t with Some TInstMethod => Some (OOrig t) | _ => None end)
      (fun p => match nthZ ps p with Some (t, r, b, sh) => Some (mkp t r b sh) | None => None end).

Definition init_state (tks : list tkind) : state :=
  mkst (fun t => match nthZ tks t with
                 | Some TInstMethod => None
                 | Some _ => Some (OOrig t)
                 | None => None
                 end)
       (fun _ => None) [] (fun _ => 0) (fun _ => false).

Fixpoint zrange (n : nat) : list Z :=
  match n with O => [] | S k => zrange k ++ [Z.of_nat k] end.

(* output: one result per op; the final own slot of every target; how many patches are still
   registered as started *)
Definition run_case (tks : list tkind) (ps : list (Z * rkind * beh * Z)) (ops : list op)
  : list res * list (option obj) * Z :=
  let w := mk_world tks ps in
  let '(st, rs) := run w (init_state tks) ops in
  (rs, map (own st) (zrange (length tks)), Z.of_nat (length (active st))).

(* ------------------------------------------------------------------ well-bracketed op lists *)
(* The stack discipline the property's "when the patch ends" refers to: entries are (patcher,
   started-with-start()?), innermost first.  An enter/start needs a patcher that is not open; an
   exit/stop closes the innermost open patcher and must be of the matching sort; stopall closes the
   started patchers on top of the stack and is only allowed when no started patcher is buried under a
   with-block/decorator; at the end nothing is open. *)
Definition in_stk (p : Z) (stk : list (Z * bool)) : bool := existsb (fun e => Z.eqb (fst e) p) stk.

Fixpoint drop_started (stk : list (Z * bool)) : list (Z * bool) :=
  match stk with
  | (p, true) :: r => drop_started r
  | _ => stk
  end.

Fixpoint wb (stk : list (Z * bool)) (ops : list op) : bool :=
  match ops with
  | [] => match stk with [] => true | _ => false end
  | o :: ops' =>
    match o with
    | OEnter p _ => negb (in_stk p stk) && wb ((p, false) :: stk) ops'
    | OExit p _ _ => match stk with (q, false) :: r => Z.eqb q p && wb r ops' | _ => false end
    | OStart p => negb (in_stk p stk) && wb ((p, true) :: stk) ops'
    | OStop p _ => match stk with (q, true) :: r => Z.eqb q p && wb r ops' | _ => false end
    | OStopAll _ => let r := drop_started stk in forallb (fun e => negb (snd e)) r && wb r ops'
    | OProbe _ _ => wb stk ops'
    end
  end.

Definition clean (st : state) : Prop := (forall p, saved st p = None) /\ active st = [].
