(* C17 — async generators deliver their Values in order, and only those.
   Only statements; every proof is `exact <lemma>`.
   Vocabulary (proofs/GenProofs.v): `values b` = the Values of body b in program order (the
   sequential reference); `clean b` = no await of b fails and b does not raise; `pending s` = the
   task returned last is not computed; `wf s` = invariant of every reachable state
   (C17_reachable_wf); `needed k b` = shortest prefix of b holding k Values (all of b if fewer). *)
From Asynq Require Import Base Gen proofs.GenProofs.

(* list_of_generator returns all Values, in program order, and exhausts the generator *)
Theorem C17_list_all_values : forall s,
  wf s -> pending s = false -> clean (rest s) ->
  let r := list_of_generator s in
  snd r = LOk (map TVal (values (rest s))) /\
  rest (fst r) = [] /\ is_stopped (fst r) = true /\ pending (fst r) = false.
Proof. exact list_all_values. Qed.
Print Assumptions C17_list_all_values.

(* take_first(gen, n) returns the first n Values (none for n <= 0), for every n : Z, from every
   reachable state (so also for a generator that earlier calls have partly consumed);
   bounded consumption: it runs exactly the shortest prefix of the body that holds n Values when
   there are that many (one extra resume, the one that finds the end, otherwise) *)
Theorem C17_take_first_prefix : forall s n,
  wf s -> pending s = false -> clean (rest s) ->
  let r := take_first s n in
  let k := Z.to_nat n in
  snd r = LOk (map TVal (firstn k (values (rest s)))) /\
  rest s = needed k (rest s) ++ rest (fst r) /\
  (pulls (fst r) <= pulls s + length (needed k (rest s)) + 1)%nat /\
  ((k <= length (values (rest s)))%nat -> pulls (fst r) = (pulls s + length (needed k (rest s)))%nat) /\
  wf (fst r) /\ pending (fst r) = false.
Proof. exact take_first_spec. Qed.
Print Assumptions C17_take_first_prefix.

(* n = 0 (and n < 0): nothing returned, nothing consumed, whatever the state or the body *)
Theorem C17_take_first_zero : forall s n, n <= 0 -> take_first s n = (s, LOk []).
Proof. exact take_first_zero. Qed.
Print Assumptions C17_take_first_zero.

(* `needed` is what its name says: a prefix, holding the first k Values, ending with the k-th *)
Theorem C17_needed_is_minimal : forall b k,
  (exists tl, b = needed k b ++ tl) /\ values (needed k b) = firstn k (values b) /\
  ((S k <= length (values b))%nat ->
     exists p v, needed (S k) b = p ++ [GValue v] /\ length (values p) = k).
Proof. exact (fun b k => conj (needed_prefix b k) (conj (values_needed b k) (needed_ends_with_value b k))). Qed.
Print Assumptions C17_needed_is_minimal.

(* repeated take_first calls on the same generator return consecutive chunks of the Values *)
Theorem C17_take_first_repeated : forall ns s,
  wf s -> pending s = false -> clean (rest s) ->
  take_many s ns = map (fun c => LOk (map TVal c)) (chunks (map Z.to_nat ns) (values (rest s))).
Proof. exact take_first_repeated. Qed.
Print Assumptions C17_take_first_repeated.

(* END_OF_GENERATOR never appears, and every element of a result is a Value of the body: for ALL
   bodies (failing awaits, raising bodies, END-valued futures), all states, all n *)
Theorem C17_no_end_marker : forall s n l,
  (snd (list_of_generator s) = LOk l -> ~ In TEnd l) /\
  (snd (take_first s n) = LOk l -> ~ In TEnd l).
Proof. exact no_end_marker. Qed.
Print Assumptions C17_no_end_marker.

Theorem C17_only_values : forall s n l,
  (snd (list_of_generator s) = LOk l -> forall t, In t l -> exists v, t = TVal v /\ In (GValue v) (rest s)) /\
  (snd (take_first s n) = LOk l -> forall t, In t l -> exists v, t = TVal v /\ In (GValue v) (rest s)).
Proof. exact (fun s n l => conj (list_only_values s l) (take_only_values s n l)). Qed.
Print Assumptions C17_only_values.

(* advancing before the previously returned task is computed raises RuntimeError and changes nothing *)
Theorem C17_advance_guard : forall s first,
  last_task s = LPending first -> send s = (s, SRaise E_RUNTIME).
Proof. exact advance_guard. Qed.
Print Assumptions C17_advance_guard.

(* an exhausted generator raises StopIteration, is then flagged, and keeps raising it: after
   is_stopped no op list ever resumes the body or gets anything but StopIteration / [] *)
Theorem C17_exhausted_raises_stop : forall s,
  rest s = [] -> pending s = false ->
  snd (send s) = SRaise E_STOPITER /\ is_stopped (fst (send s)) = true /\
  rest (fst (send s)) = [] /\ pending (fst (send s)) = false.
Proof. exact exhausted_send. Qed.
Print Assumptions C17_exhausted_raises_stop.

Theorem C17_stays_stopped : forall ops s h,
  wf s -> is_stopped s = true ->
  fst (fst (run (s, h) ops)) = s /\ all_stopped ops (snd (run (s, h) ops)).
Proof. exact stays_stopped. Qed.
Print Assumptions C17_stays_stopped.

(* nested generators (a body that iterates another async generator the documented way, to any
   depth): the inlined body is clean and its Values are the Values of the tree in program order,
   so list_of_generator / take_first return them / their first n *)
Theorem C17_nested_values : forall b,
  forallb tclean1 b = true -> clean (inline b) /\ values (inline b) = flat_map tvalues1 b.
Proof. exact nested_values. Qed.
Print Assumptions C17_nested_values.

Theorem C17_nested_list_take : forall b n,
  forallb tclean1 b = true ->
  snd (list_of_generator (init (inline b))) = LOk (map TVal (flat_map tvalues1 b)) /\
  snd (take_first (init (inline b)) n) = LOk (map TVal (firstn (Z.to_nat n) (flat_map tvalues1 b))).
Proof. exact nested_list_take. Qed.
Print Assumptions C17_nested_list_take.

(* a body with a failing await or a raise: list_of_generator raises exactly the first failure (the
   Values before it are lost with the exception); e <> StopIteration because a body cannot raise
   StopIteration (PEP 479) *)
Theorem C17_list_first_failure : forall s e,
  wf s -> pending s = false -> first_failure (rest s) = Some e -> e <> E_STOPITER ->
  snd (list_of_generator s) = LErr e.
Proof. exact list_fails. Qed.
Print Assumptions C17_list_first_failure.

(* the hypotheses above hold in every state any op list can reach from any body *)
Theorem C17_reachable_wf : forall b ops, wf (fst (fst (run (init b, HNone) ops))).
Proof. exact reachable_wf. Qed.
Print Assumptions C17_reachable_wf.

(* the loop bounds of the model are artefacts: never reached / irrelevant *)
Theorem C17_no_fuel : forall s n,
  snd (list_of_generator s) <> LFuel /\ snd (take_first s n) <> LFuel.
Proof. exact no_fuel. Qed.
Print Assumptions C17_no_fuel.

Theorem C17_inner_loop_fuel : forall f1 f2 s yr,
  (length (rest s) < f1)%nat -> (length (rest s) < f2)%nat ->
  inner_loop f1 s yr = inner_loop f2 s yr.
Proof. exact inner_loop_fuel. Qed.
Print Assumptions C17_inner_loop_fuel.

(* take_first as it stands in /repo (no `n <= 0` guard) violates the statement at n = 0
   (returns a Value and consumes the generator); for n >= 1 it is the repaired function *)
Theorem C17_take_first_unrepaired_refuted :
  exists b, snd (take_first_orig (init b) 0) <> LOk [] /\
            pulls (fst (take_first_orig (init b) 0)) <> pulls (init b).
Proof. exact take_first_orig_refuted. Qed.
Print Assumptions C17_take_first_unrepaired_refuted.

Theorem C17_take_first_unrepaired_pos : forall s n, 1 <= n -> take_first_orig s n = take_first s n.
Proof. exact take_first_orig_pos. Qed.
Print Assumptions C17_take_first_unrepaired_pos.

(* ---- yields that are not Values: None ("nothing to wait for"), futures, tuples / lists / dicts of
   them (Gen.aw, Gen.unwrap, tree step NYield).  C17_nested_values / C17_nested_list_take above
   quantify over tree bodies that contain them (tclean1 (NYield w) = "no member of w fails",
   tvalues1 (NYield w) = []).  The theorems below say that such a yield is never mistaken for the
   end of the generator, and that the end is signalled only at the end. *)

(* a body that yields w (None included) where a Value or the end could be: send hands out a task
   waiting for unwrap w, resumes the body with None exactly once, and does not flag exhaustion *)
Theorem C17_yield_not_exhaustion : forall s w b,
  rest s = yield_step w :: b -> pending s = false -> is_stopped s = false ->
  send s = (mkG b (S (pulls s)) (sent s ++ [TVal VNone]) (LPending (tres_of (unwrap w))) false, STask).
Proof. exact yield_not_exhaustion. Qed.
Print Assumptions C17_yield_not_exhaustion.

(* StopIteration out of send/next means the body has nothing left (a body cannot raise
   StopIteration itself, PEP 479), in every reachable state *)
Theorem C17_stop_only_when_exhausted : forall s,
  wf s -> pending s = false -> snd (send s) = SRaise E_STOPITER ->
  rest s = [] \/ exists b, rest s = GRaise E_STOPITER :: b.
Proof. exact stop_only_when_exhausted. Qed.
Print Assumptions C17_stop_only_when_exhausted.

(* a task handed out by the generator computes to END_OF_GENERATOR only by running the body to its
   end (and then the generator is flagged): never in the middle of the stream *)
Theorem C17_end_only_when_exhausted : forall s,
  pending s = true -> snd (compute s) = TEnd ->
  rest (fst (compute s)) = [] /\ is_stopped (fst (compute s)) = true.
Proof. exact end_only_when_exhausted. Qed.
Print Assumptions C17_end_only_when_exhausted.

(* for list_of_generator / take_first a tree body with any non-failing None / future / container
   yields, nested to any depth, is the body that yields just its Values *)
Theorem C17_only_values_matter : forall b n,
  forallb tclean1 b = true ->
  let b' := map NValue (flat_map tvalues1 b) in
  snd (list_of_generator (init (inline b))) = snd (list_of_generator (init (inline b'))) /\
  snd (take_first (init (inline b)) n) = snd (take_first (init (inline b'))  n).
Proof. exact only_values_matter. Qed.
Print Assumptions C17_only_values_matter.

Example C17_example_yields :
  let b := example_yields in
  forallb tclean1 b = true /\
  snd (list_of_generator (init (inline b))) = LOk [TVal (VInt 1); TVal (VInt 2); TVal (VInt 3)] /\
  snd (take_first (init (inline b)) 2) = LOk [TVal (VInt 1); TVal (VInt 2)] /\
  snd (send (init (inline b))) = STask /\ is_stopped (fst (send (init (inline b)))) = false.
Proof. exact example_yields_ok. Qed.

(* ---- the payload of a Value is opaque (round 8).  `Value(obj)` may hold anything, in particular a FUTURE that the
   consumer is to receive as an object (an unstarted task, a computed one, a ConstFuture, a batch item ...); in the
   model the v of `GValue v` is a label of that object.  Vocabulary (proofs/GenProofs.v): `rl_state f` / `rl_sh f`
   relabel the payloads of the Values a state still has to yield and of the results it already holds, by any
   f : val -> val; `rl_res` / `rl_lres` / `rl_out` relabel results; `tmap f` relabels a tree body; nothing else of a
   state (awaited outcomes, values sent into the body, counters, flags) is touched by them. *)

(* relabelling the payloads commutes with every consumer: for ALL bodies (failing awaits, raising bodies, END-valued
   futures), all states, all op lists over next / task.value() / list_of_generator / take_first n *)
Theorem C17_payload_opaque : forall f ops sh,
  run (rl_sh f sh) ops = (rl_sh f (fst (run sh ops)), map (rl_out f) (snd (run sh ops))).
Proof. exact run_relabel. Qed.
Print Assumptions C17_payload_opaque.

Theorem C17_payload_opaque_list_take : forall f s n,
  list_of_generator (rl_state f s) = (rl_state f (fst (list_of_generator s)), rl_lres f (snd (list_of_generator s))) /\
  take_first (rl_state f s) n = (rl_state f (fst (take_first s n)), rl_lres f (snd (take_first s n))).
Proof. exact (fun f s n => conj (list_of_generator_rl f s) (take_first_rl f s n)). Qed.
Print Assumptions C17_payload_opaque_list_take.

(* ... and nothing but the results depends on the payloads: the values the body receives at its yields, the number of
   times it is resumed, exhaustion, whether a task is pending and what that task waits for first are the same -
   a payload is never something the generator waits for *)
Theorem C17_payload_never_awaited : forall f ops sh,
  let s1 := fst (fst (run (rl_sh f sh) ops)) in
  let s0 := fst (fst (run sh ops)) in
  sent s1 = sent s0 /\ pulls s1 = pulls s0 /\ is_stopped s1 = is_stopped s0 /\
  length (rest s1) = length (rest s0) /\ pending s1 = pending s0 /\
  (forall first, last_task s0 = LPending first -> last_task s1 = LPending first).
Proof. exact relabel_unobserved. Qed.
Print Assumptions C17_payload_never_awaited.

(* the entry point of the correspondence, bodies without nested generators: per op (result, pulls, is_stopped) with
   the results relabelled, and the same list of values received by the body *)
Theorem C17_payload_opaque_run_case : forall f b ops,
  forallb tflat b = true ->
  run_case (map (tmap f) b) ops = (map (rl_out f) (fst (run_case b ops)), snd (run_case b ops)).
Proof. exact run_case_relabel. Qed.
Print Assumptions C17_payload_opaque_run_case.

(* nested generators of any depth whose awaits do not fail: the payloads pass through `x = yield task; yield Value(x)`
   of every level as they are *)
Theorem C17_payload_opaque_nested : forall f b n,
  forallb tclean1 b = true ->
  snd (list_of_generator (init (inline (map (tmap f) b)))) = rl_lres f (snd (list_of_generator (init (inline b)))) /\
  snd (take_first (init (inline (map (tmap f) b))) n) = rl_lres f (snd (take_first (init (inline b)) n)).
Proof. exact nested_relabel. Qed.
Print Assumptions C17_payload_opaque_nested.

Example C17_example_payloads :
  let b := example_payloads in
  let f := fun v => match v with VTuple [VInt (-1); VInt k] => VInt (2000 + k) | _ => v end in
  forallb tclean1 b = true /\
  snd (take_first (init (inline b)) 3) =
    LOk [TVal (VTuple [VInt (-1); VInt 1]); TVal (VTuple [VInt (-1); VInt 2]); TVal (VTuple [VInt (-1); VInt 3])] /\
  snd (list_of_generator (init (inline (map (tmap f) b)))) =
    LOk [TVal (VInt 2001); TVal (VInt 2002); TVal (VInt 2003); TVal (VInt 2004)].
Proof. exact example_payloads_ok. Qed.

(* hypotheses are satisfiable, and the theorems compute *)
Example C17_example :
  let b := example_body in
  wf (init b) /\ pending (init b) = false /\ clean b /\
  snd (take_first (init b) 1) = LOk [TVal (VInt 1)] /\ pulls (fst (take_first (init b) 1)) = 2%nat /\
  snd (list_of_generator (fst (take_first (init b) 1))) = LOk [TVal (VInt 2)].
Proof. exact example_ok. Qed.
