From Asynq Require Import Machine.
Theorem C02_placeholder : True. Proof. exact I. Qed.
Print Assumptions C02_placeholder.
