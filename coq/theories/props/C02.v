(* C02 — failures propagate like sequential exceptions, after all siblings finish.
   Statements only; proofs in proofs/ProgProofs.v, proofs/MachineC01.v, proofs/MachineC02.v and (programs with
   synchronous calls) proofs/MachineC01S.v, proofs/MachineC02S.v.

   PROVED
   (1) pure, every structure: unwrap fails iff some leaf fails, with the error of the FIRST failing
       leaf in written order (a non-future counts as a failing leaf with TypeError);
   (2) machine, tree programs: a task is resumed only when every future it yielded is computed;
   (3) machine, tree programs: what it receives is unwrap of those futures' own outcomes (exception
       ids are instance identities), and an uncaught one becomes the task's and finally value()'s
       outcome - the latter is C01_async_eq_seq_tree, whose [eval] propagates exception ids.
   (4) machine, [stree] programs = tree programs + synchronous calls of fresh tasks
       (Let (FTask q) (fun h => Sync h k), fn(args) / fn.asynq(args).value(), nested to any depth; reference
       [evals]), second half of the file: (2) and (3) again - C02_delivered_only_when_all_siblings_done_stree,
       C02_delivered_is_unwrap_of_own_outcomes_stree (also _after_history: on any scheduler state satisfying the
       state invariant SI, e.g. left behind by earlier finished stree computations),
       C02_uncaught_failure_is_the_outcome_of_value_stree / C02_uncaught_failure_ends_value_stree;
       and for the synchronous call itself: state properties at the call proper (C02_sync_call_stree), at the
       delivery (C02_sync_delivered_is_outcome_of_awaited_stree) and at the return
       (C02_sync_return_continues_caller_stree), and the two-state theorem
       C02_sync_call_returns_sequential_outcome_stree (+ _expression_): from the call (step n) to the FIRST return
       of value() into the frames pushed by that call (step m) the caller receives exactly evals of the callee -
       value or exception - and continues with k (evals q), whose sequential value is the caller's.  Hence an
       exception raised inside a synchronously called function reaches the caller as that very exception.
       C02_stree_hypotheses_satisfiable / C02_sync_call_hypotheses_satisfiable: an awaited task with a synchronous
       call inside, a failing sibling task and a born-failed sibling.
   Hypotheses of all machine theorems: pointwise service, no_unwind (the runaway guard did not fire), one root
   computation created from the program.
   WITHOUT THE HYPOTHESIS no_unwind (end of the file; proofs/MachineNoUnwind.v, MachineGuardForms.v): the three
   tree-program theorems again as C02_delivered_only_when_all_siblings_done_guard,
   C02_delivered_is_unwrap_of_own_outcomes_guard, C02_uncaught_failure_is_the_outcome_of_value_guard, and in the
   disjunctive reading "..., or the guard fired at an earlier step" as
   C02_delivered_only_when_all_siblings_done_unless_guard, C02_uncaught_failure_is_the_outcome_of_value_unless_guard.
   The _guard forms need no assumption about exceptions unwinding: FutureIsAlreadyComputed is proved unreachable
   for tree programs, so only the runaway guard's RuntimeError can unwind through asynq's frames, and "the guard has
   not fired before step n" (forall k < n, guard_fires P (run P k c0) = false) is a decidable condition on the run.
   NOT PROVED (correspondence + monitors only): programs with stored handles (a future created by Let and awaited
   later or twice, LOld leaves, value() on an existing future or batch item), ReadVar / Probe, contexts whose
   pause/resume raise; that a synchronous call returns at all (termination; "first return" is a hypothesis of the
   two-state theorem); runs in which the guard fired.
   WITHOUT THE HYPOTHESIS no_unwind FOR stree PROGRAMS (end of the file; proofs/MachineGuardFormsS.v): the stree
   theorems whose hypothesis is no_unwind P n (start h s1) are restated with "the MAX_TASK_STACK_SIZE guard has not
   fired before step n" in its place (MachineNoUnwind.stree_no_unwind_iff_guard_silent):
   C02_delivered_only_when_all_siblings_done_stree_guard, C02_delivered_is_unwrap_of_own_outcomes_stree_guard,
   C02_uncaught_failure_is_the_outcome_of_value_stree_guard, C02_uncaught_failure_ends_value_stree_guard,
   C02_sync_call_stree_guard, C02_sync_delivered_is_outcome_of_awaited_stree_guard,
   C02_sync_return_continues_caller_stree_guard, C02_sync_call_returns_sequential_outcome_stree_guard,
   C02_sync_call_expression_returns_sequential_outcome_stree_guard. *)
From Asynq Require Import Machine Seq proofs.ProgProofs proofs.MachineC08 proofs.MachineC01 proofs.MachineC02.

Theorem C02_first_failing_future_wins : forall (A : Type) (look : A -> outcome) (s : ystruct A),
  match unwrap look s with
  | Err e => first_err (map look (leaves s)) = Some e
  | Ok _ => first_err (map look (leaves s)) = None
  end.
Proof. exact (fun A look s => unwrap_first_error look s). Qed.
Print Assumptions C02_first_failing_future_wins.

Theorem C02_delivered_only_when_all_siblings_done : forall P, pointwise P -> forall p, tree p -> forall n t,
  let h := fst (create [] (FTask p) (st0 P)) in
  let s1 := snd (create [] (FTask p) (st0 P)) in
  no_unwind P n (start h s1) -> c_mode (run P n (start h s1)) = MResume t ->
  exists tk, get t (c_st (run P n (start h s1))) = Some (mkFut None (KTask tk)) /\
    forall x, In (RFut x) (leaves (tk_last tk)) -> computed x (c_st (run P n (start h s1))) = true.
Proof. exact resume_guard_tree. Qed.
Print Assumptions C02_delivered_only_when_all_siblings_done.

Theorem C02_delivered_is_unwrap_of_own_outcomes : forall P, pointwise P -> forall p, tree p -> forall n t,
  let h := fst (create [] (FTask p) (st0 P)) in
  let s1 := snd (create [] (FTask p) (st0 P)) in
  no_unwind P n (start h s1) -> c_mode (run P n (start h s1)) = MResume t ->
  exists tk k spec, get t (c_st (run P n (start h s1))) = Some (mkFut None (KTask tk)) /\
    tk_gen tk = Some k /\
    c_mode (step P (run P n (start h s1))) =
      MRun t (k (unwrap (look (c_st (run P n (start h s1)))) (tk_last tk))) /\
    unwrap (look (c_st (run P n (start h s1)))) (tk_last tk) = unwrap (look_spec spec) (tk_last tk) /\
    spec t = Some (eval (k (unwrap (look_spec spec) (tk_last tk)))).
Proof. exact delivered_is_unwrap_tree. Qed.
Print Assumptions C02_delivered_is_unwrap_of_own_outcomes.

Theorem C02_uncaught_failure_is_the_outcome_of_value : forall P p n o,
  pointwise P -> tree p ->
  let h := fst (create [] (FTask p) (st0 P)) in
  let s1 := snd (create [] (FTask p) (st0 P)) in
  no_unwind P n (start h s1) -> c_mode (run P n (start h s1)) = MDone o -> o = eval p.
Proof. exact async_eq_seq_tree. Qed.
Print Assumptions C02_uncaught_failure_is_the_outcome_of_value.

(* ==== tree programs WITH SYNCHRONOUS CALLS ([stree], [evals]: proofs/MachineC01S.v, proofs/MachineC02S.v) ==== *)
From Asynq Require Import proofs.MachineC01S proofs.MachineC02S.

Theorem C02_delivered_only_when_all_siblings_done_stree : forall P, pointwise P -> forall p, stree p -> forall n t,
  let h := fst (create [] (FTask p) (st0 P)) in
  let s1 := snd (create [] (FTask p) (st0 P)) in
  no_unwind P n (start h s1) -> c_mode (run P n (start h s1)) = MResume t ->
  exists tk, get t (c_st (run P n (start h s1))) = Some (mkFut None (KTask tk)) /\
    forall x, In (RFut x) (leaves (tk_last tk)) -> computed x (c_st (run P n (start h s1))) = true.
Proof. exact resume_guard_stree. Qed.
Print Assumptions C02_delivered_only_when_all_siblings_done_stree.

Theorem C02_delivered_is_unwrap_of_own_outcomes_stree : forall P, pointwise P -> forall p, stree p -> forall n t,
  let h := fst (create [] (FTask p) (st0 P)) in
  let s1 := snd (create [] (FTask p) (st0 P)) in
  no_unwind P n (start h s1) -> c_mode (run P n (start h s1)) = MResume t ->
  exists tk k spec, get t (c_st (run P n (start h s1))) = Some (mkFut None (KTask tk)) /\
    tk_gen tk = Some k /\
    c_mode (step P (run P n (start h s1))) =
      MRun t (k (unwrap (look (c_st (run P n (start h s1)))) (tk_last tk))) /\
    unwrap (look (c_st (run P n (start h s1)))) (tk_last tk) = unwrap (look_spec spec) (tk_last tk) /\
    spec t = Some (evals (k (unwrap (look_spec spec) (tk_last tk)))).
Proof. exact delivered_is_unwrap_stree. Qed.
Print Assumptions C02_delivered_is_unwrap_of_own_outcomes_stree.

(* the same two on a scheduler state left behind by earlier (finished) stree computations *)
Theorem C02_delivered_only_when_all_siblings_done_stree_after_history : forall P, pointwise P ->
  forall spec0 s0, SI spec0 (fun _ => False) s0 -> forall p, stree p -> forall n t,
  let h := fst (create [] (FTask p) s0) in
  let s1 := snd (create [] (FTask p) s0) in
  no_unwind P n (start h s1) -> c_mode (run P n (start h s1)) = MResume t ->
  exists tk, get t (c_st (run P n (start h s1))) = Some (mkFut None (KTask tk)) /\
    forall x, In (RFut x) (leaves (tk_last tk)) -> computed x (c_st (run P n (start h s1))) = true.
Proof. exact resume_guard_stree_from. Qed.
Print Assumptions C02_delivered_only_when_all_siblings_done_stree_after_history.

Theorem C02_delivered_is_unwrap_of_own_outcomes_stree_after_history : forall P, pointwise P ->
  forall spec0 s0, SI spec0 (fun _ => False) s0 -> forall p, stree p -> forall n t,
  let h := fst (create [] (FTask p) s0) in
  let s1 := snd (create [] (FTask p) s0) in
  no_unwind P n (start h s1) -> c_mode (run P n (start h s1)) = MResume t ->
  exists tk k spec, get t (c_st (run P n (start h s1))) = Some (mkFut None (KTask tk)) /\
    tk_gen tk = Some k /\
    c_mode (step P (run P n (start h s1))) =
      MRun t (k (unwrap (look (c_st (run P n (start h s1)))) (tk_last tk))) /\
    unwrap (look (c_st (run P n (start h s1)))) (tk_last tk) = unwrap (look_spec spec) (tk_last tk) /\
    spec t = Some (evals (k (unwrap (look_spec spec) (tk_last tk)))).
Proof. exact delivered_is_unwrap_stree_from. Qed.
Print Assumptions C02_delivered_is_unwrap_of_own_outcomes_stree_after_history.

Theorem C02_uncaught_failure_is_the_outcome_of_value_stree : forall P p n o,
  pointwise P -> stree p ->
  let h := fst (create [] (FTask p) (st0 P)) in
  let s1 := snd (create [] (FTask p) (st0 P)) in
  no_unwind P n (start h s1) -> c_mode (run P n (start h s1)) = MDone o -> o = evals p.
Proof. exact async_eq_seq_stree. Qed.
Print Assumptions C02_uncaught_failure_is_the_outcome_of_value_stree.

Theorem C02_uncaught_failure_ends_value_stree : forall P p n e,
  pointwise P -> stree p -> evals p = Err e ->
  let h := fst (create [] (FTask p) (st0 P)) in
  let s1 := snd (create [] (FTask p) (st0 P)) in
  no_unwind P n (start h s1) -> forall o, c_mode (run P n (start h s1)) = MDone o -> o = Err e.
Proof. exact uncaught_failure_stree. Qed.
Print Assumptions C02_uncaught_failure_ends_value_stree.

(* ---- what a synchronous call delivers ---- *)
(* the call proper: the callee h is a task younger than the caller t; its specified outcome oh is evals of its
   program while its entry is still the fresh one, and the caller's specified outcome is evals (k oh) *)
Theorem C02_sync_call_stree : forall P, pointwise P -> forall p, stree p -> forall n t h k,
  let h0 := fst (create [] (FTask p) (st0 P)) in
  let s1 := snd (create [] (FTask p) (st0 P)) in
  no_unwind P n (start h0 s1) -> c_mode (run P n (start h0 s1)) = MRun t (Sync h k) ->
  exists spec oh, spec h = Some oh /\ spec t = Some (evals (k oh)) /\ (forall o, stree (k o)) /\
    (fnum t < fnum h)%Z /\ is_task h (c_st (run P n (start h0 s1))) /\
    (forall q, get h (c_st (run P n (start h0 s1))) = Some (mkFut None (KTask (fresh_task q))) -> oh = evals q) /\
    (computed h (c_st (run P n (start h0 s1))) = true -> oh = outcome_of h (c_st (run P n (start h0 s1)))) /\
    c_mode (step P (run P n (start h0 s1))) = MValue h /\
    c_frames (step P (run P n (start h0 s1))) = FValue t k :: c_frames (run P n (start h0 s1)).
Proof. exact sync_call_stree. Qed.
Print Assumptions C02_sync_call_stree.

(* [MDeliver o] over an [FValue t k] frame is entered only from value() of a computed h over that frame or from the
   wait loop of a computed h directly above it; o is the outcome stored in h, which is the specified one *)
Theorem C02_sync_delivered_is_outcome_of_awaited_stree : forall P, pointwise P -> forall p, stree p -> forall n o t k fr',
  let h0 := fst (create [] (FTask p) (st0 P)) in
  let s1 := snd (create [] (FTask p) (st0 P)) in
  no_unwind P n (start h0 s1) ->
  c_mode (step P (run P n (start h0 s1))) = MDeliver o ->
  c_frames (step P (run P n (start h0 s1))) = FValue t k :: fr' ->
  exists spec h, computed h (c_st (run P n (start h0 s1))) = true /\
    o = outcome_of h (c_st (run P n (start h0 s1))) /\ spec h = Some o /\ (fnum t < fnum h)%Z /\
    ((c_mode (run P n (start h0 s1)) = MValue h /\ c_frames (run P n (start h0 s1)) = FValue t k :: fr') \/
     ((c_mode (run P n (start h0 s1)) = MWaitHead \/ c_mode (run P n (start h0 s1)) = MAfterExec) /\
      c_frames (run P n (start h0 s1)) = FWait h :: FValue t k :: fr')).
Proof. exact sync_deliver_origin_stree. Qed.
Print Assumptions C02_sync_delivered_is_outcome_of_awaited_stree.

(* the return: the caller (an uncomputed task) continues with k o, whose sequential value is the caller's *)
Theorem C02_sync_return_continues_caller_stree : forall P, pointwise P -> forall p, stree p -> forall n o t k fr',
  let h0 := fst (create [] (FTask p) (st0 P)) in
  let s1 := snd (create [] (FTask p) (st0 P)) in
  no_unwind P n (start h0 s1) ->
  c_mode (run P n (start h0 s1)) = MDeliver o -> c_frames (run P n (start h0 s1)) = FValue t k :: fr' ->
  exists spec, utask (c_st (run P n (start h0 s1))) t /\ (forall x, stree (k x)) /\
    spec t = Some (evals (k o)) /\
    c_mode (step P (run P n (start h0 s1))) = MRun t (k o) /\
    c_frames (step P (run P n (start h0 s1))) = fr'.
Proof. exact sync_return_stree. Qed.
Print Assumptions C02_sync_return_continues_caller_stree.

(* non-vacuity: an awaited task with a synchronous call inside, a failing sibling task (42) and a born-failed
   sibling (43): the root is resumed at step 40 with all three computed and receives Err 42; the call is entered
   at step 10/11 and returns at step 30 *)
Example C02_stree_hypotheses_satisfiable :
  stree c02s_demo /\
  let P := mkP [] 1000 false [] in
  let h := fst (create [] (FTask c02s_demo) (st0 P)) in
  let s1 := snd (create [] (FTask c02s_demo) (st0 P)) in
  no_unwind_b P 60 (start h s1) = true /\
  c_mode (run P 60 (start h s1)) = MDone (Err 42) /\ evals c02s_demo = Err 42 /\
  c_mode (run P 40 (start h s1)) = MResume [0] /\
  match get_task [0] (c_st (run P 40 (start h s1))) with
  | Some tk => tk_last tk = YTuple [YLeaf (RFut [1]); YLeaf (RFut [2]); YLeaf (RFut [3])] /\
               map (look (c_st (run P 40 (start h s1)))) (leaves (tk_last tk)) =
                 [Ok (VTuple [VInt 7; VInt 1]); Err 42; Err 43] /\
               unwrap (look (c_st (run P 40 (start h s1)))) (tk_last tk) = Err 42
  | None => False
  end /\
  c_mode (step P (run P 40 (start h s1))) = MRun [0] (Raise 42) /\
  (exists k, c_mode (run P 10 (start h s1)) = MRun [1] (Sync [4] k)) /\
  c_mode (run P 11 (start h s1)) = MValue [4] /\
  c_mode (run P 29 (start h s1)) = MAfterExec /\
  (exists k fr', c_frames (run P 29 (start h s1)) = FWait [4] :: FValue [1] k :: fr') /\
  c_mode (run P 30 (start h s1)) = MDeliver (Ok (VInt 7)) /\
  (exists k fr', c_frames (run P 30 (start h s1)) = FValue [1] k :: fr') /\
  c_mode (step P (run P 30 (start h s1))) = MRun [1] (Ret (VTuple [VInt 7; VInt 1])) /\
  rev (trace (c_st (run P 60 (start h s1)))) =
    [EvStep [0] 0 (Ok VNone); EvStep [1] 0 (Ok VNone); EvStep [4] 0 (Ok VNone);
     EvBefore 0 0; EvFlush 0 0 [[5]]; EvItemDone [5] (Ok (VInt 7)); EvAfter 0 0;
     EvStep [4] 1 (Ok (VInt 7)); EvDone [4] (Ok (VInt 7)); EvGot [1] (Ok (VInt 7));
     EvDone [1] (Ok (VTuple [VInt 7; VInt 1])); EvStep [2] 0 (Ok VNone); EvDone [2] (Err 42);
     EvStep [0] 1 (Err 42); EvDone [0] (Err 42)].
Proof. exact (conj c02s_demo_stree c02s_demo_runs). Qed.
Print Assumptions C02_stree_hypotheses_satisfiable.

(* ---- a synchronous call from entry to its first return: the caller receives evals of the callee ---- *)
(* the ghost specification map only grows along a run (the C01 stree invariant step, with that conjunct) *)
Theorem C02_stree_invariant_step_monotone : forall P, pointwise P -> forall res spec c,
  is_unwind (c_mode c) = false -> CI res spec c ->
  exists spec', CI res spec' (step P c) /\ (forall x o, spec x = Some o -> spec' x = Some o).
Proof. exact s01_step_le. Qed.
Print Assumptions C02_stree_invariant_step_monotone.

(* from the call proper (step n; h is the fresh task of program q) to the FIRST later step m at which value()
   returns into the frames pushed by this call *)
Theorem C02_sync_call_returns_sequential_outcome_stree : forall P, pointwise P -> forall p, stree p ->
  forall n m t h k q o,
  let c0 := start (fst (create [] (FTask p) (st0 P))) (snd (create [] (FTask p) (st0 P))) in
  no_unwind P m c0 -> (n < m)%nat ->
  c_mode (run P n c0) = MRun t (Sync h k) ->
  get h (c_st (run P n c0)) = Some (mkFut None (KTask (fresh_task q))) ->
  c_mode (run P m c0) = MDeliver o -> c_frames (run P m c0) = FValue t k :: c_frames (run P n c0) ->
  (forall i, (n < i < m)%nat ->
     ~ (c_frames (run P i c0) = FValue t k :: c_frames (run P n c0) /\ exists o', c_mode (run P i c0) = MDeliver o')) ->
  o = evals q /\
  exists spec, spec t = Some (evals (k (evals q))) /\ c_mode (step P (run P m c0)) = MRun t (k (evals q)).
Proof. exact sync_call_returns_evals_stree. Qed.
Print Assumptions C02_sync_call_returns_sequential_outcome_stree.

(* the same from the call expression fn(args) = Let (FTask q) (fun h => Sync h k) at step n *)
Theorem C02_sync_call_expression_returns_sequential_outcome_stree : forall P, pointwise P -> forall p, stree p ->
  forall n m t k q o,
  let c0 := start (fst (create [] (FTask p) (st0 P))) (snd (create [] (FTask p) (st0 P))) in
  no_unwind P m c0 -> (n + 1 < m)%nat ->
  c_mode (run P n c0) = MRun t (Let (FTask q) (fun h => Sync h k)) ->
  c_mode (run P m c0) = MDeliver o -> c_frames (run P m c0) = FValue t k :: c_frames (run P n c0) ->
  (forall i, (n + 1 < i < m)%nat ->
     ~ (c_frames (run P i c0) = FValue t k :: c_frames (run P n c0) /\ exists o', c_mode (run P i c0) = MDeliver o')) ->
  o = evals q /\
  exists spec, spec t = Some (evals (k (evals q))) /\ c_mode (step P (run P m c0)) = MRun t (k (evals q)).
Proof. exact sync_call_expr_returns_evals_stree. Qed.
Print Assumptions C02_sync_call_expression_returns_sequential_outcome_stree.

(* non-vacuity: in the demo run the call of callee [4] by caller [1] is at its call proper at step 10 and first
   returns at step 30, with Ok 7 = evals callee *)
Example C02_sync_call_hypotheses_satisfiable :
  let P := mkP [] 1000 false [] in
  let c0 := start (fst (create [] (FTask c02s_demo) (st0 P))) (snd (create [] (FTask c02s_demo) (st0 P))) in
  let k := ret_or_raise (fun v => VTuple [v; VInt 1]) in
  no_unwind P 30 c0 /\
  c_mode (run P 10 c0) = MRun [1] (Sync [4] k) /\
  get [4] (c_st (run P 10 c0)) = Some (mkFut None (KTask (fresh_task c02s_callee))) /\
  c_mode (run P 30 c0) = MDeliver (Ok (VInt 7)) /\
  c_frames (run P 30 c0) = FValue [1] k :: c_frames (run P 10 c0) /\
  (forall i, (10 < i < 30)%nat ->
     ~ (c_frames (run P i c0) = FValue [1] k :: c_frames (run P 10 c0) /\ exists o', c_mode (run P i c0) = MDeliver o')) /\
  evals c02s_callee = Ok (VInt 7).
Proof. exact c02s_demo_call_returns. Qed.
Print Assumptions C02_sync_call_hypotheses_satisfiable.

(* ==== the same WITHOUT an assumption about exceptions unwinding (proofs/MachineNoUnwind.v, MachineGuardForms.v) ====
   [no_unwind] is replaced by "the MAX_TASK_STACK_SIZE guard has not fired before step n":
   forall k < n, guard_fires P (run P k c0) = false, where guard_fires is the boolean test at the head of the
   _execute loop in Machine.step.  For tree programs under a pointwise service the two say the same:
   FutureIsAlreadyComputed is proved unreachable, so the guard's RuntimeError is the only exception that can
   unwind through asynq's frames. *)
From Asynq Require Import proofs.MachineNoUnwind proofs.MachineGuardForms.
Theorem C02_delivered_only_when_all_siblings_done_guard : forall P, pointwise P -> forall p, tree p -> forall n t,
  let h := fst (create [] (FTask p) (st0 P)) in
  let s1 := snd (create [] (FTask p) (st0 P)) in
  (forall k, (k < n)%nat -> guard_fires P (run P k (start h s1)) = false) ->
  c_mode (run P n (start h s1)) = MResume t ->
  exists tk, get t (c_st (run P n (start h s1))) = Some (mkFut None (KTask tk)) /\
    forall x, In (RFut x) (leaves (tk_last tk)) -> computed x (c_st (run P n (start h s1))) = true.
Proof. exact resume_guard_tree_guard. Qed.
Print Assumptions C02_delivered_only_when_all_siblings_done_guard.

(* the disjunctive reading: ... or the guard fired at an earlier step *)
Theorem C02_delivered_only_when_all_siblings_done_unless_guard : forall P, pointwise P -> forall p, tree p -> forall n t,
  let h := fst (create [] (FTask p) (st0 P)) in
  let s1 := snd (create [] (FTask p) (st0 P)) in
  c_mode (run P n (start h s1)) = MResume t ->
  (exists tk, get t (c_st (run P n (start h s1))) = Some (mkFut None (KTask tk)) /\
     forall x, In (RFut x) (leaves (tk_last tk)) -> computed x (c_st (run P n (start h s1))) = true) \/
  (exists k, (k < n)%nat /\ guard_fires P (run P k (start h s1)) = true).
Proof. exact resume_guard_tree_unless_guard. Qed.
Print Assumptions C02_delivered_only_when_all_siblings_done_unless_guard.

Theorem C02_delivered_is_unwrap_of_own_outcomes_guard : forall P, pointwise P -> forall p, tree p -> forall n t,
  let h := fst (create [] (FTask p) (st0 P)) in
  let s1 := snd (create [] (FTask p) (st0 P)) in
  (forall k, (k < n)%nat -> guard_fires P (run P k (start h s1)) = false) ->
  c_mode (run P n (start h s1)) = MResume t ->
  exists tk k spec, get t (c_st (run P n (start h s1))) = Some (mkFut None (KTask tk)) /\
    tk_gen tk = Some k /\
    c_mode (step P (run P n (start h s1))) =
      MRun t (k (unwrap (look (c_st (run P n (start h s1)))) (tk_last tk))) /\
    unwrap (look (c_st (run P n (start h s1)))) (tk_last tk) = unwrap (look_spec spec) (tk_last tk) /\
    spec t = Some (eval (k (unwrap (look_spec spec) (tk_last tk)))).
Proof. exact delivered_is_unwrap_tree_guard. Qed.
Print Assumptions C02_delivered_is_unwrap_of_own_outcomes_guard.

Theorem C02_uncaught_failure_is_the_outcome_of_value_guard : forall P p n o,
  pointwise P -> tree p ->
  let h := fst (create [] (FTask p) (st0 P)) in
  let s1 := snd (create [] (FTask p) (st0 P)) in
  (forall k, (k < n)%nat -> guard_fires P (run P k (start h s1)) = false) ->
  c_mode (run P n (start h s1)) = MDone o -> o = eval p.
Proof. exact async_eq_seq_tree_guard. Qed.
Print Assumptions C02_uncaught_failure_is_the_outcome_of_value_guard.

(* C01 in the disjunctive form: the outcome of value() is the sequential one, or the guard fired at an earlier step *)
Theorem C02_uncaught_failure_is_the_outcome_of_value_unless_guard : forall P p n o,
  pointwise P -> tree p ->
  let h := fst (create [] (FTask p) (st0 P)) in
  let s1 := snd (create [] (FTask p) (st0 P)) in
  c_mode (run P n (start h s1)) = MDone o ->
  o = eval p \/ exists k, (k < n)%nat /\ guard_fires P (run P k (start h s1)) = true.
Proof. exact (fun P p n o HP Ht => async_eq_seq_tree_unless_guard P HP p Ht n o). Qed.
Print Assumptions C02_uncaught_failure_is_the_outcome_of_value_unless_guard.

(* ==== the stree theorems WITHOUT an assumption about exceptions unwinding (proofs/MachineNoUnwind.v, MachineGuardFormsS.v) ====
   [no_unwind P n (start h s1)] is replaced by "the MAX_TASK_STACK_SIZE guard has not fired before step n"; also with
   synchronous calls FutureIsAlreadyComputed is proved unreachable (stree_no_unwind_iff_guard_silent), so the guard's
   RuntimeError is the only exception that can unwind through asynq's frames.  Binders and conclusions are those of
   the theorems of the same name without the suffix _guard. *)
From Asynq Require Import proofs.MachineNoUnwind proofs.MachineGuardFormsS.
Theorem C02_delivered_only_when_all_siblings_done_stree_guard : forall P, pointwise P -> forall p, stree p -> forall n t,
  let h := fst (create [] (FTask p) (st0 P)) in
  let s1 := snd (create [] (FTask p) (st0 P)) in
  (forall k, (k < n)%nat -> guard_fires P (run P k (start h s1)) = false) ->
  c_mode (run P n (start h s1)) = MResume t ->
  exists tk, get t (c_st (run P n (start h s1))) = Some (mkFut None (KTask tk)) /\
    forall x, In (RFut x) (leaves (tk_last tk)) -> computed x (c_st (run P n (start h s1))) = true.
Proof. exact resume_guard_stree_guard. Qed.
Print Assumptions C02_delivered_only_when_all_siblings_done_stree_guard.

Theorem C02_delivered_is_unwrap_of_own_outcomes_stree_guard : forall P, pointwise P -> forall p, stree p -> forall n t,
  let h := fst (create [] (FTask p) (st0 P)) in
  let s1 := snd (create [] (FTask p) (st0 P)) in
  (forall j, (j < n)%nat -> guard_fires P (run P j (start h s1)) = false) ->
  c_mode (run P n (start h s1)) = MResume t ->
  exists tk k spec, get t (c_st (run P n (start h s1))) = Some (mkFut None (KTask tk)) /\
    tk_gen tk = Some k /\
    c_mode (step P (run P n (start h s1))) =
      MRun t (k (unwrap (look (c_st (run P n (start h s1)))) (tk_last tk))) /\
    unwrap (look (c_st (run P n (start h s1)))) (tk_last tk) = unwrap (look_spec spec) (tk_last tk) /\
    spec t = Some (evals (k (unwrap (look_spec spec) (tk_last tk)))).
Proof. exact delivered_is_unwrap_stree_guard. Qed.
Print Assumptions C02_delivered_is_unwrap_of_own_outcomes_stree_guard.

Theorem C02_uncaught_failure_is_the_outcome_of_value_stree_guard : forall P p n o,
  pointwise P -> stree p ->
  let h := fst (create [] (FTask p) (st0 P)) in
  let s1 := snd (create [] (FTask p) (st0 P)) in
  (forall k, (k < n)%nat -> guard_fires P (run P k (start h s1)) = false) ->
  c_mode (run P n (start h s1)) = MDone o -> o = evals p.
Proof. exact async_eq_seq_stree_guard. Qed.
Print Assumptions C02_uncaught_failure_is_the_outcome_of_value_stree_guard.

Theorem C02_uncaught_failure_ends_value_stree_guard : forall P p n e,
  pointwise P -> stree p -> evals p = Err e ->
  let h := fst (create [] (FTask p) (st0 P)) in
  let s1 := snd (create [] (FTask p) (st0 P)) in
  (forall k, (k < n)%nat -> guard_fires P (run P k (start h s1)) = false) ->
  forall o, c_mode (run P n (start h s1)) = MDone o -> o = Err e.
Proof. exact uncaught_failure_stree_guard. Qed.
Print Assumptions C02_uncaught_failure_ends_value_stree_guard.

Theorem C02_sync_call_stree_guard : forall P, pointwise P -> forall p, stree p -> forall n t h k,
  let h0 := fst (create [] (FTask p) (st0 P)) in
  let s1 := snd (create [] (FTask p) (st0 P)) in
  (forall j, (j < n)%nat -> guard_fires P (run P j (start h0 s1)) = false) ->
  c_mode (run P n (start h0 s1)) = MRun t (Sync h k) ->
  exists spec oh, spec h = Some oh /\ spec t = Some (evals (k oh)) /\ (forall o, stree (k o)) /\
    (fnum t < fnum h)%Z /\ is_task h (c_st (run P n (start h0 s1))) /\
    (forall q, get h (c_st (run P n (start h0 s1))) = Some (mkFut None (KTask (fresh_task q))) -> oh = evals q) /\
    (computed h (c_st (run P n (start h0 s1))) = true -> oh = outcome_of h (c_st (run P n (start h0 s1)))) /\
    c_mode (step P (run P n (start h0 s1))) = MValue h /\
    c_frames (step P (run P n (start h0 s1))) = FValue t k :: c_frames (run P n (start h0 s1)).
Proof. exact sync_call_stree_guard. Qed.
Print Assumptions C02_sync_call_stree_guard.

Theorem C02_sync_delivered_is_outcome_of_awaited_stree_guard : forall P, pointwise P -> forall p, stree p -> forall n o t k fr',
  let h0 := fst (create [] (FTask p) (st0 P)) in
  let s1 := snd (create [] (FTask p) (st0 P)) in
  (forall j, (j < n)%nat -> guard_fires P (run P j (start h0 s1)) = false) ->
  c_mode (step P (run P n (start h0 s1))) = MDeliver o ->
  c_frames (step P (run P n (start h0 s1))) = FValue t k :: fr' ->
  exists spec h, computed h (c_st (run P n (start h0 s1))) = true /\
    o = outcome_of h (c_st (run P n (start h0 s1))) /\ spec h = Some o /\ (fnum t < fnum h)%Z /\
    ((c_mode (run P n (start h0 s1)) = MValue h /\ c_frames (run P n (start h0 s1)) = FValue t k :: fr') \/
     ((c_mode (run P n (start h0 s1)) = MWaitHead \/ c_mode (run P n (start h0 s1)) = MAfterExec) /\
      c_frames (run P n (start h0 s1)) = FWait h :: FValue t k :: fr')).
Proof. exact sync_deliver_origin_stree_guard. Qed.
Print Assumptions C02_sync_delivered_is_outcome_of_awaited_stree_guard.

Theorem C02_sync_return_continues_caller_stree_guard : forall P, pointwise P -> forall p, stree p -> forall n o t k fr',
  let h0 := fst (create [] (FTask p) (st0 P)) in
  let s1 := snd (create [] (FTask p) (st0 P)) in
  (forall j, (j < n)%nat -> guard_fires P (run P j (start h0 s1)) = false) ->
  c_mode (run P n (start h0 s1)) = MDeliver o -> c_frames (run P n (start h0 s1)) = FValue t k :: fr' ->
  exists spec, utask (c_st (run P n (start h0 s1))) t /\ (forall x, stree (k x)) /\
    spec t = Some (evals (k o)) /\
    c_mode (step P (run P n (start h0 s1))) = MRun t (k o) /\
    c_frames (step P (run P n (start h0 s1))) = fr'.
Proof. exact sync_return_stree_guard. Qed.
Print Assumptions C02_sync_return_continues_caller_stree_guard.

Theorem C02_sync_call_returns_sequential_outcome_stree_guard : forall P, pointwise P -> forall p, stree p ->
  forall n m t h k q o,
  let c0 := start (fst (create [] (FTask p) (st0 P))) (snd (create [] (FTask p) (st0 P))) in
  (forall j, (j < m)%nat -> guard_fires P (run P j c0) = false) -> (n < m)%nat ->
  c_mode (run P n c0) = MRun t (Sync h k) ->
  get h (c_st (run P n c0)) = Some (mkFut None (KTask (fresh_task q))) ->
  c_mode (run P m c0) = MDeliver o -> c_frames (run P m c0) = FValue t k :: c_frames (run P n c0) ->
  (forall i, (n < i < m)%nat ->
     ~ (c_frames (run P i c0) = FValue t k :: c_frames (run P n c0) /\ exists o', c_mode (run P i c0) = MDeliver o')) ->
  o = evals q /\
  exists spec, spec t = Some (evals (k (evals q))) /\ c_mode (step P (run P m c0)) = MRun t (k (evals q)).
Proof. exact sync_call_returns_evals_stree_guard. Qed.
Print Assumptions C02_sync_call_returns_sequential_outcome_stree_guard.

Theorem C02_sync_call_expression_returns_sequential_outcome_stree_guard : forall P, pointwise P -> forall p, stree p ->
  forall n m t k q o,
  let c0 := start (fst (create [] (FTask p) (st0 P))) (snd (create [] (FTask p) (st0 P))) in
  (forall j, (j < m)%nat -> guard_fires P (run P j c0) = false) -> (n + 1 < m)%nat ->
  c_mode (run P n c0) = MRun t (Let (FTask q) (fun h => Sync h k)) ->
  c_mode (run P m c0) = MDeliver o -> c_frames (run P m c0) = FValue t k :: c_frames (run P n c0) ->
  (forall i, (n + 1 < i < m)%nat ->
     ~ (c_frames (run P i c0) = FValue t k :: c_frames (run P n c0) /\ exists o', c_mode (run P i c0) = MDeliver o')) ->
  o = evals q /\
  exists spec, spec t = Some (evals (k (evals q))) /\ c_mode (step P (run P m c0)) = MRun t (k (evals q)).
Proof. exact sync_call_expr_returns_evals_stree_guard. Qed.
Print Assumptions C02_sync_call_expression_returns_sequential_outcome_stree_guard.
