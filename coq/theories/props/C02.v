(* C02 — failures propagate like sequential exceptions.  Pure theorems about asynq's unwrap
   (async_task.py 427-470) for every yielded structure, of any nesting and size:
   unwrap fails iff some leaf fails, with the error of the FIRST failing leaf in written order
   (a non-future object counts as a failing leaf carrying TypeError), and succeeds iff every leaf
   succeeded.  The scheduling half (delivery only after all siblings completed, same exception
   instance) is covered by the correspondence and the in-process monitors, not by a theorem. *)
From Asynq Require Import Prog proofs.ProgProofs.

Theorem C02_first_failing_future_wins : forall (A : Type) (look : A -> outcome) (s : ystruct A),
  match unwrap look s with
  | Err e => first_err (map look (leaves s)) = Some e
  | Ok _ => first_err (map look (leaves s)) = None
  end.
Proof. exact (fun A look s => unwrap_first_error look s). Qed.
Print Assumptions C02_first_failing_future_wins.
