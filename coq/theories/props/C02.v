(* C02 — failures propagate like sequential exceptions, after all siblings finish.
   Statements only; proofs in proofs/ProgProofs.v, proofs/MachineC01.v, proofs/MachineC02.v.

   (1) pure, every structure: unwrap fails iff some leaf fails, with the error of the FIRST failing
       leaf in written order (a non-future counts as a failing leaf with TypeError);
   (2) machine, tree programs: a task is resumed only when every future it yielded is computed;
   (3) machine, tree programs: what it receives is unwrap of those futures' own outcomes (exception
       ids are instance identities), and an uncaught one becomes the task's and finally value()'s
       outcome - the latter is C01_async_eq_seq_tree, whose [eval] propagates exception ids.
   Programs with stored handles and synchronous re-entry: correspondence + monitors only. *)
From Asynq Require Import Machine Seq proofs.ProgProofs proofs.MachineC08 proofs.MachineC01 proofs.MachineC02.

Theorem C02_first_failing_future_wins : forall (A : Type) (look : A -> outcome) (s : ystruct A),
  match unwrap look s with
  | Err e => first_err (map look (leaves s)) = Some e
  | Ok _ => first_err (map look (leaves s)) = None
  end.
Proof. exact (fun A look s => unwrap_first_error look s). Qed.
Print Assumptions C02_first_failing_future_wins.

Theorem C02_delivered_only_when_all_siblings_done : forall P, pointwise P -> forall p, tree p -> forall n t,
  let h := fst (create [] (FTask p) (st0 P)) in
  let s1 := snd (create [] (FTask p) (st0 P)) in
  no_unwind P n (start h s1) -> c_mode (run P n (start h s1)) = MResume t ->
  exists tk, get t (c_st (run P n (start h s1))) = Some (mkFut None (KTask tk)) /\
    forall x, In (RFut x) (leaves (tk_last tk)) -> computed x (c_st (run P n (start h s1))) = true.
Proof. exact resume_guard_tree. Qed.
Print Assumptions C02_delivered_only_when_all_siblings_done.

Theorem C02_delivered_is_unwrap_of_own_outcomes : forall P, pointwise P -> forall p, tree p -> forall n t,
  let h := fst (create [] (FTask p) (st0 P)) in
  let s1 := snd (create [] (FTask p) (st0 P)) in
  no_unwind P n (start h s1) -> c_mode (run P n (start h s1)) = MResume t ->
  exists tk k spec, get t (c_st (run P n (start h s1))) = Some (mkFut None (KTask tk)) /\
    tk_gen tk = Some k /\
    c_mode (step P (run P n (start h s1))) =
      MRun t (k (unwrap (look (c_st (run P n (start h s1)))) (tk_last tk))) /\
    unwrap (look (c_st (run P n (start h s1)))) (tk_last tk) = unwrap (look_spec spec) (tk_last tk) /\
    spec t = Some (eval (k (unwrap (look_spec spec) (tk_last tk)))).
Proof. exact delivered_is_unwrap_tree. Qed.
Print Assumptions C02_delivered_is_unwrap_of_own_outcomes.

Theorem C02_uncaught_failure_is_the_outcome_of_value : forall P p n o,
  pointwise P -> tree p ->
  let h := fst (create [] (FTask p) (st0 P)) in
  let s1 := snd (create [] (FTask p) (st0 P)) in
  no_unwind P n (start h s1) -> c_mode (run P n (start h s1)) = MDone o -> o = eval p.
Proof. exact async_eq_seq_tree. Qed.
Print Assumptions C02_uncaught_failure_is_the_outcome_of_value.
