(* C10 — a future is completed at most once and reports one consistent outcome.
   Only statements; every proof is `exact <lemma>`. *)
From Asynq Require Import Base Futures proofs.FuturesProofs.

Theorem C10_single_assignment : forall s oc, out s = Some oc ->
  (forall v, step s (OSetValue v) = (s, RRaise E_ALREADY)) /\
  (forall e, step s (OSetError e) = (s, RRaise E_ALREADY)).
Proof. exact single_assignment. Qed.
Print Assumptions C10_single_assignment.

Theorem C10_stable : forall ops s oc,
  out s = Some oc -> forallb (fun o => negb (is_reset o)) ops = true ->
  let '(s', rs) := run s ops in
  out s' = Some oc /\ log s' = log s /\ runs s' = runs s /\ all_reads_report ops rs oc.
Proof. exact stable. Qed.
Print Assumptions C10_stable.

Theorem C10_read_reports : forall s o s' r oc,
  step s o = (s', r) -> is_read o = true -> out s' = Some oc -> r = report o oc.
Proof. exact read_reports. Qed.
Print Assumptions C10_read_reports.

Theorem C10_compute_once : forall s o,
  (runs (fst (step s o)) <= S (runs s))%nat /\ (out s <> None -> runs (fst (step s o)) = runs s).
Proof. exact compute_once. Qed.
Print Assumptions C10_compute_once.

Theorem C10_notify_once_after : forall s o,
  let s' := fst (step s o) in
  match out s, out s' with
  | None, Some oc => log s' = log s ++ map (fun sb => (fst sb, oc)) (subs s)
  | _, _ => log s' = log s
  end.
Proof. exact notify_once_after. Qed.
Print Assumptions C10_notify_once_after.

Theorem C10_const_error_complete : forall p v e,
  out (init KConst p (Ok v)) = Some (Ok v) /\ out (init KError p (Err e)) = Some (Err e).
Proof. exact const_error_complete. Qed.
Print Assumptions C10_const_error_complete.
