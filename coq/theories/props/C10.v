(* C10 — a future is completed at most once and reports one consistent outcome.
   Only statements; every proof is `exact <lemma>`. *)
From Asynq Require Import Base Futures proofs.FuturesProofs TaskFut proofs.TaskFutProofs.

Theorem C10_single_assignment : forall s oc, out s = Some oc ->
  (forall v, step s (OSetValue v) = (s, RRaise E_ALREADY)) /\
  (forall e, step s (OSetError e) = (s, RRaise E_ALREADY)).
Proof. exact single_assignment. Qed.
Print Assumptions C10_single_assignment.

Theorem C10_stable : forall ops s oc,
  out s = Some oc -> forallb (fun o => negb (is_reset o)) ops = true ->
  let '(s', rs) := run s ops in
  out s' = Some oc /\ log s' = log s /\ runs s' = runs s /\ all_reads_report ops rs oc.
Proof. exact stable. Qed.
Print Assumptions C10_stable.

Theorem C10_read_reports : forall s o s' r oc,
  step s o = (s', r) -> is_read o = true -> out s' = Some oc -> r = report o oc.
Proof. exact read_reports. Qed.
Print Assumptions C10_read_reports.

Theorem C10_compute_once : forall s o,
  (runs (fst (step s o)) <= S (runs s))%nat /\ (out s <> None -> runs (fst (step s o)) = runs s).
Proof. exact compute_once. Qed.
Print Assumptions C10_compute_once.

Theorem C10_notify_once_after : forall s o,
  let s' := fst (step s o) in
  match out s, out s' with
  | None, Some oc => log s' = log s ++ notes (subs s) oc /\ subs s' = after_notify (subs s)
  | _, _ => log s' = log s
  end.
Proof. exact notify_once_after. Qed.
Print Assumptions C10_notify_once_after.

(* re-entrant subscribers: the notification loop calls exactly the subscribers that were registered
   when the completion began (the snapshot), each once, in order - whatever their scripts do to the
   live subscription list (unsubscribe themselves / a later / an earlier one, subscribe, raise) *)
Theorem C10_notify_snapshot : forall snap live, snd (notify snap live) = map fst snap.
Proof. exact notify_snapshot. Qed.
Print Assumptions C10_notify_snapshot.

Theorem C10_notify_plain_keeps_subscribers : forall snap live,
  forallb (fun sb => plain (snd sb)) snap = true -> fst (notify snap live) = live.
Proof. exact notify_plain. Qed.
Print Assumptions C10_notify_plain_keeps_subscribers.

Theorem C10_subscribers_change_only_by : forall s o,
  subs (fst (step s o)) = subs s \/
  (exists id k, o = OSubscribe id k /\ subs (fst (step s o)) = subs s ++ [(id, k)]) \/
  (out s = None /\ out (fst (step s o)) <> None /\ subs (fst (step s o)) = after_notify (subs s)).
Proof. exact subs_step. Qed.
Print Assumptions C10_subscribers_change_only_by.

Theorem C10_renotify_after_reset : forall s v e,
  out s = None ->
  let s1 := fst (step s (OSetValue v)) in
  let s3 := fst (step (fst (step s1 OReset)) (OSetError e)) in
  log s3 = log s ++ notes (subs s) (Ok v) ++ notes (after_notify (subs s)) (Err e) /\
  subs s3 = after_notify (after_notify (subs s)).
Proof. exact renotify_after_reset. Qed.
Print Assumptions C10_renotify_after_reset.

Theorem C10_const_error_complete : forall p v e,
  out (init KConst p (Ok v)) = Some (Ok v) /\ out (init KError p (Err e)) = Some (Err e).
Proof. exact const_error_complete. Qed.
Print Assumptions C10_const_error_complete.

(* ---- scheduled AsyncTask completed from outside while suspended (TaskFut.v) ---- *)

Theorem C10_task_single_assignment : forall s oc, tout s = Some oc ->
  (forall v, tstep s (OSetValue v) = (s, RRaise E_ALREADY)) /\
  (forall e, tstep s (OSetError e) = (s, RRaise E_ALREADY)) /\
  (forall c v, istep c s (ISetValue v) = (s, RRaise E_ALREADY)) /\
  (forall c e, istep c s (ISetError e) = (s, RRaise E_ALREADY)).
Proof. exact task_single_assignment. Qed.
Print Assumptions C10_task_single_assignment.

Theorem C10_task_ext_set_completes : forall c s, tout s = None ->
  (forall v, let '(s', r) := istep c s (ISetValue v) in
     tout s' = Some (Ok v) /\ tgen s' = None /\ tlog s' = tlog s ++ notes (tsubs s) (Ok v) /\
     tsubs s' = after_notify (tsubs s) /\ r = close_result c) /\
  (forall e, let '(s', r) := istep c s (ISetError e) in
     tout s' = Some (Err e) /\ tgen s' = None /\ tlog s' = tlog s ++ notes (tsubs s) (Err e) /\
     tsubs s' = after_notify (tsubs s) /\ r = close_result c).
Proof. exact ext_set_completes. Qed.
Print Assumptions C10_task_ext_set_completes.

Theorem C10_task_inner_notify_once_after : forall c s o,
  let s' := fst (istep c s o) in
  match tout s, tout s' with
  | None, Some oc => tlog s' = tlog s ++ notes (tsubs s) oc /\ tsubs s' = after_notify (tsubs s)
  | _, _ => tlog s' = tlog s
  end.
Proof. exact inner_notify_once_after. Qed.
Print Assumptions C10_task_inner_notify_once_after.

Theorem C10_task_inner_computed : forall c s oc o, tout s = Some oc ->
  let '(s', r) := istep c s o in
  quiet s s' /\ truns s' = truns s /\
  (is_iset o = true -> s' = s /\ r = RRaise E_ALREADY) /\
  (is_iread o = true -> r = ireport o oc).
Proof. exact istep_computed. Qed.
Print Assumptions C10_task_inner_computed.

Theorem C10_task_body_completes_once : forall ph s, tout s = None -> completed_once s (exec s ph).
Proof. exact exec_completes_once. Qed.
Print Assumptions C10_task_body_completes_once.

Theorem C10_task_notify_once_after : forall s o,
  let s' := fst (tstep s o) in
  match tout s with
  | Some _ => tlog s' = tlog s
  | None => (tout s' = None /\ tlog s' = tlog s) \/ completed_once s s'
  end.
Proof. exact task_notify_once_after. Qed.
Print Assumptions C10_task_notify_once_after.

Theorem C10_task_stable : forall ops s oc,
  tout s = Some oc -> forallb (fun o => negb (is_reset o)) ops = true ->
  let '(s', rs) := trun s ops in
  tout s' = Some oc /\ tlog s' = tlog s /\ truns s' = truns s /\ tall_reads_report ops rs oc.
Proof. exact task_stable. Qed.
Print Assumptions C10_task_stable.

Theorem C10_task_read_reports : forall s o s' r oc,
  tstep s o = (s', r) -> is_read o = true -> tout s' = Some oc -> r = report o oc.
Proof. exact task_read_reports. Qed.
Print Assumptions C10_task_read_reports.

Theorem C10_task_compute_once : forall s o,
  (truns (fst (tstep s o)) <= S (truns s))%nat /\ (tout s <> None -> truns (fst (tstep s o)) = truns s).
Proof. exact task_compute_once. Qed.
Print Assumptions C10_task_compute_once.
