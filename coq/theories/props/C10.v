(* C10 — a future is completed at most once and reports one consistent outcome.
   Only statements; every proof is `exact <lemma>`. *)
From Asynq Require Import Base Futures proofs.FuturesProofs BatchFut proofs.BatchFutProofs TaskFut proofs.TaskFutProofs.

Theorem C10_single_assignment : forall s oc, out s = Some oc ->
  (forall v, step s (OSetValue v) = (s, RRaise E_ALREADY)) /\
  (forall e, step s (OSetError e) = (s, RRaise E_ALREADY)).
Proof. exact single_assignment. Qed.
Print Assumptions C10_single_assignment.

Theorem C10_stable : forall ops s oc,
  out s = Some oc -> forallb (fun o => negb (is_reset o)) ops = true ->
  let '(s', rs) := run s ops in
  out s' = Some oc /\ log s' = log s /\ runs s' = runs s /\ all_reads_report ops rs oc.
Proof. exact stable. Qed.
Print Assumptions C10_stable.

Theorem C10_read_reports : forall s o s' r oc,
  step s o = (s', r) -> is_read o = true -> out s' = Some oc -> r = report o oc.
Proof. exact read_reports. Qed.
Print Assumptions C10_read_reports.

Theorem C10_compute_once : forall s o,
  (runs (fst (step s o)) <= S (runs s))%nat /\ (out s <> None -> runs (fst (step s o)) = runs s).
Proof. exact compute_once. Qed.
Print Assumptions C10_compute_once.

Theorem C10_notify_once_after : forall s o,
  let s' := fst (step s o) in
  match out s, out s' with
  | None, Some oc => log s' = log s ++ notes (subs s) oc /\ subs s' = after_notify (subs s)
  | _, _ => log s' = log s
  end.
Proof. exact notify_once_after. Qed.
Print Assumptions C10_notify_once_after.

(* re-entrant subscribers: the notification loop calls exactly the subscribers that were registered
   when the completion began (the snapshot), each once, in order - whatever their scripts do to the
   live subscription list (unsubscribe themselves / a later / an earlier one, subscribe, raise) *)
Theorem C10_notify_snapshot : forall snap live, snd (notify snap live) = map fst snap.
Proof. exact notify_snapshot. Qed.
Print Assumptions C10_notify_snapshot.

Theorem C10_notify_plain_keeps_subscribers : forall snap live,
  forallb (fun sb => plain (snd sb)) snap = true -> fst (notify snap live) = live.
Proof. exact notify_plain. Qed.
Print Assumptions C10_notify_plain_keeps_subscribers.

Theorem C10_subscribers_change_only_by : forall s o,
  subs (fst (step s o)) = subs s \/
  (exists id k, o = OSubscribe id k /\ subs (fst (step s o)) = subs s ++ [(id, k)]) \/
  (out s = None /\ out (fst (step s o)) <> None /\ subs (fst (step s o)) = after_notify (subs s)).
Proof. exact subs_step. Qed.
Print Assumptions C10_subscribers_change_only_by.

Theorem C10_renotify_after_reset : forall s v e,
  out s = None ->
  let s1 := fst (step s (OSetValue v)) in
  let s3 := fst (step (fst (step s1 OReset)) (OSetError e)) in
  log s3 = log s ++ notes (subs s) (Ok v) ++ notes (after_notify (subs s)) (Err e) /\
  subs s3 = after_notify (after_notify (subs s)).
Proof. exact renotify_after_reset. Qed.
Print Assumptions C10_renotify_after_reset.

Theorem C10_const_error_complete : forall p v e,
  out (init KConst p (Ok v)) = Some (Ok v) /\ out (init KError p (Err e)) = Some (Err e).
Proof. exact const_error_complete. Qed.
Print Assumptions C10_const_error_complete.

(* ---- scheduled AsyncTask completed from outside while suspended (TaskFut.v) ---- *)

Theorem C10_task_single_assignment : forall s oc, tout s = Some oc ->
  (forall v, tstep s (OSetValue v) = (s, RRaise E_ALREADY)) /\
  (forall e, tstep s (OSetError e) = (s, RRaise E_ALREADY)) /\
  (forall c v, istep c s (ISetValue v) = (s, RRaise E_ALREADY)) /\
  (forall c e, istep c s (ISetError e) = (s, RRaise E_ALREADY)).
Proof. exact task_single_assignment. Qed.
Print Assumptions C10_task_single_assignment.

Theorem C10_task_ext_set_completes : forall c s, tout s = None ->
  (forall v, let '(s', r) := istep c s (ISetValue v) in
     tout s' = Some (Ok v) /\ tgen s' = None /\ tlog s' = tlog s ++ notes (tsubs s) (Ok v) /\
     tsubs s' = after_notify (tsubs s) /\ r = close_result c) /\
  (forall e, let '(s', r) := istep c s (ISetError e) in
     tout s' = Some (Err e) /\ tgen s' = None /\ tlog s' = tlog s ++ notes (tsubs s) (Err e) /\
     tsubs s' = after_notify (tsubs s) /\ r = close_result c).
Proof. exact ext_set_completes. Qed.
Print Assumptions C10_task_ext_set_completes.

Theorem C10_task_inner_notify_once_after : forall c s o,
  let s' := fst (istep c s o) in
  match tout s, tout s' with
  | None, Some oc => tlog s' = tlog s ++ notes (tsubs s) oc /\ tsubs s' = after_notify (tsubs s)
  | _, _ => tlog s' = tlog s
  end.
Proof. exact inner_notify_once_after. Qed.
Print Assumptions C10_task_inner_notify_once_after.

Theorem C10_task_inner_computed : forall c s oc o, tout s = Some oc ->
  let '(s', r) := istep c s o in
  quiet s s' /\ truns s' = truns s /\
  (is_iset o = true -> s' = s /\ r = RRaise E_ALREADY) /\
  (is_iread o = true -> r = ireport o oc).
Proof. exact istep_computed. Qed.
Print Assumptions C10_task_inner_computed.

Theorem C10_task_body_completes_once : forall ph s, tout s = None -> completed_once s (exec s ph).
Proof. exact exec_completes_once. Qed.
Print Assumptions C10_task_body_completes_once.

Theorem C10_task_notify_once_after : forall s o,
  let s' := fst (tstep s o) in
  match tout s with
  | Some _ => tlog s' = tlog s
  | None => (tout s' = None /\ tlog s' = tlog s) \/ completed_once s s'
  end.
Proof. exact task_notify_once_after. Qed.
Print Assumptions C10_task_notify_once_after.

Theorem C10_task_stable : forall ops s oc,
  tout s = Some oc -> forallb (fun o => negb (is_reset o)) ops = true ->
  let '(s', rs) := trun s ops in
  tout s' = Some oc /\ tlog s' = tlog s /\ truns s' = truns s /\ tall_reads_report ops rs oc.
Proof. exact task_stable. Qed.
Print Assumptions C10_task_stable.

Theorem C10_task_read_reports : forall s o s' r oc,
  tstep s o = (s', r) -> is_read o = true -> tout s' = Some oc -> r = report o oc.
Proof. exact task_read_reports. Qed.
Print Assumptions C10_task_read_reports.

Theorem C10_task_compute_once : forall s o,
  (truns (fst (tstep s o)) <= S (truns s))%nat /\ (tout s <> None -> truns (fst (tstep s o)) = truns s).
Proof. exact task_compute_once. Qed.
Print Assumptions C10_task_compute_once.

(* ---- "... even if another subscriber raises an Exception": WHICH Exception class a subscriber
   raises (AssertionError, ValueError, KeyError, RuntimeError, StopIteration, a user-defined subclass,
   asynq's own FutureIsAlreadyComputed, ... - Futures.xcls) is irrelevant: relabelling the classes of
   all raises by an arbitrary function changes no op result, no callback record, no run count and
   nobody's registration - per operation, per op list, and for every case of the correspondence ---- *)

Theorem C10_raise_class_step : forall f s o,
  step (recls_state f s) (recls_op f o) = (recls_state f (fst (step s o)), snd (step s o)).
Proof. exact step_recls. Qed.
Print Assumptions C10_raise_class_step.

Theorem C10_raise_class_notify : forall f snap live,
  notify (map (recls_sub f) snap) (map (recls_sub f) live) =
  (map (recls_sub f) (fst (notify snap live)), snd (notify snap live)).
Proof. exact notify_recls. Qed.
Print Assumptions C10_raise_class_notify.

Theorem C10_raise_class_irrelevant : forall f k p o ops,
  run_case k p o (map (recls_op f) ops) = run_case k p o ops.
Proof. exact raise_class_irrelevant. Qed.
Print Assumptions C10_raise_class_irrelevant.

Theorem C10_unsubscribe_absent_is_a_raise : forall t live,
  remove_first t live = None -> run_cb (CbUnsub t) live = run_cb (CbRaise XValue) live.
Proof. exact run_cb_unsub_absent. Qed.
Print Assumptions C10_unsubscribe_absent_is_a_raise.

Theorem C10_task_raise_class_step : forall f s o,
  tstep (recls_tstate f s) (recls_op f o) = (recls_tstate f (fst (tstep s o)), snd (tstep s o)).
Proof. exact tstep_recls. Qed.
Print Assumptions C10_task_raise_class_step.

Theorem C10_task_raise_class_inner_step : forall f c s o,
  istep c (recls_tstate f s) (recls_iop f o) = (recls_tstate f (fst (istep c s o)), snd (istep c s o)).
Proof. exact istep_recls. Qed.
Print Assumptions C10_task_raise_class_inner_step.

(* ---- a batch and its items as futures (BatchFut.v): item completions are nested in the batch's
   completion (flush body, BatchBase._computed's item loop) ---- *)

(* Every statement below holds with CROSS-FUTURE CALLBACKS: a subscriber of one future may complete
   another future of the case from inside its notification (CbSet: a later / earlier sibling item, the
   item itself, the batch), a _cancel() override may set items; nested to any depth.
   [ext_at s s' u] is C10 for future u between two states: computed => outcome, callback records and
   subscription list untouched; uncomputed => untouched, or completed ONCE: it holds an outcome oc and
   the records of u grew by exactly one per subscriber u had in s, in order, each carrying oc.       *)

Theorem C10_batch_single_assignment : forall s t oc o,
  fout s t = Some oc -> bset s t o = (s, RRaise E_ALREADY).
Proof. exact bset_single. Qed.
Print Assumptions C10_batch_single_assignment.

Theorem C10_batch_single_assignment_nested : forall d s t oc o,
  fout s t = Some oc -> bset_at (S d) s t o = (s, RRaise E_ALREADY).
Proof. exact bset_at_single. Qed.
Print Assumptions C10_batch_single_assignment_nested.

Theorem C10_batch_set_completes : forall s t o, fout s t = None -> fexists s t = true ->
  fout (fst (bset s t o)) t = Some o /\ snd (bset s t o) = RUnit.
Proof. exact bset_completes. Qed.
Print Assumptions C10_batch_set_completes.

Theorem C10_batch_set_every_future_once : forall s t o,
  ext s (fst (bset s t o)) /\ (all_items_computed s -> all_items_computed (fst (bset s t o))).
Proof. exact bset_ext. Qed.
Print Assumptions C10_batch_set_every_future_once.

Theorem C10_batch_nested_every_future_once : forall d, wb (bset_at d).
Proof. exact bset_at_wb. Qed.
Print Assumptions C10_batch_nested_every_future_once.

Theorem C10_batch_completion_computes_all_items : forall s o, bout s = None -> allcomp (fst (bset s 0 o)).
Proof. exact bset_batch_all_items. Qed.
Print Assumptions C10_batch_completion_computes_all_items.

Theorem C10_batch_item_loop_rechecks : forall d e n i s j oc,
  (i + n <= length (bitems s))%nat -> item_out s j = Some oc ->
  item_out (fill_loop (bset_at d) i n e s) j = Some oc.
Proof. exact fill_loop_keeps. Qed.
Print Assumptions C10_batch_item_loop_rechecks.

Theorem C10_batch_step_every_future_once : forall s o,
  all_items_computed s -> is_subscribe o = false -> step_ok s (fst (bstep s o)).
Proof. exact bstep_spec. Qed.
Print Assumptions C10_batch_step_every_future_once.

Theorem C10_batch_subscribe_only_appends : forall s t id k, all_items_computed s ->
  let s' := fst (bstep s (BOn t (OSubscribe id k))) in
  all_items_computed s' /\ (s' = s \/ s' = set_fsubs s t (fsubs s t ++ [(id, k)])).
Proof. exact bstep_subscribe. Qed.
Print Assumptions C10_batch_subscribe_only_appends.

Theorem C10_batch_items_computed_with_batch : forall ops its fin cs,
  all_items_computed (fst (brun (binit its fin cs) ops)).
Proof. exact brun_init_inv. Qed.
Print Assumptions C10_batch_items_computed_with_batch.

Theorem C10_batch_read_completes : forall s, all_items_computed s -> bout s = None ->
  bout (bcompute_top s) <> None /\ allcomp (bcompute_top s).
Proof. exact read_completes. Qed.
Print Assumptions C10_batch_read_completes.

Theorem C10_batch_read_reports : forall s rep oc,
  bout (fst (bread s rep)) = Some oc -> snd (bread s rep) = rep oc.
Proof. exact bread_reports. Qed.
Print Assumptions C10_batch_read_reports.

Theorem C10_item_read_reports : forall s i rep oc,
  item_out (fst (iread s i rep)) i = Some oc -> snd (iread s i rep) = rep oc.
Proof. exact iread_reports. Qed.
Print Assumptions C10_item_read_reports.

Theorem C10_batch_stable : forall s oc o, bout s = Some oc -> allcomp s -> is_subscribe o = false ->
  fst (bstep s o) = s.
Proof. exact bstep_all_computed. Qed.
Print Assumptions C10_batch_stable.

Theorem C10_batch_raise_class_irrelevant : forall f its fin cs ops,
  run_batch (map (recls_ispec f) its) fin cs (map (recls_bop f) ops) = run_batch its fin cs ops.
Proof. exact batch_raise_class_irrelevant. Qed.
Print Assumptions C10_batch_raise_class_irrelevant.

Theorem C10_any_raise_class_irrelevant : forall f c, run_any (recls_case f c) = run_any c.
Proof. exact any_raise_class_irrelevant. Qed.
Print Assumptions C10_any_raise_class_irrelevant.

Theorem C10_same_shape_same_result : forall c c',
  recls_case (fun _ => XUser) c = recls_case (fun _ => XUser) c' -> run_any c = run_any c'.
Proof. exact any_same_shape_same_result. Qed.
Print Assumptions C10_same_shape_same_result.

(* ---- the Exception class a PROVIDER / body / flush body raises (Futures.pout PRaise c e): the raised
   instance becomes the future's error whatever its class - also FutureIsAlreadyComputed about another
   future (PDouble: genuinely raised by a second set_value on a shared promise), AssertionError,
   StopIteration, BatchingError ... ; a generator body is subject to PEP 479 only ---- *)

Theorem C10_lazy_read_completes : forall s o,
  fkind s = KLazy -> out s = None -> is_computing_read o = true ->
  (forall e rest, prov s <> PBase e :: rest) ->
  let s' := fst (step s o) in
  exists oc, out s' = Some oc /\ runs s' = S (runs s) /\ log s' = log s ++ notes (subs s) oc /\
    snd (step s o) = report o oc /\
    match prov s with
    | PRaise _ e :: _ => oc = Err e
    | PDouble :: _ => oc = Err E_ALREADY
    | PRet v :: _ => oc = Ok v
    | _ => oc = Ok VNone
    end.
Proof. exact lazy_read_completes. Qed.
Print Assumptions C10_lazy_read_completes.

Theorem C10_provider_class_step : forall f s o, (fkind s = KTask -> gen_cls_ok f) ->
  step (pstate f s) o = (pstate f (fst (step s o)), snd (step s o)).
Proof. exact step_pstate. Qed.
Print Assumptions C10_provider_class_step.

Theorem C10_provider_class_irrelevant : forall f k p o ops, (k = KTask -> gen_cls_ok f) ->
  run_case k (map (recls_pout f) p) o ops = run_case k p o ops.
Proof. exact provider_class_irrelevant. Qed.
Print Assumptions C10_provider_class_irrelevant.

Theorem C10_lazy_provider_class_irrelevant : forall f p o ops,
  run_case KLazy (map (recls_pout f) p) o ops = run_case KLazy p o ops.
Proof. exact lazy_provider_class_irrelevant. Qed.
Print Assumptions C10_lazy_provider_class_irrelevant.

Theorem C10_task_provider_class_irrelevant : forall f ph fin ops, gen_cls_ok f ->
  run_task ph (recls_pout f fin) ops = run_task ph fin ops.
Proof. exact task_provider_class_irrelevant. Qed.
Print Assumptions C10_task_provider_class_irrelevant.

Theorem C10_batch_provider_class_irrelevant : forall f its fin cs ops,
  run_batch its (recls_pout f fin) cs ops = run_batch its fin cs ops.
Proof. exact batch_provider_class_irrelevant. Qed.
Print Assumptions C10_batch_provider_class_irrelevant.

Theorem C10_any_provider_class_irrelevant : forall f c,
  (generator_body c = true -> gen_cls_ok f) -> run_any (precls_case f c) = run_any c.
Proof. exact any_provider_class_irrelevant. Qed.
Print Assumptions C10_any_provider_class_irrelevant.

Theorem C10_pep479_respecting_relabelling_exists :
  gen_cls_ok (fun c => match c with XStopIteration => XStopIteration | _ => XAlreadyComputed end).
Proof. exact gen_cls_ok_example. Qed.
Print Assumptions C10_pep479_respecting_relabelling_exists.
