(* C09 — all ways of calling an async function agree, for every kind of callable.
   Only statements; every proof is `exact <lemma>`.  Each theorem holds for every argument type A,
   raise predicate, defaults, positional list and keyword map (any length), every body kind (shape x
   return style: return v / result(v); return), every calling context cx (top level, generator task,
   plain-bodied task, nested synchronously called task), every history hs of earlier lookups of the same
   decorated attribute through other classes / instances of the hierarchy C, Sub(C), Sub2(C), and every
   decorator x binding cell the decorators are written for (valid d b = true; 98 cells). *)
From Asynq Require Import Base Dispatch proofs.DispatchProofs.

(* T1: .asynq().value(), yield .asynq(), async_call (and, for callables without .asynq, the direct
   call, yielding it and async_call) are the same invocation: same body, receiver, arguments, outcome;
   the synchronous call has the same effect (sync_fn's body with the same receiver/arguments for a pair);
   the body is reached with [bound receiver] ++ the user's positionals *)
Theorem C09_conventions_agree : forall A raises dflt_b dflt_k cx hs d b bk pos kw,
  valid d b = true ->
  let inv f := invoke A raises dflt_b dflt_k cx hs d b f pos kw bk in
  (has_async hs d b = true ->
     inv YieldAsynq = inv AsynqValue /\ inv AsyncCall = inv AsynqValue /\
     (d <> DPair -> eff A (inv Sync) = eff A (inv AsynqValue)) /\
     (d = DPair -> eff A (inv Sync) = as_sync A (eff A (inv AsynqValue))) /\
     eff A (inv AsynqValue) = async_effect A raises dflt_b dflt_k d (style_of b) bk (prepend A (expected_recv b) pos) kw) /\
  (has_async hs d b = false ->
     inv AsynqValue = (SNoAsynqAttr, [], RErr E_ATTR) /\ inv YieldAsynq = (SNoAsynqAttr, [], RErr E_ATTR) /\
     inv YieldDirect = inv Sync /\ inv AsyncCall = inv Sync /\
     eff A (inv Sync) = async_effect A raises dflt_b dflt_k d (style_of b) bk (prepend A (expected_recv b) pos) kw).
Proof. exact conventions_agree. Qed.
Print Assumptions C09_conventions_agree.

(* T1b: both call paths prepend the bound instance/class exactly once *)
Theorem C09_receiver_once : forall A raises dflt_b dflt_k cx hs d b bk pos kw,
  valid d b = true ->
  target_call A raises dflt_b dflt_k cx hs d b bk pos kw =
    (ret_kind d, direct_effect A raises dflt_b dflt_k cx d (style_of b) bk (prepend A (expected_recv b) pos) kw) /\
  (has_async hs d b = true ->
   target_asynq A raises dflt_b dflt_k hs d b bk pos kw =
     Some (async_effect A raises dflt_b dflt_k d (style_of b) bk (prepend A (expected_recv b) pos) kw)) /\
  (has_async hs d b = false -> target_asynq A raises dflt_b dflt_k hs d b bk pos kw = None).
Proof. exact receiver_once. Qed.
Print Assumptions C09_receiver_once.

(* ... and a receiver in front is consumed by the body once and shifts no argument *)
Theorem C09_bound_body : forall A raises dflt_b dflt_k t st bk act r pos kw,
  st <> SFunc ->
  run_fn A raises dflt_b dflt_k t st bk act (r :: pos) kw = with_recv A r (run_fn A raises dflt_b dflt_k t SFunc bk act pos kw).
Proof. exact bound_body. Qed.
Print Assumptions C09_bound_body.

(* T3: with sync_fn the synchronous call runs sync_fn's body only, the asynchronous forms fn's body
   only, both with the same receiver and arguments *)
Theorem C09_sync_fn_runs_sync : forall A raises dflt_b dflt_k cx hs b bk pos kw,
  let s := invoke A raises dflt_b dflt_k cx hs DPair b Sync pos kw bk in
  let a := invoke A raises dflt_b dflt_k cx hs DPair b AsynqValue pos kw bk in
  eff A s = as_sync A (eff A a) /\
  stat A a = match snd (eff A a) with RErr _ => SRaised | _ => SRetFuture end /\
  stat A s = match snd (eff A s) with RErr _ => SRaised | _ => SRetValue end /\
  Forall (fun c => call_tag A c = Some SyncBody) (fst (eff A s)) /\
  Forall (fun c => call_tag A c = Some FnBody) (fst (eff A a)) /\
  invoke A raises dflt_b dflt_k cx hs DPair b YieldAsynq pos kw bk = a /\
  invoke A raises dflt_b dflt_k cx hs DPair b AsyncCall pos kw bk = a.
Proof. exact sync_fn_runs_sync. Qed.
Print Assumptions C09_sync_fn_runs_sync.

(* T2: the five classification helpers agree with how the callable can actually be called *)
Theorem C09_classify_consistent : forall A raises dflt_b dflt_k cx hs d b bk pos kw,
  valid d b = true ->
  let inv f := invoke A raises dflt_b dflt_k cx hs d b f pos kw bk in
  (has_async hs d b = true <-> exists e, target_asynq A raises dflt_b dflt_k hs d b bk pos kw = Some e) /\
  (is_pure hs d b = true <-> fst (target_call A raises dflt_b dflt_k cx hs d b bk pos kw) = KFuture) /\
  has_async hs d b = negb (is_pure hs d b) /\ is_async hs d b = true /\
  get_async_kind hs d b = (if has_async hs d b then GAsynqAttr else GSelf) /\
  get_async_or_sync_kind hs d b = get_async_kind hs d b /\
  inv ViaGetAsync = inv AsyncCall /\ inv ViaGetAsyncOrSync = inv AsyncCall /\
  eff A (inv AsyncCall) = async_effect A raises dflt_b dflt_k d (style_of b) bk (prepend A (expected_recv b) pos) kw /\
  stat A (inv AsyncCall) = match snd (eff A (inv AsyncCall)) with RErr _ => SRaised | _ => SRetFuture end.
Proof. exact classify_consistent. Qed.
Print Assumptions C09_classify_consistent.

(* no calling form ever hands an unresolved future back as the value *)
Theorem C09_no_unresolved_future : forall A raises dflt_b dflt_k cx hs d b f bk pos kw,
  valid d b = true -> res_no_future A (snd (invoke A raises dflt_b dflt_k cx hs d b f pos kw bk)).
Proof. exact no_unresolved_future. Qed.
Print Assumptions C09_no_unresolved_future.

(* T4: a calling form executed inside a running task never finishes THAT task with the callee's value
   (no AsyncTaskResult leaves a form; at top level none comes out as an exception), and it gives the
   same status, body runs and outcome as at top level *)
Theorem C09_context_independent : forall A raises dflt_b dflt_k cx hs d b f bk pos kw,
  valid d b = true ->
  invoke A raises dflt_b dflt_k cx hs d b f pos kw bk = invoke A raises dflt_b dflt_k CTop hs d b f pos kw bk /\
  invoke_ctx A raises dflt_b dflt_k cx hs d b f pos kw bk = (caller_of cx, invoke A raises dflt_b dflt_k CTop hs d b f pos kw bk).
Proof. exact context_independent. Qed.
Print Assumptions C09_context_independent.

Theorem C09_caller_intact : forall A raises dflt_b dflt_k cx hs d b f bk pos kw,
  valid d b = true ->
  invoke_ctx A raises dflt_b dflt_k cx hs d b f pos kw bk = (caller_of cx, invoke A raises dflt_b dflt_k cx hs d b f pos kw bk) /\
  res_no_escape A (snd (invoke A raises dflt_b dflt_k cx hs d b f pos kw bk)).
Proof. exact caller_intact. Qed.
Print Assumptions C09_caller_intact.

(* T5: whatever value a form hands back was computed by fn's body inside a task made for fn (the body
   sees its own task as get_active_task(), in every form and context), or by sync_fn's plain body *)
Theorem C09_body_in_own_task : forall A raises dflt_b dflt_k cx hs d b f bk pos kw,
  valid d b = true -> res_own A bk (snd (invoke A raises dflt_b dflt_k cx hs d b f pos kw bk)).
Proof. exact body_in_own_task. Qed.
Print Assumptions C09_body_in_own_task.

(* T6: a body ending in  result(v); return  behaves, under every form, exactly as one ending in  return v *)
Theorem C09_result_is_return : forall A raises dflt_b dflt_k cx hs d b f s pos kw,
  valid d b = true ->
  invoke A raises dflt_b dflt_k cx hs d b f pos kw (BK s RetResult) = invoke A raises dflt_b dflt_k cx hs d b f pos kw (BK s RetReturn).
Proof. exact result_is_return. Qed.
Print Assumptions C09_result_is_return.

(* the finite part, swept: all 98 valid cells classify consistently; the enumerations are complete *)
Theorem C09_classification_sweep :
  forallb (fun d => forallb (cell_ok d) all_bindings) all_decos = true /\
  length (filter (fun p => valid (fst p) (snd p)) (list_prod all_decos all_bindings)) = 98%nat.
Proof. exact classification_sweep. Qed.
Print Assumptions C09_classification_sweep.

Theorem C09_enumerations_complete :
  (forall d, In d all_decos) /\ (forall b, In b all_bindings) /\ (forall f, In f all_forms) /\
  (forall bk, In bk all_bodykinds) /\ (forall c, In c all_ctxs).
Proof. exact (conj all_decos_complete (conj all_bindings_complete (conj all_forms_complete
              (conj all_bodykinds_complete all_ctxs_complete)))). Qed.
Print Assumptions C09_enumerations_complete.

(* T7: the outcome of a call is independent of the lookup history: whatever paths hs (base class, subclass,
   sibling subclass, instances of them) the same decorated attribute was looked up / called through before,
   a call through path b gives the same status, body runs (receiver!), outcome, caller state and classification
   as the first-ever use *)
Theorem C09_history_independent : forall A raises dflt_b dflt_k cx hs d b f bk pos kw,
  invoke A raises dflt_b dflt_k cx hs d b f pos kw bk = invoke A raises dflt_b dflt_k cx [] d b f pos kw bk /\
  invoke_ctx A raises dflt_b dflt_k cx hs d b f pos kw bk = invoke_ctx A raises dflt_b dflt_k cx [] d b f pos kw bk /\
  (is_async hs d b, is_pure hs d b, has_async hs d b, get_async_kind hs d b, get_async_or_sync_kind hs d b) =
  (is_async [] d b, is_pure [] d b, has_async [] d b, get_async_kind [] d b, get_async_or_sync_kind [] d b).
Proof. exact history_independent. Qed.
Print Assumptions C09_history_independent.

(* ... because no lookup writes to the decorator object stored in the class (its sync_fn stays unbound; the
   bound copy is handed out, never kept) *)
Theorem C09_stored_decorator_unchanged : forall d s hs, after_hist d s hs = s.
Proof. exact after_hist_id. Qed.
Print Assumptions C09_stored_decorator_unchanged.

(* a whole trace of uses of one attribute: each one's outcome is its outcome in isolation *)
Theorem C09_trace_independent : forall A raises dflt_b dflt_k hs d bk ws,
  run_warm A raises dflt_b dflt_k hs d bk ws = map (warm_out A raises dflt_b dflt_k [] d bk) ws.
Proof. exact trace_independent. Qed.
Print Assumptions C09_trace_independent.

(* T8: bound to the class it was called through: after any history, both call paths reach the body with the
   receiver Python binds for THIS lookup's (owner, cls) - cls for a classmethod, the instance for a method,
   nothing for a staticmethod - prepended exactly once *)
Theorem C09_bound_to_own_lookup : forall A raises dflt_b dflt_k cx hs d b bk pos kw,
  valid d b = true ->
  let r := match access b with None => None | Some (owner, cls) => py_get (mtype_of b) owner cls end in
  target_call A raises dflt_b dflt_k cx hs d b bk pos kw =
    (ret_kind d, direct_effect A raises dflt_b dflt_k cx d (style_of b) bk (prepend A r pos) kw) /\
  (has_async hs d b = true ->
   target_asynq A raises dflt_b dflt_k hs d b bk pos kw =
     Some (async_effect A raises dflt_b dflt_k d (style_of b) bk (prepend A r pos) kw)).
Proof. exact bound_to_own_lookup. Qed.
Print Assumptions C09_bound_to_own_lookup.
