(* C01 — async execution returns exactly what sequential evaluation would.
   Statements only; proofs in proofs/MachineC01.v, proofs/MachineC01S.v and proofs/ProgProofs.v.

   PROVED, for every flush order (oracle), priority assignment, KEEP_DEPENDENCIES setting and fuel:
   - C01_async_eq_seq_tree: the whole-program theorem for yield-only TREE programs: every future is created in
     the yield expression that awaits it (arbitrary nesting of tuples/lists/dicts, None, non-future objects,
     constant / error / lazy futures, batch items of any kinds, child tasks to any depth, try/except by way of
     the continuations, plain AsyncContexts and scoped overrides).
   - C01_async_eq_seq_stree (appended at the end, proofs/MachineC01S.v): the same for the class [stree] = tree +
     SYNCHRONOUS CALLS of fresh tasks, fn(args) / fn.asynq(args).value() inside task code, i.e. the program
     Let (FTask q) (fun h => Sync h k), nested to any depth, the callees being stree programs themselves
     (they may yield batch items, child tasks, call further functions ...).  The reference is [evals]
     (= Seq.eval plus: a call evaluates the callee on the spot); on tree programs evals = eval
     (C01_evals_agrees_with_eval_on_tree) and tree is included in stree, so the stree theorem subsumes the tree
     theorem.  The nested scheduler loops may flush any scheduled batch, including batches the outer
     computations wait for (C01_stree_hypotheses_satisfiable exhibits such a run); the value obtained by
     every caller is still the sequential one.  C01_async_eq_seq_stree_after_history: the same on a scheduler
     state left behind by earlier computations, and the state left behind satisfies the invariant again, so
     the theorem applies to every computation of a history of stree computations.
   Hypotheses of all of them: [pointwise] - no flush body raises half way (otherwise an item's answer depends
   on its position in the batch and "sequential evaluation" is not defined); [no_unwind] - no exception
   unwound through asynq's own frames.
   - For TREE programs the hypothesis [no_unwind] is discharged (proofs/MachineNoUnwind.v): the only exception
     that can unwind is the RuntimeError of the MAX_TASK_STACK_SIZE guard (FutureIsAlreadyComputed is
     unreachable, props/C08.v C08_tree_never_raises_already_computed), so
     C01_async_eq_seq_tree_unless_guard: if the outermost value() returns o then o = eval p OR the guard fired
     at some earlier step ([guard_fires P c]: the boolean test of the _execute loop head in Machine.step,
     `len(tasks) > init_num_tasks and len(tasks) > MAX_TASK_STACK_SIZE`); and
     C01_async_eq_seq_tree_few_futures: no such alternative at all while the number of futures created so far
     (top_next) is at most MAX_TASK_STACK_SIZE - the task stack of a tree computation holds pairwise distinct
     futures, so it cannot be longer (C08_tree_stack_bound).  C01_guard_alternative_is_real: both cases occur
     (c01_demo with MAX_TASK_STACK_SIZE = 1000 resp. 1, where the outcome is the guard's RuntimeError).
     C01_async_eq_seq_stree_unless_guard: the "unless the guard fired" form also for [stree] programs (there the
     RuntimeError may be caught by the caller of a synchronous call and the run go on; nothing is claimed
     about the outcome then).  No "few futures" theorem for stree programs.

   NOT PROVED (statement kept at the end of the file): programs with stored handles - a future created by
   Let and awaited later or twice (DAGs), LOld leaves, value() on an already existing future (including a
   synchronous value() on a batch item or on somebody else's task) -, programs reading scoped state or the
   active task (ReadVar / Probe; their sequential meaning needs an environment), contexts whose
   pause/resume raise; for them C01 rests on the correspondence and the monitors.
   WITHOUT THE HYPOTHESIS no_unwind FOR stree PROGRAMS (end of the file; proofs/MachineGuardFormsS.v): the stree
   theorems whose hypothesis is no_unwind P n (start h s1) are restated with "the MAX_TASK_STACK_SIZE guard has not
   fired before step n" in its place (MachineNoUnwind.stree_no_unwind_iff_guard_silent):
   C01_async_eq_seq_stree_guard. *)
From Asynq Require Import Machine Seq proofs.ProgProofs proofs.MachineC08 proofs.MachineC01 proofs.MachineC01S
     proofs.MachineNoUnwind.

Theorem C01_async_eq_seq_tree : forall P p n o,
  pointwise P -> tree p ->
  let h := fst (create [] (FTask p) (st0 P)) in
  let s1 := snd (create [] (FTask p) (st0 P)) in
  no_unwind P n (start h s1) -> c_mode (run P n (start h s1)) = MDone o -> o = eval p.
Proof. exact async_eq_seq_tree. Qed.
Print Assumptions C01_async_eq_seq_tree.

Theorem C01_async_eq_seq_tree_after_history : forall P spec s p n o,
  pointwise P -> tree p -> SInv spec None s ->
  let h := fst (create [] (FTask p) s) in
  let s1 := snd (create [] (FTask p) s) in
  no_unwind P n (start h s1) -> c_mode (run P n (start h s1)) = MDone o -> o = eval p.
Proof. exact async_eq_seq_tree_from. Qed.
Print Assumptions C01_async_eq_seq_tree_after_history.

(* every transition preserves "computed futures carry their sequential outcome, and every suspended
   task's continuation evaluates to its sequential outcome" *)
Theorem C01_spec_invariant_step : forall P, pointwise P -> forall root res spec c,
  is_unwind (c_mode c) = false -> CInv root res spec c -> exists spec', CInv root res spec' (step P c).
Proof. exact c01_step. Qed.
Print Assumptions C01_spec_invariant_step.

Theorem C01_yield_result_has_same_shape : forall (A : Type) (look : A -> outcome) (f : A -> val) (s : ystruct A),
  (forall a, In a (leaves s) -> look a = Ok (f a)) -> unwrap look s = Ok (fill f s).
Proof. exact (fun A look f s => unwrap_ok_fill look f s). Qed.
Print Assumptions C01_yield_result_has_same_shape.

Theorem C01_hypotheses_satisfiable :
  tree c01_demo /\
  let P := mkP [] 1000 false [] in
  let h := fst (create [] (FTask c01_demo) (st0 P)) in
  let s1 := snd (create [] (FTask c01_demo) (st0 P)) in
  no_unwind_b P 300 (start h s1) = true /\
  c_mode (run P 300 (start h s1)) = MDone (Ok (VTuple [VInt 5; VList [VTuple [VInt 7; VInt 1]; VNone]; VInt 9])) /\
  eval c01_demo = Ok (VTuple [VInt 5; VList [VTuple [VInt 7; VInt 1]; VNone]; VInt 9]).
Proof. exact (conj c01_demo_tree c01_demo_runs). Qed.
Print Assumptions C01_hypotheses_satisfiable.

(* ---- tree programs without the hypothesis no_unwind (proofs/MachineNoUnwind.v) ---- *)
Theorem C01_async_eq_seq_tree_unless_guard : forall P p n o,
  pointwise P -> tree p ->
  let h := fst (create [] (FTask p) (st0 P)) in
  let s1 := snd (create [] (FTask p) (st0 P)) in
  c_mode (run P n (start h s1)) = MDone o ->
  o = eval p \/ exists k, (k < n)%nat /\ guard_fires P (run P k (start h s1)) = true.
Proof. exact (fun P p n o HP Ht => async_eq_seq_tree_unless_guard P HP p Ht n o). Qed.
Print Assumptions C01_async_eq_seq_tree_unless_guard.

Theorem C01_async_eq_seq_tree_few_futures : forall P p n o,
  pointwise P -> tree p ->
  let h := fst (create [] (FTask p) (st0 P)) in
  let s1 := snd (create [] (FTask p) (st0 P)) in
  (forall k, (k <= n)%nat -> (top_next (c_st (run P k (start h s1))) <= p_maxstack P)%Z) ->
  c_mode (run P n (start h s1)) = MDone o -> o = eval p.
Proof. exact (fun P p n o HP Ht => async_eq_seq_tree_few_futures P HP p Ht n o). Qed.
Print Assumptions C01_async_eq_seq_tree_few_futures.

(* guard_fires is the guard of Machine.step: where it holds the next configuration raises the RuntimeError *)
Theorem C01_guard_fires_is_the_guard : forall P c,
  guard_fires P c = true ->
  c_mode c = MExecLoop /\ (p_maxstack P < Z.of_nat (length (tasks (c_st c))))%Z /\
  c_mode (step P c) = MUnwind E_RUNTIME.
Proof. exact (fun P c G => conj (proj1 (guard_fires_inv P c G)) (conj (proj2 (guard_fires_inv P c G)) (guard_fires_step P c G))). Qed.
Print Assumptions C01_guard_fires_is_the_guard.

(* both alternatives occur: the demo ends with eval's value when MAX_TASK_STACK_SIZE = 1000 (guard silent, never
   more than 1000 futures), and with the guard's RuntimeError when MAX_TASK_STACK_SIZE = 1 *)
Theorem C01_guard_alternative_is_real :
  (let P := mkP [] 1000 false [] in
   let h := fst (create [] (FTask c01_demo) (st0 P)) in
   let s1 := snd (create [] (FTask c01_demo) (st0 P)) in
   guard_silent_b P 300 (start h s1) = true /\ few_futures_b P 300 (start h s1) = true /\
   c_mode (run P 300 (start h s1)) = MDone (Ok (VTuple [VInt 5; VList [VTuple [VInt 7; VInt 1]; VNone]; VInt 9]))) /\
  (let P := mkP [] 1 false [] in
   let h := fst (create [] (FTask c01_demo) (st0 P)) in
   let s1 := snd (create [] (FTask c01_demo) (st0 P)) in
   guard_silent_b P 300 (start h s1) = false /\
   c_mode (run P 300 (start h s1)) = MDone (Err E_RUNTIME)).
Proof. exact (conj nounwind_demo nounwind_demo_guard). Qed.
Print Assumptions C01_guard_alternative_is_real.

(* ---- tree programs with synchronous calls (proofs/MachineC01S.v) ---- *)
Theorem C01_async_eq_seq_stree : forall P p n o,
  pointwise P -> stree p ->
  let h := fst (create [] (FTask p) (st0 P)) in
  let s1 := snd (create [] (FTask p) (st0 P)) in
  no_unwind P n (start h s1) -> c_mode (run P n (start h s1)) = MDone o -> o = evals p.
Proof. exact async_eq_seq_stree. Qed.
Print Assumptions C01_async_eq_seq_stree.

(* on a scheduler state left behind by earlier computations; the state left behind is again such a state *)
Theorem C01_async_eq_seq_stree_after_history : forall P spec s p n o,
  pointwise P -> stree p -> SI spec (fun _ => False) s ->
  let h := fst (create [] (FTask p) s) in
  let s1 := snd (create [] (FTask p) s) in
  no_unwind P n (start h s1) -> c_mode (run P n (start h s1)) = MDone o ->
  o = evals p /\ exists spec', SI spec' (fun _ => False) (c_st (run P n (start h s1))).
Proof. exact async_eq_seq_stree_state. Qed.
Print Assumptions C01_async_eq_seq_stree_after_history.

Theorem C01_stree_initial_state : forall P, SI (fun _ => None) (fun _ => False) (st0 P).
Proof. exact SI_empty. Qed.
Print Assumptions C01_stree_initial_state.

(* the new reference agrees with Seq.eval on the yield-only fragment, which is part of the new class *)
Theorem C01_evals_agrees_with_eval_on_tree : forall p, tree p -> stree p /\ evals p = eval p.
Proof. exact (fun p H => conj (tree_stree p H) (evals_eval_tree p H)). Qed.
Print Assumptions C01_evals_agrees_with_eval_on_tree.

(* a synchronous call is evaluated on the spot *)
Theorem C01_evals_call : forall q k, evals (Let (FTask q) (fun h => Sync h k)) = evals (k (evals q)).
Proof. exact evals_call. Qed.
Print Assumptions C01_evals_call.

(* every transition preserves the invariant: computed futures carry their sequential outcome, every suspended
   task's continuation evaluates to its sequential outcome, and every caller suspended in a synchronous call
   (FValue t k frame) continues, with the callee's sequential outcome oh, to its own: spec t = evals (k oh) *)
Theorem C01_stree_invariant_step : forall P, pointwise P -> forall res spec c,
  is_unwind (c_mode c) = false -> CI res spec c -> exists spec', CI res spec' (step P c).
Proof. exact s01_step. Qed.
Print Assumptions C01_stree_invariant_step.

(* non-vacuity: a child task awaited together with a batch item calls a function synchronously, which calls
   another one and then yields an item of the same batch kind; the wait loop nested below the caller flushes the
   batch holding the outer computation's item (EvFlush 0 0 [[2]; [5]] between EvGot [3] and EvGot [1]) *)
Theorem C01_stree_hypotheses_satisfiable :
  stree c01s_demo /\
  let P := mkP [] 1000 false [] in
  let h := fst (create [] (FTask c01s_demo) (st0 P)) in
  let s1 := snd (create [] (FTask c01s_demo) (st0 P)) in
  no_unwind_b P 60 (start h s1) = true /\
  c_mode (run P 60 (start h s1)) = MDone (Ok (VTuple [VTuple [VTuple [VInt 7; VInt 3]; VInt 1]; VInt 5])) /\
  evals c01s_demo = Ok (VTuple [VTuple [VTuple [VInt 7; VInt 3]; VInt 1]; VInt 5]) /\
  rev (trace (c_st (run P 60 (start h s1)))) =
    [EvStep [0] 0 (Ok VNone); EvStep [1] 0 (Ok VNone); EvStep [3] 0 (Ok VNone); EvStep [4] 0 (Ok VNone);
     EvDone [4] (Ok (VInt 3)); EvGot [3] (Ok (VInt 3));
     EvBefore 0 0; EvFlush 0 0 [[2]; [5]]; EvItemDone [2] (Ok (VInt 5)); EvItemDone [5] (Ok (VInt 7)); EvAfter 0 0;
     EvStep [3] 1 (Ok (VInt 7)); EvDone [3] (Ok (VTuple [VInt 7; VInt 3]));
     EvGot [1] (Ok (VTuple [VInt 7; VInt 3]));
     EvDone [1] (Ok (VTuple [VTuple [VInt 7; VInt 3]; VInt 1]));
     EvStep [0] 1 (Ok (VTuple [VTuple [VTuple [VInt 7; VInt 3]; VInt 1]; VInt 5]));
     EvDone [0] (Ok (VTuple [VTuple [VTuple [VInt 7; VInt 3]; VInt 1]; VInt 5]))].
Proof. exact (conj c01s_demo_stree c01s_demo_runs). Qed.
Print Assumptions C01_stree_hypotheses_satisfiable.

(* without the hypothesis no_unwind (proofs/MachineNoUnwind.v) *)
Theorem C01_async_eq_seq_stree_unless_guard : forall P p n o,
  pointwise P -> stree p ->
  let h := fst (create [] (FTask p) (st0 P)) in
  let s1 := snd (create [] (FTask p) (st0 P)) in
  c_mode (run P n (start h s1)) = MDone o ->
  o = evals p \/ exists k, (k < n)%nat /\ guard_fires P (run P k (start h s1)) = true.
Proof. exact (fun P p n o HP Ht => async_eq_seq_stree_unless_guard P HP p Ht n o). Qed.
Print Assumptions C01_async_eq_seq_stree_unless_guard.

(* The general statement (any program, including stored handles / DAGs, value() on existing futures and reads
   of scoped state) is not proved: a sequential reference for those needs an environment of handles and, for
   HOAS bodies, a parametricity-style well-formedness predicate; that part of C01 rests on the
   correspondence. *)

(* ==== the stree theorems WITHOUT an assumption about exceptions unwinding (proofs/MachineNoUnwind.v, MachineGuardFormsS.v) ====
   [no_unwind P n (start h s1)] is replaced by "the MAX_TASK_STACK_SIZE guard has not fired before step n"; also with
   synchronous calls FutureIsAlreadyComputed is proved unreachable (stree_no_unwind_iff_guard_silent), so the guard's
   RuntimeError is the only exception that can unwind through asynq's frames.  Binders and conclusions are those of
   the theorems of the same name without the suffix _guard. *)
From Asynq Require Import proofs.MachineNoUnwind proofs.MachineGuardFormsS.
Theorem C01_async_eq_seq_stree_guard : forall P p n o,
  pointwise P -> stree p ->
  let h := fst (create [] (FTask p) (st0 P)) in
  let s1 := snd (create [] (FTask p) (st0 P)) in
  (forall k, (k < n)%nat -> guard_fires P (run P k (start h s1)) = false) ->
  c_mode (run P n (start h s1)) = MDone o -> o = evals p.
Proof. exact async_eq_seq_stree_guard. Qed.
Print Assumptions C01_async_eq_seq_stree_guard.
