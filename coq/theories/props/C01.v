From Asynq Require Import Machine.
Theorem C01_placeholder : True. Proof. exact I. Qed.
Print Assumptions C01_placeholder.
