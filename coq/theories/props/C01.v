(* C01 — async execution returns what sequential evaluation would.  Proved so far: the value
   delivered at a yield has the shape of the yielded structure with each future replaced by its
   value (for every structure, any nesting).  The whole-program theorem (machine outcome = sequential
   evaluation) is not yet proved; that part of C01 rests on the correspondence + monitors. *)
From Asynq Require Import Prog proofs.ProgProofs.

Theorem C01_yield_result_has_same_shape : forall (A : Type) (look : A -> outcome) (f : A -> val) (s : ystruct A),
  (forall a, In a (leaves s) -> look a = Ok (f a)) -> unwrap look s = Ok (fill f s).
Proof. exact (fun A look f s => unwrap_ok_fill look f s). Qed.
Print Assumptions C01_yield_result_has_same_shape.
