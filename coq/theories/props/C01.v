(* C01 — async execution returns exactly what sequential evaluation would.
   Statements only; proofs in proofs/MachineC01.v and proofs/ProgProofs.v.

   C01_async_eq_seq_tree is the whole-program theorem for yield-only TREE programs: every future is
   created in the yield expression that awaits it (arbitrary nesting of tuples/lists/dicts, None,
   non-future objects, constant / error / lazy futures, batch items of any kinds, child tasks to any
   depth, try/except by way of the continuations, plain AsyncContexts and scoped overrides), for every
   flush order (oracle), priority assignment, KEEP_DEPENDENCIES setting and fuel.  Hypotheses:
   [pointwise] - no flush body raises half way (otherwise an item's answer depends on its position
   in the batch and "sequential evaluation" is not defined); [no_unwind] - the runaway-recursion guard
   did not fire.  Programs with stored handles (DAGs) and synchronous re-entry are NOT covered by this
   theorem; for them C01 rests on the correspondence and the monitors (statement kept below). *)
From Asynq Require Import Machine Seq proofs.ProgProofs proofs.MachineC08 proofs.MachineC01.

Theorem C01_async_eq_seq_tree : forall P p n o,
  pointwise P -> tree p ->
  let h := fst (create [] (FTask p) (st0 P)) in
  let s1 := snd (create [] (FTask p) (st0 P)) in
  no_unwind P n (start h s1) -> c_mode (run P n (start h s1)) = MDone o -> o = eval p.
Proof. exact async_eq_seq_tree. Qed.
Print Assumptions C01_async_eq_seq_tree.

Theorem C01_async_eq_seq_tree_after_history : forall P spec s p n o,
  pointwise P -> tree p -> SInv spec None s ->
  let h := fst (create [] (FTask p) s) in
  let s1 := snd (create [] (FTask p) s) in
  no_unwind P n (start h s1) -> c_mode (run P n (start h s1)) = MDone o -> o = eval p.
Proof. exact async_eq_seq_tree_from. Qed.
Print Assumptions C01_async_eq_seq_tree_after_history.

(* every transition preserves "computed futures carry their sequential outcome, and every suspended
   task's continuation evaluates to its sequential outcome" *)
Theorem C01_spec_invariant_step : forall P, pointwise P -> forall root res spec c,
  is_unwind (c_mode c) = false -> CInv root res spec c -> exists spec', CInv root res spec' (step P c).
Proof. exact c01_step. Qed.
Print Assumptions C01_spec_invariant_step.

Theorem C01_yield_result_has_same_shape : forall (A : Type) (look : A -> outcome) (f : A -> val) (s : ystruct A),
  (forall a, In a (leaves s) -> look a = Ok (f a)) -> unwrap look s = Ok (fill f s).
Proof. exact (fun A look f s => unwrap_ok_fill look f s). Qed.
Print Assumptions C01_yield_result_has_same_shape.

Theorem C01_hypotheses_satisfiable :
  tree c01_demo /\
  let P := mkP [] 1000 false [] in
  let h := fst (create [] (FTask c01_demo) (st0 P)) in
  let s1 := snd (create [] (FTask c01_demo) (st0 P)) in
  no_unwind_b P 300 (start h s1) = true /\
  c_mode (run P 300 (start h s1)) = MDone (Ok (VTuple [VInt 5; VList [VTuple [VInt 7; VInt 1]; VNone]; VInt 9])) /\
  eval c01_demo = Ok (VTuple [VInt 5; VList [VTuple [VInt 7; VInt 1]; VNone]; VInt 9]).
Proof. exact (conj c01_demo_tree c01_demo_runs). Qed.
Print Assumptions C01_hypotheses_satisfiable.

(* The general statement (any program, including stored handles / DAGs and synchronous re-entry) is
   not proved: a sequential reference for those needs an environment of handles and, for HOAS bodies, a
   parametricity-style well-formedness predicate; that part of C01 rests on the correspondence. *)
