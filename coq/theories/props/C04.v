(* C04 — a batch is flushed only when no task can make progress.
   Statements only; proofs in proofs/MachineC04.v (built on the C01/C06 invariants).
   The scheduler machine reaches mode MAfterExec exactly when TaskScheduler._execute has emptied its task
   stack; if the awaited task is then still uncomputed the next step is _continue_with_batch, i.e. a flush.
   Proved for yield-only tree programs (any flush order, any batch kinds, keep_dependencies on or off):
   at that moment there is a set S of stuck futures that contains the awaited task and is closed: every task
   in S has started (its generator has been stepped at least once), waits for an uncomputed member of S, and
   every one of its dependencies is computed or in S; the other members of S are uncomputed batch items.
   Consequently every future reachable from the awaited task through the dependency lists of uncompleted
   tasks is computed, an uncomputed batch item, or a started task that is blocked: none is unstarted or
   runnable.
   Second theorem (proofs/MachineC04B.v): moreover every batch item in S belongs to a batch that is in the
   scheduler's set (TaskScheduler._batches), is not flushed yet and contains the item - the stuck tasks are
   blocked on batch items whose batch is still pending and known to the scheduler.
   NOT proved (correspondence + monitors in harness/props/c04.py): programs with shared futures (DAGs),
   synchronous re-entry (.value() inside a task) and the MAX_TASK_STACK_SIZE reset. *)
From Asynq Require Import Machine Seq proofs.MachineC08 proofs.MachineC01 proofs.MachineC04 proofs.MachineC04B.

Theorem C04_flush_only_when_stuck_tree : forall P, pointwise P -> forall p, tree p -> forall n,
  let h := fst (create [] (FTask p) (st0 P)) in
  let s1 := snd (create [] (FTask p) (st0 P)) in
  no_unwind P n (start h s1) -> c_mode (run P n (start h s1)) = MAfterExec ->
  computed h (c_st (run P n (start h s1))) = false ->
  exists S : fid -> Prop, S h /\ forall d, S d ->
    let s := c_st (run P n (start h s1)) in
    (exists tk, get d s = Some (mkFut None (KTask tk)) /\ (1 <= tk_iter tk)%Z /\
                (exists e, In e (tk_deps tk) /\ S e) /\
                (forall e, In e (tk_deps tk) -> computed e s = true \/ S e)) \/
    (exists kind idx key a, get d s = Some (mkFut None (KItem kind idx key a))).
Proof. exact flush_only_when_stuck_tree. Qed.
Print Assumptions C04_flush_only_when_stuck_tree.

Theorem C04_stuck_items_are_in_pending_scheduled_batches_tree : forall P, pointwise P -> forall p, tree p -> forall n,
  let h := fst (create [] (FTask p) (st0 P)) in
  let s1 := snd (create [] (FTask p) (st0 P)) in
  no_unwind P n (start h s1) -> c_mode (run P n (start h s1)) = MAfterExec ->
  computed h (c_st (run P n (start h s1))) = false ->
  exists S : fid -> Prop, S h /\ (forall d, S d -> S_ok S (c_st (run P n (start h s1))) d) /\
    forall d kind idx key a, S d -> get d (c_st (run P n (start h s1))) = Some (mkFut None (KItem kind idx key a)) ->
      In (kind, idx) (sb (c_st (run P n (start h s1)))) /\
      In d (b_items (get_batch (kind, idx) (c_st (run P n (start h s1))))) /\
      b_done (get_batch (kind, idx) (c_st (run P n (start h s1)))) = false.
Proof. exact flush_only_when_stuck_pending_tree. Qed.
Print Assumptions C04_stuck_items_are_in_pending_scheduled_batches_tree.

Theorem C04_reachable_is_computed_or_stuck_tree : forall P, pointwise P -> forall p, tree p -> forall n,
  let h := fst (create [] (FTask p) (st0 P)) in
  let s1 := snd (create [] (FTask p) (st0 P)) in
  no_unwind P n (start h s1) -> c_mode (run P n (start h s1)) = MAfterExec ->
  computed h (c_st (run P n (start h s1))) = false ->
  forall d, reach (c_st (run P n (start h s1))) h d ->
    computed d (c_st (run P n (start h s1))) = true \/
    (exists kind idx key a, get d (c_st (run P n (start h s1))) = Some (mkFut None (KItem kind idx key a))) \/
    (exists tk, get d (c_st (run P n (start h s1))) = Some (mkFut None (KTask tk)) /\ (1 <= tk_iter tk)%Z /\
                is_blocked tk (c_st (run P n (start h s1))) = true).
Proof. exact reachable_is_computed_or_stuck_tree. Qed.
Print Assumptions C04_reachable_is_computed_or_stuck_tree.

(* non-vacuity: the C01 demo program reaches a flush point three times (steps 17, 25 and 39); at the
   first two the awaited task is not computed *)
Example C04_hypotheses_are_met :
  let P := mkP [] 1000 false [] in
  let h := fst (create [] (FTask c01_demo) (st0 P)) in
  let s1 := snd (create [] (FTask c01_demo) (st0 P)) in
  tree c01_demo /\ no_unwind_b P 300 (start h s1) = true /\
  c_mode (run P 17 (start h s1)) = MAfterExec /\ computed h (c_st (run P 17 (start h s1))) = false /\
  c_mode (run P 25 (start h s1)) = MAfterExec /\ computed h (c_st (run P 25 (start h s1))) = false.
Proof. split; [exact c01_demo_tree|]. vm_compute. repeat split. Qed.
