(* C04 — a batch is flushed only when no task can make progress.
   Statements only; proofs in proofs/MachineC04.v, MachineC04B.v, MachineC04S.v (built on the C01/C06 invariants).
   The scheduler machine reaches mode MAfterExec exactly when TaskScheduler._execute has emptied its task
   stack; if the awaited task is then still uncomputed the next step is _continue_with_batch, i.e. a flush.
   Proved for yield-only tree programs (any flush order, any batch kinds, keep_dependencies on or off):
   at that moment there is a set S of stuck futures that contains the awaited task and is closed: every task
   in S has started (its generator has been stepped at least once), waits for an uncomputed member of S, and
   every one of its dependencies is computed or in S; the other members of S are uncomputed batch items.
   Consequently every future reachable from the awaited task through the dependency lists of uncompleted
   tasks is computed, an uncomputed batch item, or a started task that is blocked: none is unstarted or
   runnable.
   Second theorem (proofs/MachineC04B.v): moreover every batch item in S belongs to a batch that is in the
   scheduler's set (TaskScheduler._batches), is not flushed yet and contains the item - the stuck tasks are
   blocked on batch items whose batch is still pending and known to the scheduler.
   Tree programs WITH SYNCHRONOUS CALLS (MachineC01S.stree: tree programs plus fn(args) / fn.asynq(args).value()
   of fresh tasks, nested to any depth; proofs/MachineC04S.v).  A flush point is now the end of an _execute pass
   of the outermost loop OR of a loop nested below callers that are inside value(): mode MAfterExec over the frame
   FWait r of the awaited task r, r uncomputed (C04_flush_point_shape_stree).
   - The statement proved for tree programs is FALSE for stree programs, already for the outermost loop
     (C04_flush_only_when_stuck_stree_is_false; witness proofs/MachineC04S.c04s_demo, step 50): the flush of a
     nested loop may complete a batch item on which a task already settled by the OUTER pass waits; that task is
     runnable when the outer pass ends, yet the outer loop flushes the next batch.
   - Proved instead, for every pointwise P, every stree program, flush order, batch kinds, keep_dependencies on or
     off, at every flush point of any nesting depth:
     C04_flush_only_when_settled_stree: there is a set S containing r, no member of which is on the task stack
       (none is a suspended caller or a task below one), closed as before - every task in S is uncompleted, has
       started, has a dependency in S and each dependency computed or in S - whose other members are batch items
       that MAY ALREADY BE COMPUTED; if all of them are still pending, S is stuck in the full sense (S_ok);
     C04_flush_only_when_stuck_stree_if_no_stale_item: the full conclusion under a hypothesis on the state at
       the flush point - no uncompleted task has an already computed batch item among its dependencies;
     C04_reachable_is_computed_or_settled_stree: every future reachable from r is computed, a pending item, or an
       uncompleted task that has STARTED, is off the stack, and is blocked or depends on an already computed
       batch item: no reachable task is unstarted;
     C04_reachable_is_computed_or_stuck_stree_if_no_stale_item: the tree conclusion under the state hypothesis.
   WITHOUT THE HYPOTHESIS no_unwind (end of the file; proofs/MachineNoUnwind.v, MachineGuardForms.v): the tree-
   program theorems are stated again as C04_flush_only_when_stuck_tree_guard,
   C04_reachable_is_computed_or_stuck_tree_guard, C04_stuck_items_are_in_pending_scheduled_batches_tree_guard, and
   in the disjunctive reading ("..., or the guard fired at an earlier step")
   C04_flush_only_when_stuck_tree_unless_guard. These forms need no assumption about exceptions unwinding:
   FutureIsAlreadyComputed is proved unreachable for tree programs, so only the runaway guard's RuntimeError can
   unwind through asynq's frames, and the hypothesis "the guard has not fired before step n" (forall k < n,
   guard_fires P (run P k c0) = false; guard_fires is the boolean test at the head of the _execute loop) is a
   decidable condition on the run.
   NOT proved: for stree programs, that the pending items of S are in scheduled unflushed batches (MachineC04B is
   for tree programs only); anything for programs with shared futures (DAGs), .value() on futures that are not
   fresh tasks, and the MAX_TASK_STACK_SIZE reset (correspondence + monitors in harness/props/c04.py).
   WITHOUT THE HYPOTHESIS no_unwind FOR stree PROGRAMS (end of the file; proofs/MachineGuardFormsS.v): the stree
   theorems whose hypothesis is no_unwind P n (start h s1) are restated with "the MAX_TASK_STACK_SIZE guard has not
   fired before step n" in its place (MachineNoUnwind.stree_no_unwind_iff_guard_silent):
   C04_flush_point_shape_stree_guard, C04_flush_only_when_settled_stree_guard,
   C04_flush_only_when_stuck_stree_if_no_stale_item_guard, C04_reachable_is_computed_or_settled_stree_guard,
   C04_reachable_is_computed_or_stuck_stree_if_no_stale_item_guard. *)
From Asynq Require Import Machine Seq proofs.MachineC08 proofs.MachineC01 proofs.MachineC01S proofs.MachineC04 proofs.MachineC04B
     proofs.MachineC04S.

Theorem C04_flush_only_when_stuck_tree : forall P, pointwise P -> forall p, tree p -> forall n,
  let h := fst (create [] (FTask p) (st0 P)) in
  let s1 := snd (create [] (FTask p) (st0 P)) in
  no_unwind P n (start h s1) -> c_mode (run P n (start h s1)) = MAfterExec ->
  computed h (c_st (run P n (start h s1))) = false ->
  exists S : fid -> Prop, S h /\ forall d, S d ->
    let s := c_st (run P n (start h s1)) in
    (exists tk, get d s = Some (mkFut None (KTask tk)) /\ (1 <= tk_iter tk)%Z /\
                (exists e, In e (tk_deps tk) /\ S e) /\
                (forall e, In e (tk_deps tk) -> computed e s = true \/ S e)) \/
    (exists kind idx key a, get d s = Some (mkFut None (KItem kind idx key a))).
Proof. exact flush_only_when_stuck_tree. Qed.
Print Assumptions C04_flush_only_when_stuck_tree.

Theorem C04_stuck_items_are_in_pending_scheduled_batches_tree : forall P, pointwise P -> forall p, tree p -> forall n,
  let h := fst (create [] (FTask p) (st0 P)) in
  let s1 := snd (create [] (FTask p) (st0 P)) in
  no_unwind P n (start h s1) -> c_mode (run P n (start h s1)) = MAfterExec ->
  computed h (c_st (run P n (start h s1))) = false ->
  exists S : fid -> Prop, S h /\ (forall d, S d -> S_ok S (c_st (run P n (start h s1))) d) /\
    forall d kind idx key a, S d -> get d (c_st (run P n (start h s1))) = Some (mkFut None (KItem kind idx key a)) ->
      In (kind, idx) (sb (c_st (run P n (start h s1)))) /\
      In d (b_items (get_batch (kind, idx) (c_st (run P n (start h s1))))) /\
      b_done (get_batch (kind, idx) (c_st (run P n (start h s1)))) = false.
Proof. exact flush_only_when_stuck_pending_tree. Qed.
Print Assumptions C04_stuck_items_are_in_pending_scheduled_batches_tree.

Theorem C04_reachable_is_computed_or_stuck_tree : forall P, pointwise P -> forall p, tree p -> forall n,
  let h := fst (create [] (FTask p) (st0 P)) in
  let s1 := snd (create [] (FTask p) (st0 P)) in
  no_unwind P n (start h s1) -> c_mode (run P n (start h s1)) = MAfterExec ->
  computed h (c_st (run P n (start h s1))) = false ->
  forall d, reach (c_st (run P n (start h s1))) h d ->
    computed d (c_st (run P n (start h s1))) = true \/
    (exists kind idx key a, get d (c_st (run P n (start h s1))) = Some (mkFut None (KItem kind idx key a))) \/
    (exists tk, get d (c_st (run P n (start h s1))) = Some (mkFut None (KTask tk)) /\ (1 <= tk_iter tk)%Z /\
                is_blocked tk (c_st (run P n (start h s1))) = true).
Proof. exact reachable_is_computed_or_stuck_tree. Qed.
Print Assumptions C04_reachable_is_computed_or_stuck_tree.

(* non-vacuity: the C01 demo program reaches a flush point three times (steps 17, 25 and 39); at the
   first two the awaited task is not computed *)
Example C04_hypotheses_are_met :
  let P := mkP [] 1000 false [] in
  let h := fst (create [] (FTask c01_demo) (st0 P)) in
  let s1 := snd (create [] (FTask c01_demo) (st0 P)) in
  tree c01_demo /\ no_unwind_b P 300 (start h s1) = true /\
  c_mode (run P 17 (start h s1)) = MAfterExec /\ computed h (c_st (run P 17 (start h s1))) = false /\
  c_mode (run P 25 (start h s1)) = MAfterExec /\ computed h (c_st (run P 25 (start h s1))) = false.
Proof. split; [exact c01_demo_tree|]. vm_compute. repeat split. Qed.

(* ---- tree programs with synchronous calls (stree): nested scheduler loops ---- *)
Theorem C04_flush_point_shape_stree : forall P, pointwise P -> forall p, stree p -> forall n,
  let h := fst (create [] (FTask p) (st0 P)) in
  let s1 := snd (create [] (FTask p) (st0 P)) in
  no_unwind P n (start h s1) -> c_mode (run P n (start h s1)) = MAfterExec ->
  exists r vs, c_frames (run P n (start h s1)) = FWait r :: vs.
Proof. exact flush_point_shape_stree. Qed.
Print Assumptions C04_flush_point_shape_stree.

Theorem C04_flush_only_when_settled_stree : forall P, pointwise P -> forall p, stree p -> forall n r vs,
  let h := fst (create [] (FTask p) (st0 P)) in
  let s1 := snd (create [] (FTask p) (st0 P)) in
  no_unwind P n (start h s1) -> c_mode (run P n (start h s1)) = MAfterExec ->
  c_frames (run P n (start h s1)) = FWait r :: vs -> computed r (c_st (run P n (start h s1))) = false ->
  let s := c_st (run P n (start h s1)) in
  exists S : fid -> Prop, S r /\
    (forall d, S d ->
       (exists tk, get d s = Some (mkFut None (KTask tk)) /\ (1 <= tk_iter tk)%Z /\
                   (exists e, In e (tk_deps tk) /\ S e) /\
                   (forall e, In e (tk_deps tk) -> computed e s = true \/ S e)) \/
       (exists o kind idx key a, get d s = Some (mkFut o (KItem kind idx key a)))) /\
    (forall d, S d -> ~ In d (tasks s)) /\
    ((forall d o kind idx key a, S d -> get d s = Some (mkFut o (KItem kind idx key a)) -> o = None) ->
     forall d, S d ->
       (exists tk, get d s = Some (mkFut None (KTask tk)) /\ (1 <= tk_iter tk)%Z /\
                   (exists e, In e (tk_deps tk) /\ S e) /\
                   (forall e, In e (tk_deps tk) -> computed e s = true \/ S e)) \/
       (exists kind idx key a, get d s = Some (mkFut None (KItem kind idx key a)))).
Proof. exact flush_only_when_settled_stree. Qed.
Print Assumptions C04_flush_only_when_settled_stree.

Theorem C04_flush_only_when_stuck_stree_if_no_stale_item : forall P, pointwise P -> forall p, stree p -> forall n r vs,
  let h := fst (create [] (FTask p) (st0 P)) in
  let s1 := snd (create [] (FTask p) (st0 P)) in
  no_unwind P n (start h s1) -> c_mode (run P n (start h s1)) = MAfterExec ->
  c_frames (run P n (start h s1)) = FWait r :: vs -> computed r (c_st (run P n (start h s1))) = false ->
  (forall e o kind idx key a, get e (c_st (run P n (start h s1))) = Some (mkFut (Some o) (KItem kind idx key a)) ->
     forall d tk, get d (c_st (run P n (start h s1))) = Some (mkFut None (KTask tk)) -> ~ In e (tk_deps tk)) ->
  exists S : fid -> Prop, S r /\ (forall d, S d -> S_ok S (c_st (run P n (start h s1))) d) /\
    (forall d, S d -> ~ In d (tasks (c_st (run P n (start h s1))))).
Proof. exact flush_only_when_stuck_stree_if_no_stale_item. Qed.
Print Assumptions C04_flush_only_when_stuck_stree_if_no_stale_item.

Theorem C04_reachable_is_computed_or_settled_stree : forall P, pointwise P -> forall p, stree p -> forall n r vs,
  let h := fst (create [] (FTask p) (st0 P)) in
  let s1 := snd (create [] (FTask p) (st0 P)) in
  no_unwind P n (start h s1) -> c_mode (run P n (start h s1)) = MAfterExec ->
  c_frames (run P n (start h s1)) = FWait r :: vs -> computed r (c_st (run P n (start h s1))) = false ->
  forall d, reach (c_st (run P n (start h s1))) r d ->
    computed d (c_st (run P n (start h s1))) = true \/
    (exists kind idx key a, get d (c_st (run P n (start h s1))) = Some (mkFut None (KItem kind idx key a))) \/
    (exists tk, get d (c_st (run P n (start h s1))) = Some (mkFut None (KTask tk)) /\ (1 <= tk_iter tk)%Z /\
                ~ In d (tasks (c_st (run P n (start h s1)))) /\
                (is_blocked tk (c_st (run P n (start h s1))) = true \/
                 exists e o kind idx key a, In e (tk_deps tk) /\
                   get e (c_st (run P n (start h s1))) = Some (mkFut (Some o) (KItem kind idx key a)))).
Proof. exact reachable_is_computed_or_settled_stree. Qed.
Print Assumptions C04_reachable_is_computed_or_settled_stree.

Theorem C04_reachable_is_computed_or_stuck_stree_if_no_stale_item : forall P, pointwise P -> forall p, stree p -> forall n r vs,
  let h := fst (create [] (FTask p) (st0 P)) in
  let s1 := snd (create [] (FTask p) (st0 P)) in
  no_unwind P n (start h s1) -> c_mode (run P n (start h s1)) = MAfterExec ->
  c_frames (run P n (start h s1)) = FWait r :: vs -> computed r (c_st (run P n (start h s1))) = false ->
  (forall e o kind idx key a, get e (c_st (run P n (start h s1))) = Some (mkFut (Some o) (KItem kind idx key a)) ->
     forall d tk, get d (c_st (run P n (start h s1))) = Some (mkFut None (KTask tk)) -> ~ In e (tk_deps tk)) ->
  forall d, reach (c_st (run P n (start h s1))) r d ->
    computed d (c_st (run P n (start h s1))) = true \/
    (exists kind idx key a, get d (c_st (run P n (start h s1))) = Some (mkFut None (KItem kind idx key a))) \/
    (exists tk, get d (c_st (run P n (start h s1))) = Some (mkFut None (KTask tk)) /\ (1 <= tk_iter tk)%Z /\
                is_blocked tk (c_st (run P n (start h s1))) = true).
Proof. exact reachable_is_computed_or_stuck_stree_if_no_stale_item. Qed.
Print Assumptions C04_reachable_is_computed_or_stuck_stree_if_no_stale_item.

(* the statement proved for tree programs does NOT extend to stree programs *)
Theorem C04_flush_only_when_stuck_stree_is_false :
  ~ (forall P, pointwise P -> forall p, stree p -> forall n,
       let h := fst (create [] (FTask p) (st0 P)) in
       let s1 := snd (create [] (FTask p) (st0 P)) in
       no_unwind P n (start h s1) -> c_mode (run P n (start h s1)) = MAfterExec ->
       forall r vs, c_frames (run P n (start h s1)) = FWait r :: vs -> computed r (c_st (run P n (start h s1))) = false ->
       exists S : fid -> Prop, S r /\ forall d, S d -> S_ok S (c_st (run P n (start h s1))) d).
Proof. exact flush_only_when_stuck_stree_is_false. Qed.
Print Assumptions C04_flush_only_when_stuck_stree_is_false.

(* ==== the same WITHOUT an assumption about exceptions unwinding (proofs/MachineNoUnwind.v, MachineGuardForms.v) ====
   [no_unwind] is replaced by "the MAX_TASK_STACK_SIZE guard has not fired before step n":
   forall k < n, guard_fires P (run P k c0) = false, where guard_fires is the boolean test at the head of the
   _execute loop in Machine.step.  For tree programs under a pointwise service the two say the same:
   FutureIsAlreadyComputed is proved unreachable, so the guard's RuntimeError is the only exception that can
   unwind through asynq's frames. *)
From Asynq Require Import proofs.MachineNoUnwind proofs.MachineGuardForms.
Theorem C04_flush_only_when_stuck_tree_guard : forall P, pointwise P -> forall p, tree p -> forall n,
  let h := fst (create [] (FTask p) (st0 P)) in
  let s1 := snd (create [] (FTask p) (st0 P)) in
  (forall k, (k < n)%nat -> guard_fires P (run P k (start h s1)) = false) ->
  c_mode (run P n (start h s1)) = MAfterExec ->
  computed h (c_st (run P n (start h s1))) = false ->
  exists S : fid -> Prop, S h /\ forall d, S d ->
    let s := c_st (run P n (start h s1)) in
    (exists tk, get d s = Some (mkFut None (KTask tk)) /\ (1 <= tk_iter tk)%Z /\
                (exists e, In e (tk_deps tk) /\ S e) /\
                (forall e, In e (tk_deps tk) -> computed e s = true \/ S e)) \/
    (exists kind idx key a, get d s = Some (mkFut None (KItem kind idx key a))).
Proof. exact flush_only_when_stuck_tree_guard. Qed.
Print Assumptions C04_flush_only_when_stuck_tree_guard.

(* the disjunctive reading: a flush point with the awaited task uncomputed is a stuck point, or the guard fired
   at an earlier step *)
Theorem C04_flush_only_when_stuck_tree_unless_guard : forall P, pointwise P -> forall p, tree p -> forall n,
  let h := fst (create [] (FTask p) (st0 P)) in
  let s1 := snd (create [] (FTask p) (st0 P)) in
  c_mode (run P n (start h s1)) = MAfterExec ->
  computed h (c_st (run P n (start h s1))) = false ->
  (exists S : fid -> Prop, S h /\ forall d, S d ->
    let s := c_st (run P n (start h s1)) in
    (exists tk, get d s = Some (mkFut None (KTask tk)) /\ (1 <= tk_iter tk)%Z /\
                (exists e, In e (tk_deps tk) /\ S e) /\
                (forall e, In e (tk_deps tk) -> computed e s = true \/ S e)) \/
    (exists kind idx key a, get d s = Some (mkFut None (KItem kind idx key a)))) \/
  (exists k, (k < n)%nat /\ guard_fires P (run P k (start h s1)) = true).
Proof. exact flush_only_when_stuck_tree_unless_guard. Qed.
Print Assumptions C04_flush_only_when_stuck_tree_unless_guard.

Theorem C04_reachable_is_computed_or_stuck_tree_guard : forall P, pointwise P -> forall p, tree p -> forall n,
  let h := fst (create [] (FTask p) (st0 P)) in
  let s1 := snd (create [] (FTask p) (st0 P)) in
  (forall k, (k < n)%nat -> guard_fires P (run P k (start h s1)) = false) ->
  c_mode (run P n (start h s1)) = MAfterExec ->
  computed h (c_st (run P n (start h s1))) = false ->
  forall d, reach (c_st (run P n (start h s1))) h d ->
    computed d (c_st (run P n (start h s1))) = true \/
    (exists kind idx key a, get d (c_st (run P n (start h s1))) = Some (mkFut None (KItem kind idx key a))) \/
    (exists tk, get d (c_st (run P n (start h s1))) = Some (mkFut None (KTask tk)) /\ (1 <= tk_iter tk)%Z /\
                is_blocked tk (c_st (run P n (start h s1))) = true).
Proof. exact reachable_is_computed_or_stuck_tree_guard. Qed.
Print Assumptions C04_reachable_is_computed_or_stuck_tree_guard.

Theorem C04_stuck_items_are_in_pending_scheduled_batches_tree_guard : forall P, pointwise P -> forall p, tree p -> forall n,
  let h := fst (create [] (FTask p) (st0 P)) in
  let s1 := snd (create [] (FTask p) (st0 P)) in
  (forall k, (k < n)%nat -> guard_fires P (run P k (start h s1)) = false) ->
  c_mode (run P n (start h s1)) = MAfterExec ->
  computed h (c_st (run P n (start h s1))) = false ->
  exists S : fid -> Prop, S h /\ (forall d, S d -> S_ok S (c_st (run P n (start h s1))) d) /\
    forall d kind idx key a, S d -> get d (c_st (run P n (start h s1))) = Some (mkFut None (KItem kind idx key a)) ->
      In (kind, idx) (sb (c_st (run P n (start h s1)))) /\
      In d (b_items (get_batch (kind, idx) (c_st (run P n (start h s1))))) /\
      b_done (get_batch (kind, idx) (c_st (run P n (start h s1)))) = false.
Proof. exact flush_only_when_stuck_pending_tree_guard. Qed.
Print Assumptions C04_stuck_items_are_in_pending_scheduled_batches_tree_guard.

(* ==== the stree theorems WITHOUT an assumption about exceptions unwinding (proofs/MachineNoUnwind.v, MachineGuardFormsS.v) ====
   [no_unwind P n (start h s1)] is replaced by "the MAX_TASK_STACK_SIZE guard has not fired before step n"; also with
   synchronous calls FutureIsAlreadyComputed is proved unreachable (stree_no_unwind_iff_guard_silent), so the guard's
   RuntimeError is the only exception that can unwind through asynq's frames.  Binders and conclusions are those of
   the theorems of the same name without the suffix _guard. *)
From Asynq Require Import proofs.MachineNoUnwind proofs.MachineGuardFormsS.
Theorem C04_flush_point_shape_stree_guard : forall P, pointwise P -> forall p, stree p -> forall n,
  let h := fst (create [] (FTask p) (st0 P)) in
  let s1 := snd (create [] (FTask p) (st0 P)) in
  (forall k, (k < n)%nat -> guard_fires P (run P k (start h s1)) = false) ->
  c_mode (run P n (start h s1)) = MAfterExec ->
  exists r vs, c_frames (run P n (start h s1)) = FWait r :: vs.
Proof. exact flush_point_shape_stree_guard. Qed.
Print Assumptions C04_flush_point_shape_stree_guard.

Theorem C04_flush_only_when_settled_stree_guard : forall P, pointwise P -> forall p, stree p -> forall n r vs,
  let h := fst (create [] (FTask p) (st0 P)) in
  let s1 := snd (create [] (FTask p) (st0 P)) in
  (forall k, (k < n)%nat -> guard_fires P (run P k (start h s1)) = false) ->
  c_mode (run P n (start h s1)) = MAfterExec ->
  c_frames (run P n (start h s1)) = FWait r :: vs -> computed r (c_st (run P n (start h s1))) = false ->
  let s := c_st (run P n (start h s1)) in
  exists S : fid -> Prop, S r /\
    (forall d, S d ->
       (exists tk, get d s = Some (mkFut None (KTask tk)) /\ (1 <= tk_iter tk)%Z /\
                   (exists e, In e (tk_deps tk) /\ S e) /\
                   (forall e, In e (tk_deps tk) -> computed e s = true \/ S e)) \/
       (exists o kind idx key a, get d s = Some (mkFut o (KItem kind idx key a)))) /\
    (forall d, S d -> ~ In d (tasks s)) /\
    ((forall d o kind idx key a, S d -> get d s = Some (mkFut o (KItem kind idx key a)) -> o = None) ->
     forall d, S d ->
       (exists tk, get d s = Some (mkFut None (KTask tk)) /\ (1 <= tk_iter tk)%Z /\
                   (exists e, In e (tk_deps tk) /\ S e) /\
                   (forall e, In e (tk_deps tk) -> computed e s = true \/ S e)) \/
       (exists kind idx key a, get d s = Some (mkFut None (KItem kind idx key a)))).
Proof. exact flush_only_when_settled_stree_guard. Qed.
Print Assumptions C04_flush_only_when_settled_stree_guard.

Theorem C04_flush_only_when_stuck_stree_if_no_stale_item_guard : forall P, pointwise P -> forall p, stree p -> forall n r vs,
  let h := fst (create [] (FTask p) (st0 P)) in
  let s1 := snd (create [] (FTask p) (st0 P)) in
  (forall k, (k < n)%nat -> guard_fires P (run P k (start h s1)) = false) ->
  c_mode (run P n (start h s1)) = MAfterExec ->
  c_frames (run P n (start h s1)) = FWait r :: vs -> computed r (c_st (run P n (start h s1))) = false ->
  (forall e o kind idx key a, get e (c_st (run P n (start h s1))) = Some (mkFut (Some o) (KItem kind idx key a)) ->
     forall d tk, get d (c_st (run P n (start h s1))) = Some (mkFut None (KTask tk)) -> ~ In e (tk_deps tk)) ->
  exists S : fid -> Prop, S r /\ (forall d, S d -> S_ok S (c_st (run P n (start h s1))) d) /\
    (forall d, S d -> ~ In d (tasks (c_st (run P n (start h s1))))).
Proof. exact flush_only_when_stuck_stree_if_no_stale_item_guard. Qed.
Print Assumptions C04_flush_only_when_stuck_stree_if_no_stale_item_guard.

Theorem C04_reachable_is_computed_or_settled_stree_guard : forall P, pointwise P -> forall p, stree p -> forall n r vs,
  let h := fst (create [] (FTask p) (st0 P)) in
  let s1 := snd (create [] (FTask p) (st0 P)) in
  (forall k, (k < n)%nat -> guard_fires P (run P k (start h s1)) = false) ->
  c_mode (run P n (start h s1)) = MAfterExec ->
  c_frames (run P n (start h s1)) = FWait r :: vs -> computed r (c_st (run P n (start h s1))) = false ->
  forall d, reach (c_st (run P n (start h s1))) r d ->
    computed d (c_st (run P n (start h s1))) = true \/
    (exists kind idx key a, get d (c_st (run P n (start h s1))) = Some (mkFut None (KItem kind idx key a))) \/
    (exists tk, get d (c_st (run P n (start h s1))) = Some (mkFut None (KTask tk)) /\ (1 <= tk_iter tk)%Z /\
                ~ In d (tasks (c_st (run P n (start h s1)))) /\
                (is_blocked tk (c_st (run P n (start h s1))) = true \/
                 exists e o kind idx key a, In e (tk_deps tk) /\
                   get e (c_st (run P n (start h s1))) = Some (mkFut (Some o) (KItem kind idx key a)))).
Proof. exact reachable_is_computed_or_settled_stree_guard. Qed.
Print Assumptions C04_reachable_is_computed_or_settled_stree_guard.

Theorem C04_reachable_is_computed_or_stuck_stree_if_no_stale_item_guard : forall P, pointwise P -> forall p, stree p -> forall n r vs,
  let h := fst (create [] (FTask p) (st0 P)) in
  let s1 := snd (create [] (FTask p) (st0 P)) in
  (forall k, (k < n)%nat -> guard_fires P (run P k (start h s1)) = false) ->
  c_mode (run P n (start h s1)) = MAfterExec ->
  c_frames (run P n (start h s1)) = FWait r :: vs -> computed r (c_st (run P n (start h s1))) = false ->
  (forall e o kind idx key a, get e (c_st (run P n (start h s1))) = Some (mkFut (Some o) (KItem kind idx key a)) ->
     forall d tk, get d (c_st (run P n (start h s1))) = Some (mkFut None (KTask tk)) -> ~ In e (tk_deps tk)) ->
  forall d, reach (c_st (run P n (start h s1))) r d ->
    computed d (c_st (run P n (start h s1))) = true \/
    (exists kind idx key a, get d (c_st (run P n (start h s1))) = Some (mkFut None (KItem kind idx key a))) \/
    (exists tk, get d (c_st (run P n (start h s1))) = Some (mkFut None (KTask tk)) /\ (1 <= tk_iter tk)%Z /\
                is_blocked tk (c_st (run P n (start h s1))) = true).
Proof. exact reachable_is_computed_or_stuck_stree_if_no_stale_item_guard. Qed.
Print Assumptions C04_reachable_is_computed_or_stuck_stree_if_no_stale_item_guard.
