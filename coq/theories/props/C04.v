From Asynq Require Import Machine.
Theorem C04_placeholder : True. Proof. exact I. Qed.
Print Assumptions C04_placeholder.
