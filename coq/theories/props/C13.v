(* C13 — the async caches behave like their reference cache for every call history.
   Only statements; every proof is `exact <lemma>` (lemmas in proofs/CacheProofs.v, proofs/CacheGenProofs.v).
   K, keqb range over every key type with a correct equality test: the theorems hold for the default
   key, for every key_fn, and for the reference keyed on the bound arguments alike. *)
From Asynq Require Import Base Cache proofs.CacheProofs proofs.CacheGenProofs.

(* ---- keys: the (repaired) default key is the call's bound arguments, whatever the spelling *)
Theorem C13_default_key_normalises : forall s c b,
  bind s c = Some b -> alru_key false KmDefault s c = Some (enc b).
Proof. exact default_key_normalises. Qed.
Print Assumptions C13_default_key_normalises.

Theorem C13_default_key_iff : forall s c1 c2 b1 b2,
  bind s c1 = Some b1 -> bind s c2 = Some b2 ->
  (alru_key false KmDefault s c1 = alru_key false KmDefault s c2 <-> b1 = b2).
Proof. exact default_key_iff. Qed.
Print Assumptions C13_default_key_iff.

(* the key construction found in the tree (tools.py:229, args[1:]) does not have this property:
   def f(a, b=2): f(1) / f(1, b=3) collide, f(1) / f(1, 2) get different keys *)
Theorem C13_source_default_key_refuted :
  (exists c1 c2 b1 b2, bind sig_ab2 c1 = Some b1 /\ bind sig_ab2 c2 = Some b2 /\ b1 <> b2 /\
                       alru_key true KmDefault sig_ab2 c1 = alru_key true KmDefault sig_ab2 c2) /\
  (exists c1 c2 b, bind sig_ab2 c1 = Some b /\ bind sig_ab2 c2 = Some b /\
                   alru_key true KmDefault sig_ab2 c1 <> alru_key true KmDefault sig_ab2 c2).
Proof. exact source_key_refuted. Qed.
Print Assumptions C13_source_default_key_refuted.

(* ---- T1 refines_reference: for every history of calls that bind, alru_cache with the default key returns
   exactly what the LRU cache keyed on the bound arguments returns (results, cache sizes, body-run log) *)
Theorem C13_refines_reference : forall s cap ops,
  all_bind s ops ->
  snd (arun key key_eqb (alru_key false KmDefault s) (bindable s) cap ainit ops) =
  snd (arun bound bound_eqb (bind s) (bindable s) cap ainit ops) /\
  runs (fst (arun key key_eqb (alru_key false KmDefault s) (bindable s) cap ainit ops)) =
  runs (fst (arun bound bound_eqb (bind s) (bindable s) cap ainit ops)).
Proof. exact refines_reference. Qed.
Print Assumptions C13_refines_reference.

(* the same for acached_per_instance: per-instance dictionaries keyed on the bound arguments *)
Theorem C13_inst_refines_reference : forall s ops,
  all_bind_inst s ops ->
  snd (prun key key_eqb (inst_key s) (bindable s) pinit ops) =
  snd (prun bound bound_eqb (bind s) (bindable s) pinit ops) /\
  pruns (fst (prun key key_eqb (inst_key s) (bindable s) pinit ops)) =
  pruns (fst (prun bound bound_eqb (bind s) (bindable s) pinit ops)).
Proof. exact inst_refines_reference. Qed.
Print Assumptions C13_inst_refines_reference.

(* ... and what such a cache returns: a hit is the stored value and runs nothing *)
Theorem C13_hit_returns_stored_value : forall K keqb kf valid cap (st : astate K) id c bl b k v,
  kf c = Some k -> lru_find K keqb (store st) k = Some v ->
  snd (astep K keqb kf valid cap st (ACall id c bl b)) = RHit v /\
  runs (fst (astep K keqb kf valid cap st (ACall id c bl b))) = runs st /\
  infl (fst (astep K keqb kf valid cap st (ACall id c bl b))) = infl st.
Proof. exact call_hit. Qed.
Print Assumptions C13_hit_returns_stored_value.

(* a miss runs the body once and returns its fresh result, which is stored unless the body raised *)
Theorem C13_miss_runs_body : forall K keqb, (forall a b : K, keqb a b = true <-> a = b) ->
  forall kf valid cap (st : astate K) id c b k,
  NoDup (map (ekey K) (store st)) ->
  kf c = Some k -> lru_find K keqb (store st) k = None -> valid c = true ->
  let st' := fst (astep K keqb kf valid cap st (ACall id c false b)) in
  let r := snd (astep K keqb kf valid cap st (ACall id c false b)) in
  runs st' = runs st ++ [id] /\ infl st' = infl st /\
  match b with
  | BRet v => r = RMiss v /\ lru_find K keqb (store st') k = Some v
  | BRaise e => r = RRaise e /\ store st' = store st
  end.
Proof. exact call_miss. Qed.
Print Assumptions C13_miss_runs_body.

(* a blocking body: lookup at the start (nothing stored yet), store at completion *)
Theorem C13_blocking_miss_then_finish : forall K keqb, (forall a b : K, keqb a b = true <-> a = b) ->
  forall kf valid cap (st : astate K),
  (forall id c b k, kf c = Some k -> lru_find K keqb (store st) k = None -> valid c = true ->
     let st' := fst (astep K keqb kf valid cap st (ACall id c true b)) in
     snd (astep K keqb kf valid cap st (ACall id c true b)) = RPending /\
     runs st' = runs st ++ [id] /\ infl st' = infl st ++ [(id, k, b)] /\ store st' = store st) /\
  (forall id k b, NoDup (map (ekey K) (store st)) -> infl_find K (infl st) id = Some (k, b) ->
     let st' := fst (astep K keqb kf valid cap st (AFinish id)) in
     let r := snd (astep K keqb kf valid cap st (AFinish id)) in
     runs st' = runs st /\
     match b with
     | BRet v => r = RDone v /\ lru_find K keqb (store st') k = Some v
     | BRaise e => r = RRaise e /\ store st' = store st
     end).
Proof. exact blocking_miss_then_finish. Qed.
Print Assumptions C13_blocking_miss_then_finish.

(* ---- T2 no_cross_talk: in every history, every value served from the cache was computed by the body of an
   earlier call with the same key; for the default key: with the same bound arguments *)
Theorem C13_no_cross_talk : forall K keqb, (forall a b : K, keqb a b = true <-> a = b) ->
  forall kf valid cap ops,
  hits_justified K kf valid [] ops (snd (arun K keqb kf valid cap ainit ops)).
Proof. exact no_cross_talk. Qed.
Print Assumptions C13_no_cross_talk.

Theorem C13_no_cross_talk_default_key : forall s cap ops,
  hits_same_bound s [] ops (snd (arun key key_eqb (alru_key false KmDefault s) (bindable s) cap ainit ops)).
Proof. exact no_cross_talk_default. Qed.
Print Assumptions C13_no_cross_talk_default_key.

(* ---- T3 errors_not_cached *)
Theorem C13_errors_not_cached : forall K keqb kf valid cap (st : astate K),
  (forall id c bl e k, kf c = Some k -> lru_find K keqb (store st) k = None ->
     store (fst (astep K keqb kf valid cap st (ACall id c bl (BRaise e)))) = store st) /\
  (forall id k e, infl_find K (infl st) id = Some (k, BRaise e) ->
     store (fst (astep K keqb kf valid cap st (AFinish id))) = store st /\
     snd (astep K keqb kf valid cap st (AFinish id)) = RRaise e).
Proof. exact errors_not_cached_both. Qed.
Print Assumptions C13_errors_not_cached.

(* ---- T4 size_and_lru: after every history at most maxsize entries, no key twice, the list in strict
   recency order (stamp = index of the operation that last looked the key up successfully or stored it);
   a store into a full cache drops exactly the head, whose stamp is the smallest *)
Theorem C13_size_and_lru : forall K keqb, (forall a b : K, keqb a b = true <-> a = b) ->
  forall kf valid cap, (1 <= cap)%nat -> forall ops,
  let st := fst (arun K keqb kf valid cap ainit ops) in
  (length (store st) <= cap)%nat /\ NoDup (map (ekey K) (store st)) /\ stamps_sorted K (store st).
Proof. exact size_and_lru. Qed.
Print Assumptions C13_size_and_lru.

Theorem C13_evicts_least_recently_used : forall K keqb cap t (l : list (entry K)) k v,
  lru_ok K cap t l -> lru_find K keqb l k = None ->
  (length l = cap -> (1 <= cap)%nat ->
     exists e0 rest, l = e0 :: rest /\ lru_setitem K keqb cap l k v t = rest ++ [(k, v, t)] /\
                     forall e, In e rest -> (estamp K e0 < estamp K e)%nat) /\
  (length l <> cap -> lru_setitem K keqb cap l k v t = l ++ [(k, v, t)]).
Proof. exact setitem_evicts_lru. Qed.
Print Assumptions C13_evicts_least_recently_used.

(* ---- T5 per-instance caches: independent, and they vanish with their instance *)
Theorem C13_instances_independent : forall K keqb kf valid (st : pstate K) o j,
  op_inst o <> j -> p_find K (pstore (fst (pstep K keqb kf valid st o))) j = p_find K (pstore st) j.
Proof. exact instances_independent. Qed.
Print Assumptions C13_instances_independent.

Theorem C13_call_depends_on_own_cache : forall K keqb kf valid (st1 st2 : pstate K) id i c bl b,
  p_dict K (pstore st1) i = p_dict K (pstore st2) i ->
  snd (pstep K keqb kf valid st1 (PCall id i c bl b)) = snd (pstep K keqb kf valid st2 (PCall id i c bl b)).
Proof. exact call_depends_on_own_cache. Qed.
Print Assumptions C13_call_depends_on_own_cache.

Theorem C13_instance_vanishes : forall K keqb kf valid ops i,
  let st := fst (prun K keqb kf valid pinit ops) in
  inst_busy K (pinfl st) i = false ->
  let st' := fst (pstep K keqb kf valid st (PDrop i)) in
  p_find K (pstore st') i = None /\
  forall id c k v, kf c = Some k -> valid c = true ->
    snd (pstep K keqb kf valid st' (PCall id i c false (BRet v))) = RMiss v.
Proof. exact instance_vanishes. Qed.
Print Assumptions C13_instance_vanishes.

Theorem C13_inst_no_cross_talk : forall K keqb, (forall a b : K, keqb a b = true <-> a = b) ->
  forall kf valid ops,
  phits_justified K kf valid [] ops (snd (prun K keqb kf valid pinit ops)).
Proof. exact inst_no_cross_talk. Qed.
Print Assumptions C13_inst_no_cross_talk.

(* ---- T6 alazy_constant: recompute iff never computed / dirtied / ttl expired; dirty() forces exactly one *)
Theorem C13_lazy_recompute_iff : forall ttl st id bl b,
  let st' := fst (lstep ttl st (LCall id bl b)) in
  let r := snd (lstep ttl st (LCall id bl b)) in
  (needs_refresh ttl st = true <-> refresh st = 0 \/ (ttl <> 0 /\ refresh st < now st - ttl)) /\
  (needs_refresh ttl st = true ->
     lruns st' = lruns st ++ [id] /\
     match bl, b with
     | true, _ => r = RPending /\ refresh st' = refresh st /\ cached st' = cached st
     | false, BRet v => r = RMiss v /\ refresh st' = now st /\ cached st' = Some v
     | false, BRaise e => r = RRaise e /\ refresh st' = refresh st /\ cached st' = cached st
     end) /\
  (needs_refresh ttl st = false ->
     st' = st /\ r = match cached st with Some v => RHit v | None => RNone end).
Proof. exact lazy_recompute_iff_full. Qed.
Print Assumptions C13_lazy_recompute_iff.

Theorem C13_lazy_dirty_exactly_one : forall ttl st id v ops,
  now st <> 0 -> 0 <= ttl -> quiet (ttl =? 0) ttl ops ->
  let st1 := fst (lstep ttl st LDirty) in
  let st2 := fst (lstep ttl st1 (LCall id false (BRet v))) in
  snd (lstep ttl st1 (LCall id false (BRet v))) = RMiss v /\
  lruns st2 = lruns st ++ [id] /\
  lruns (fst (lrun ttl st2 ops)) = lruns st2 /\ all_hits v ops (snd (lrun ttl st2 ops)).
Proof. exact lazy_dirty_exactly_one. Qed.
Print Assumptions C13_lazy_dirty_exactly_one.

(* ---- T7 families: several functions decorated through one or several decorator objects.  One cache machine per
   decorated function; in every interleaved history function f observes (results, size of its cache) exactly what
   it observes when the operations of all other functions are deleted: the caches never interact *)
Theorem C13_family_step_isolated : forall K keqb kfs valids caps (st : mstate K) f o g,
  g <> f -> nth_error (mfns (fst (mstep K keqb kfs valids caps st (f, o)))) g = nth_error (mfns st) g.
Proof. exact mstep_other. Qed.
Print Assumptions C13_family_step_isolated.

Theorem C13_family_projection : forall K keqb kfs valids caps n ops f, (f < n)%nat ->
  nth_error (mfns (fst (mrun K keqb kfs valids caps (minit n) ops))) f =
    Some (fst (arun K keqb (kfs f) (valids f) (caps f) ainit (proj f ops))) /\
  obs_on f ops (snd (mrun K keqb kfs valids caps (minit n) ops)) =
    snd (arun K keqb (kfs f) (valids f) (caps f) ainit (proj f ops)).
Proof. exact family_projection. Qed.
Print Assumptions C13_family_projection.

(* a miss of function f runs the body of function f: the log entries tagged f are f's own body runs, in order *)
Theorem C13_family_body_runs_own : forall K keqb kfs valids caps n ops f, (f < n)%nat ->
  log_of f (mlog (fst (mrun K keqb kfs valids caps (minit n) ops))) =
  runs (fst (arun K keqb (kfs f) (valids f) (caps f) ainit (proj f ops))).
Proof. exact family_body_runs_own. Qed.
Print Assumptions C13_family_body_runs_own.

(* every value f is served from its cache was computed by the body of an earlier call of f with the same key *)
Theorem C13_family_no_cross_talk : forall K keqb kfs valids caps, (forall a b : K, keqb a b = true <-> a = b) ->
  forall n ops f, (f < n)%nat ->
  hits_justified K (kfs f) (valids f) [] (proj f ops) (obs_on f ops (snd (mrun K keqb kfs valids caps (minit n) ops))).
Proof. exact family_no_cross_talk. Qed.
Print Assumptions C13_family_no_cross_talk.

(* the decorator object carries only configuration: a family decorated through shared objects behaves exactly
   like the same family with one decorator call per function *)
Theorem C13_shared_decorator_unobservable : forall src decos fns ops,
  run_with src (CAlruM decos fns ops) =
  run_with src (CAlruM (map (fun fa => nth (fst fa) decos adflt) fns) (own_decos 0 fns) ops).
Proof. exact shared_decorator_unobservable. Qed.
Print Assumptions C13_shared_decorator_unobservable.

(* methods under acached_per_instance / functions under alazy_constant: an operation on one of them (other than
   the death of an instance / a clock tick, which are common to all) leaves the others untouched; Drop of an idle
   instance removes it from every method's cache *)
Theorem C13_family_inst_step_isolated : forall K keqb kfs valids (st : mpstate K) f o g,
  (forall i, o <> PDrop i) -> g <> f ->
  nth_error (mpfns (fst (mpstep K keqb kfs valids st (f, o)))) g = nth_error (mpfns st) g.
Proof. exact mpstep_other. Qed.
Print Assumptions C13_family_inst_step_isolated.

Theorem C13_family_inst_drop : forall K keqb kfs valids (st : mpstate K) f i,
  let st' := fst (mpstep K keqb kfs valids st (f, PDrop i)) in
  (existsb (fun p => inst_busy K (pinfl p) i) (mpfns st) = true -> st' = st) /\
  (existsb (fun p => inst_busy K (pinfl p) i) (mpfns st) = false ->
   forall g p, nth_error (mpfns st) g = Some p ->
     nth_error (mpfns st') g = Some (mkP (p_remove K (pstore p) i) (pinfl p) (pruns p))).
Proof. exact mpstep_drop. Qed.
Print Assumptions C13_family_inst_drop.

Theorem C13_family_lazy_step_isolated : forall ttls (st : mlstate) f o g,
  (forall dt, o <> LTick dt) -> g <> f ->
  nth_error (mlfns (fst (mlstep ttls st (f, o)))) g = nth_error (mlfns st) g.
Proof. exact mlstep_other. Qed.
Print Assumptions C13_family_lazy_step_isolated.

Theorem C13_family_lazy_projection : forall ttls n now0 ops f, (f < n)%nat ->
  lobs_on f ops (snd (mlrun ttls (mlinit n now0) ops)) = snd (lrun (ttls f) (linit now0) (lproj f ops)).
Proof. exact lazy_family_projection. Qed.
Print Assumptions C13_family_lazy_projection.

(* ---- T8 values are opaque payloads: relabelling the values bodies return (rho arbitrary, e.g. everything to one
   value, or the unique integers of the harness to None / 0 / False / '' ...) commutes with every step and every
   history: hit or miss, evictions, cache sizes and the body-run log never depend on what a body returned, and a
   hit returns the (relabelled) stored value *)
Theorem C13_values_opaque_step : forall rho K keqb kf valid cap (st : astate K) o,
  astep K keqb kf valid cap (rl_astate rho K st) (rl_aop rho o) =
  (rl_astate rho K (fst (astep K keqb kf valid cap st o)), rl_res rho (snd (astep K keqb kf valid cap st o))).
Proof. exact astep_relabel. Qed.
Print Assumptions C13_values_opaque_step.

Theorem C13_values_opaque : forall rho K keqb kf valid cap ops,
  snd (arun K keqb kf valid cap ainit (map (rl_aop rho) ops)) =
    map (rl_obs rho) (snd (arun K keqb kf valid cap ainit ops)) /\
  runs (fst (arun K keqb kf valid cap ainit (map (rl_aop rho) ops))) =
    runs (fst (arun K keqb kf valid cap ainit ops)).
Proof. exact values_opaque. Qed.
Print Assumptions C13_values_opaque.

Theorem C13_inst_values_opaque : forall rho K keqb kf valid ops,
  snd (prun K keqb kf valid pinit (map (rl_pop rho) ops)) =
    map (rl_pobs rho) (snd (prun K keqb kf valid pinit ops)) /\
  pruns (fst (prun K keqb kf valid pinit (map (rl_pop rho) ops))) =
    pruns (fst (prun K keqb kf valid pinit ops)).
Proof. exact inst_values_opaque. Qed.
Print Assumptions C13_inst_values_opaque.

Theorem C13_inst_values_opaque_step : forall rho K keqb kf valid (st : pstate K) o,
  pstep K keqb kf valid (rl_pstate rho K st) (rl_pop rho o) =
  (rl_pstate rho K (fst (pstep K keqb kf valid st o)), rl_res rho (snd (pstep K keqb kf valid st o))).
Proof. exact pstep_relabel. Qed.
Print Assumptions C13_inst_values_opaque_step.

Theorem C13_lazy_values_opaque_step : forall rho ttl st o,
  lstep ttl (rl_lstate rho st) (rl_lop rho o) =
  (rl_lstate rho (fst (lstep ttl st o)), rl_res rho (snd (lstep ttl st o))).
Proof. exact lstep_relabel. Qed.
Print Assumptions C13_lazy_values_opaque_step.

(* ---- alru_cache on a method, instances with different lifetimes: an instance is a (slot, generation) pair.
   A hit is served from an entry stored for the very instance the method is called on (same slot, same generation) ... *)
Theorem C13_generations_hit_same_instance : forall src s cap st id i c bl b st' v,
  gstep src s cap st (GCall id i c bl b) = (st', RHit v) ->
  exists e, In e (store (ga st)) /\ islot (ekey ikey e) = i /\ igen (ekey ikey e) = gen_of (ggen st) i /\
            eval ikey e = v.
Proof. exact gen_hit_same_instance. Qed.
Print Assumptions C13_generations_hit_same_instance.

(* ... so after any history, once the instance in a slot is dropped, the first call on the fresh instance in that slot
   is never a hit - whatever the dead generations left in the LRU, the same remaining arguments included. *)
Theorem C13_generations_fresh_instance_not_served : forall src s cap ops st i st1 id c bl b,
  fst (grun src s cap ginit ops) = st ->
  gstep src s cap st (GDrop i) = (st1, RUnit) ->
  forall v, snd (gstep src s cap st1 (GCall id i c bl b)) <> RHit v.
Proof. exact gen_fresh_instance_not_served. Qed.
Print Assumptions C13_generations_fresh_instance_not_served.
