(* C12 — deduplicate: one in-flight execution per key, shared by all callers.
   Only statements; every proof is `exact <lemma>` (lemmas in proofs/DedupProofs.v).
   `Repaired` = tools.py with work/fixes/C12-stale-callback.diff and C12-varargs-key.diff applied;
   `AsWritten` = the code as it is; the two _refuted theorems show where it breaks the statement. *)
From Asynq Require Import Base Dedup proofs.DedupProofs.

(* T1.  From any state in which key k is registered to task t: over every sequence of actions
   (calls from anywhere, dirty() of other keys, bodies starting / suspending / completing) that
   contains no dirty() for k and not t's own completion, every call whose key is k and that is
   issued while t's body is not the running one returns t itself and creates nothing, and k stays
   registered to t. *)
Theorem C12_shared_while_in_flight : forall acts st k t,
  find k (reg st) = Some t -> all_harmless Repaired k t acts ->
  calls_share Repaired st k t acts /\ find k (reg (fst (run_micro Repaired st acts))) = Some t.
Proof. exact shared_while_in_flight. Qed.
Print Assumptions C12_shared_while_in_flight.

(* ... and such a registration is what the first call for a key establishes (satisfiability of
   T1's hypothesis; also the "runs the body again" half of T2) *)
Theorem C12_call_when_absent_creates : forall v st c k,
  key_of v c = Some k -> find k (reg st) = None -> bind_of c <> None ->
  exists st', micro v st (ACall c) = (st', MTask (length (pool st)) true) /\
              find k (reg st') = Some (length (pool st)) /\
              nth_error (pool st') (length (pool st)) = Some (new_task k true).
Proof. exact call_when_absent_creates. Qed.
Print Assumptions C12_call_when_absent_creates.

Theorem C12_shared_while_in_flight_as_written_refuted : ~ shared_statement AsWritten.
Proof. exact shared_as_written_refuted. Qed.
Print Assumptions C12_shared_while_in_flight_as_written_refuted.

(* T2.  In every reachable state a call hands out either a new task or a registered one that is in
   flight (never a completed one); completion of the registered task and dirty() both leave the key
   unregistered, so that (C12_call_when_absent_creates) the next call runs the body again. *)
Theorem C12_rerun_after_done_or_dirty : forall st, reach Repaired st ->
  (forall c st' t, micro Repaired st (ACall c) = (st', MTask t false) ->
     exists x, nth_error (pool st) t = Some x /\ Some (tkey x) = key_of Repaired c /\
               tstatus x <> Done /\ tstatus x <> Running) /\
  (forall k t o, find k (reg st) = Some t -> is_running st t = true ->
     find k (reg (fst (micro Repaired st (AFinish t o)))) = None) /\
  (forall c k, key_of Repaired c = Some k -> find k (reg (fst (micro Repaired st (ADirty c)))) = None).
Proof. exact rerun_after_done_or_dirty. Qed.
Print Assumptions C12_rerun_after_done_or_dirty.

(* T3.  Two calls anywhere in any history that receive the same task have the same key ... *)
Theorem C12_keys_disjoint : forall st c1 s1 t b1 acts c2 b2,
  reach Repaired st ->
  micro Repaired st (ACall c1) = (s1, MTask t b1) ->
  snd (micro Repaired (fst (run_micro Repaired s1 acts)) (ACall c2)) = MTask t b2 ->
  key_of Repaired c1 = key_of Repaired c2.
Proof. exact keys_disjoint. Qed.
Print Assumptions C12_keys_disjoint.

(* ... and keys differ when the function object (another def statement, or another execution of
   the same def statement: a closure from a factory called again, a name defined again - equal
   __module__ and __qualname__), the thread or (for a method) the instance differs *)
Theorem C12_keys_differ : forall v c1 c2 k1 k2,
  key_of v c1 = Some k1 -> key_of v c2 = Some k2 ->
  (cfn c1 <> cfn c2 \/ cgen c1 <> cgen c2 \/ cthread c1 <> cthread c2 \/
   (cfn c1 = 4 /\ cfn c2 = 4 /\ cinst c1 <> cinst c2)) ->
  k1 <> k2.
Proof. exact keys_differ. Qed.
Print Assumptions C12_keys_differ.

(* T3 on tasks: in any history two calls of different function objects (in particular same-named
   ones), on different threads or of a method on different instances never receive the same task *)
Theorem C12_distinct_callables_never_share : forall st c1 s1 t1 b1 acts c2 t2 b2,
  reach Repaired st ->
  micro Repaired st (ACall c1) = (s1, MTask t1 b1) ->
  snd (micro Repaired (fst (run_micro Repaired s1 acts)) (ACall c2)) = MTask t2 b2 ->
  (cfn c1 <> cfn c2 \/ cgen c1 <> cgen c2 \/ cthread c1 <> cthread c2 \/
   (cfn c1 = 4 /\ cfn c2 = 4 /\ cinst c1 <> cinst c2)) ->
  t1 <> t2.
Proof. exact distinct_never_share. Qed.
Print Assumptions C12_distinct_callables_never_share.

(* ... and dirty() issued for one of them leaves the other's in-flight task registered (so by T1
   it keeps being shared) *)
Theorem C12_dirty_of_other_callable_keeps_task : forall st c0 k t c,
  key_of Repaired c0 = Some k -> find k (reg st) = Some t ->
  (cfn c0 <> cfn c \/ cgen c0 <> cgen c \/ cthread c0 <> cthread c \/
   (cfn c0 = 4 /\ cfn c = 4 /\ cinst c0 <> cinst c)) ->
  find k (reg (fst (micro Repaired st (ADirty c)))) = Some t.
Proof. exact dirty_of_other_keeps. Qed.
Print Assumptions C12_dirty_of_other_callable_keeps_task.

(* T4.  Two well-formed spellings (Python's own binding succeeds) get the same key component iff
   they bind the same arguments: for every signature with the repaired keygetter, for signatures
   without *rest with the keygetter as written; with *rest the code as written collides. *)
Theorem C12_normalise_sound : forall s p1 k1 p2 k2 b1 b2,
  bind s p1 k1 = Some b1 -> bind s p2 k2 = Some b2 ->
  (keygetter Repaired s p1 k1 = keygetter Repaired s p2 k2 <-> b1 = b2).
Proof. exact normalise_sound. Qed.
Print Assumptions C12_normalise_sound.

Theorem C12_normalise_sound_as_written_no_varargs : forall s p1 k1 p2 k2 b1 b2,
  varargs s = false -> bind s p1 k1 = Some b1 -> bind s p2 k2 = Some b2 ->
  (keygetter AsWritten s p1 k1 = keygetter AsWritten s p2 k2 <-> b1 = b2).
Proof. exact normalise_sound_as_written. Qed.
Print Assumptions C12_normalise_sound_as_written_no_varargs.

Theorem C12_normalise_as_written_varargs_refuted :
  let s := sig_of 6 in
  exists p1 k1 p2 k2 b1 b2,
    bind s p1 k1 = Some b1 /\ bind s p2 k2 = Some b2 /\ b1 <> b2 /\
    keygetter AsWritten s p1 k1 = keygetter AsWritten s p2 k2.
Proof. exact normalise_as_written_varargs_refuted. Qed.
Print Assumptions C12_normalise_as_written_varargs_refuted.

(* The body of a task starts at most once, an outcome exists exactly when the task is Done, and
   once it exists no action changes the task: all holders of the task see that one outcome. *)
Theorem C12_body_once_one_outcome : forall v st t x, reach v st -> nth_error (pool st) t = Some x ->
  ((tstarts x <= 1)%nat /\ (tstatus x <> Created -> tstarts x = 1%nat) /\ (tout x <> None <-> tstatus x = Done)) /\
  (forall a o, tout x = Some o -> nth_error (pool (fst (micro v st a))) t = Some x).
Proof. exact body_once_one_outcome. Qed.
Print Assumptions C12_body_once_one_outcome.

(* The executable driver evaluated by the correspondence (run_case) only ever acts through
   `micro`: every state it reaches is covered by the theorems above. *)
Theorem C12_driver_reachable : forall v scripts ops,
  reach v (core (loop v scripts (fuel_for scripts ops) ops d_init)).
Proof. exact run_case_reach. Qed.
Print Assumptions C12_driver_reachable.

(* ---- Scale: sharing does not depend on how many other keys are registered (the table of in-flight
   tasks is unbounded; an entry leaves it only by its own task's completion or dirty() of its key).

   Frame.  In every variant, whatever a key k maps to (a task, or nothing) is not changed by any
   sequence of actions that concern other keys: calls and dirty() with other keys, completions of
   tasks created for other keys, bodies starting and suspending (off_key / all_off_key in
   DedupProofs.v) - of any length. *)
Theorem C12_frame_other_keys : forall v acts st k,
  all_off_key v st k acts -> find k (reg (fst (run_micro v st acts))) = find k (reg st).
Proof. exact frame_run. Qed.
Print Assumptions C12_frame_other_keys.

(* Registering other keys - any number of calls cs with keys different from k, every variant -
   never changes the task k maps to, and the next call for k (issued while t's body is not the
   running one) returns t itself and creates nothing. *)
Theorem C12_shared_whatever_else_is_registered : forall v cs st c k t,
  key_of v c = Some k -> find k (reg st) = Some t -> is_running st t = false ->
  Forall (fun c' => key_of v c' <> Some k) cs ->
  let st' := fst (run_micro v st (map ACall cs)) in
  find k (reg st') = Some t /\ micro v st' (ACall c) = (st', MTask t false).
Proof. exact shared_whatever_else_is_registered. Qed.
Print Assumptions C12_shared_whatever_else_is_registered.

(* The compact fan-out op of the driver (OFan / BFan: [fn.asynq(i) for i in range(lo, lo + n)]) is
   exactly its n calls performed one after the other through `micro` ... *)
Theorem C12_fan_is_calls : forall v d ctx th fn gen inst sp lo n,
  core (d_fan v d ctx th fn gen inst sp lo n)
  = fst (run_micro v (core d) (map ACall (fan_calls th fn gen inst sp lo n))).
Proof. exact fan_is_calls. Qed.
Print Assumptions C12_fan_is_calls.

(* ... its keys are pairwise distinct (n calls = n keys registered at the same time) ... *)
Theorem C12_fan_keys_distinct : forall v th fn gen inst sp lo i j ki kj,
  key_of v (fan_call th fn gen inst sp lo i) = Some ki ->
  key_of v (fan_call th fn gen inst sp lo j) = Some kj -> i <> j -> ki <> kj.
Proof. exact fan_keys_distinct. Qed.
Print Assumptions C12_fan_keys_distinct.

(* ... and for EVERY size n a key that is not one of the fan-out's keeps its task and is shared by
   the next call, *)
Theorem C12_shared_after_fan : forall v d ctx th fn gen inst sp lo n c k t,
  key_of v c = Some k -> find k (reg (core d)) = Some t -> is_running (core d) t = false ->
  (forall i, (i < Z.to_nat n)%nat -> key_of v (fan_call th fn gen inst sp lo i) <> Some k) ->
  let st' := core (d_fan v d ctx th fn gen inst sp lo n) in
  find k (reg st') = Some t /\ micro v st' (ACall c) = (st', MTask t false).
Proof. exact shared_after_fan. Qed.
Print Assumptions C12_shared_after_fan.

(* which is the case in particular when the fan-out is over another def statement, another
   generation of the same def, another thread or (method) another instance. *)
Theorem C12_fan_of_other_callable_off_key : forall v c k th fn gen inst sp lo,
  key_of v c = Some k ->
  (cfn c <> fn \/ cgen c <> gen \/ cthread c <> th \/ (cfn c = 4 /\ fn = 4 /\ cinst c <> inst)) ->
  forall i : nat, key_of v (fan_call th fn gen inst sp lo i) <> Some k.
Proof. exact fan_of_other_callable_off_key. Qed.
Print Assumptions C12_fan_of_other_callable_off_key.

(* satisfiable: one key, then a fan-out of 64 keys of another function, then the first key in
   another spelling: 65 keys registered, the call returns task 0 *)
Example C12_example_fan :
  let c := mkCall 0 0 0 0 [AInt 1] [] in
  let d := d_call Repaired d_init (-1) c in
  let d' := d_fan Repaired d (-1) 0 1 0 0 0 0 64 in
  length (reg (core d')) = 65%nat /\
  snd (micro Repaired (core d') (ACall (mkCall 0 0 0 0 [] [(N_A, AInt 1)]))) = MTask 0 false.
Proof. exact example_fan. Qed.

(* the hypotheses are satisfiable: a concrete history in which a second spelling shares and a call
   after completion gets a new task *)
Example C12_example_share :
  let c1 := mkCall 0 0 0 0 [AInt 1] [] in
  let c2 := mkCall 0 0 0 0 [] [(N_B, AInt 0); (N_A, AInt 1)] in
  snd (run_micro Repaired init [ACall c1; ARun 0; AGate 0; ACall c2; ARun 0; AFinish 0 (Ok (VInt 7)); ACall c1])
  = [MTask 0 true; MUnit; MUnit; MTask 0 false; MUnit; MUnit; MTask 1 true].
Proof. exact example_share. Qed.

(* two executions of one def statement (same module and qualname, different function objects):
   equal arguments on one thread give separate tasks, dirty() of one leaves the other shared *)
Example C12_example_generations :
  let c1 := mkCall 0 0 0 0 [AInt 1] [] in
  let c2 := mkCall 0 0 1 0 [AInt 1] [] in
  (cfn c1 <> cfn c2 \/ cgen c1 <> cgen c2 \/ cthread c1 <> cthread c2 \/
   (cfn c1 = 4 /\ cfn c2 = 4 /\ cinst c1 <> cinst c2)) /\
  snd (run_micro Repaired init [ACall c1; ACall c2; ADirty c2; ACall c1; ACall c2])
  = [MTask 0 true; MTask 1 true; MUnit; MTask 0 false; MTask 2 true].
Proof. exact example_generations. Qed.
