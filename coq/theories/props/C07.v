(* C07 - "Across all tasks of a thread, the active periods of asynq contexts are properly nested (whatever
   was resumed last is paused first), so save-and-restore contexts compose.  Hence a value read from an
   AsyncScopedValue inside any task is the one established by the innermost enclosing override in that
   task or in the tasks awaiting it - exactly what the same code would read if run sequentially - and after
   the computation ends, normally or with an error, every overridden value is back to what it was before."

   Statements only; proofs in proofs/MachineC07.v (tree programs) and proofs/MachineC07S.v (tree programs with
   synchronous calls, see the end of this comment), built on the C01/C06/C04 invariants of the scheduler
   machine (Machine.v).

   WHAT IS PROVED.  For every pointwise service P (no flush body raises half way), any flush order, batch
   priorities, KEEP_DEPENDENCIES setting and fuel n, and every program p with
     tree p   - yield-only task trees: Ret/Result/Raise, Yield of new futures (tasks, batch items, constant,
                error and lazy futures, in nested tuples/lists/dicts), Enter/Exit of AsyncContext objects whose
                resume/pause do not raise and of AsyncScopedValue.override(v); and
     wn [] p  - every with-block is closed on every exit path, innermost first, and contexts open at the
                same time in one task have distinct ids (what harness/lib/machprog.py emits for `with`),
   as long as no exception unwound through asynq's frames (no_unwind: the MAX_TASK_STACK_SIZE guard did
   not fire):

   The ghost list [layers s] lists the (task, context) pairs whose contexts are active in state s: task by
   task from the bottom of the scheduler's task stack to its top, inside a task in entry order; both kinds
   of context (AsyncContext and override) are recorded.

   C07_contexts_nest_lifo (T3): every machine step changes [layers] at its END only: it appends some
     layers (a task's contexts are resumed in entry order, or a with-block is entered) or removes some
     from the end (a task's contexts are paused in reverse order, or the innermost with-block is left).
     So across all tasks whatever was resumed last is paused first.
   C07_reads_see_enclosing_overrides (T2): whenever the body of a task t runs (mode MRun t q), every scoped
     variable x has the value [apply_l init (layers s) x]: the value it had before the computation,
     overridden by the override layers in order.  The layers are those of uncomputed tasks BELOW t on the
     scheduler's task stack whose contexts are active (the tasks whose pending await led the scheduler to
     t), followed by t's own open contexts in entry order - nothing else: no sibling, no finished task, no
     task blocked on a batch contributes.  C07_reads_innermost: hence x has the value of the LAST override
     layer for x - the innermost enclosing override in t, else in the nearest such task below t - or its
     initial value when there is none.  This is what the same nesting of with-blocks gives when the
     awaited code is run inline.
   C07_values_restored (T1): at every flush point (mode MAfterExec: the _execute pass has ended, possibly
     with suspended tasks inside with-blocks that are still open) and when the outermost call has
     returned (MDone o, o a value or an error) every scoped variable is what it was before the computation.
   C07_saved_values: at every reachable non-final configuration each active override instance holds, in
     its saved-value slot (ci_old), exactly the value below it ([apply_l init pre var]), and the keys
     (task, cid) of active layers are distinct; this is the save-and-restore composition invariant from
     which the three theorems above follow.

   C07_layer_owners_await: the owner u of every layer below t's own awaits t: t is reachable from u through
     the dependency lists of uncompleted tasks (MachineC04.reach) - "the tasks awaiting it" of the property.
     (Needs tree p only.)

   WHAT IS NOT PROVED HERE (covered by the correspondence harness + monitors in harness/props/c07.py):
   - programs branching on ReadVar values (non-branching reads: see PROGRAMS WITH ACTUAL, NON-BRANCHING READS at
     the end of this comment), Let/Sync (synchronous re-entry through .value()), Probe,
     NonAsyncContext (raises on pause/resume), AsyncContext objects whose resume()/pause() raise,
     async_override of attributes, with-blocks left open when a task ends (generator.close() path of
     complete_task), non-pointwise services, shared futures (DAGs), and runs in which the task-stack
     guard fired;
   - an end-to-end equation with a sequential evaluator for scoped values (Seq.eval has no variables; the
     read theorem is stated on the machine state at the moments a task's code runs).

   ---------------------------------------------------------------------------------------------------------
   SYNCHRONOUS CALLS (second half of this file; proofs in proofs/MachineC07S.v).  The same theorems for the larger
   class  stree p /\ wns [] p :
     MachineC01S.stree - tree programs plus synchronous calls of fresh tasks  fn(args) = Let (FTask q) (fun h =>
                Sync h k), nested to any depth (the callee is run by a scheduler loop NESTED below the caller's frames);
     MachineC06S.wns   - wn plus the case of a synchronous call (callee body well nested on its own, continuations
                well nested with the caller's open list).
   [layers s] is the same ghost list.  The callers suspended in value() (owners of the FValue frames,
   MachineC01S.fvals) stay on the scheduler's stack below the callee's segment with their contexts ACTIVE, so their
   layers stay applied while the nested loop runs the callee and whatever it awaits.

   PROVED for stree (every pointwise P, flush order, priorities, KEEP_DEPENDENCIES, fuel; no_unwind):
   C07_contexts_nest_lifo_stree: every machine step - of the outermost loop, of a nested loop, of a task body, of
     value() entering / returning - changes [layers] at its END only.
   C07_reads_see_enclosing_overrides_stree: whenever code of t runs (MRun t q, also at the moment t makes a synchronous
     call) every scoped variable is  apply_l init (layers s) : the layers of the tasks below t on the stack whose
     contexts are active, then t's own open contexts.  Every owner of a lower layer is a caller inside value() or a
     task with scheduled dependencies; every caller inside value() is below t, active, and contributes ALL its open
     contexts - the callee (and everything the nested loop runs for it) reads the caller's overrides, as in
     synchronous code.  C07_reads_innermost_stree: the last override layer for x wins, else the initial value.
   C07_values_restored_stree: when the outermost call has returned (value or error) and at every flush point of the
     OUTERMOST loop (no caller inside value()) every scoped variable is what it was before the computation.
   C07_values_at_flush_stree: at EVERY flush point (also of a loop nested in synchronous calls) the variables are
     apply_l init (layers s), [layers s] consists exactly of the open contexts of the uncompleted tasks whose contexts
     are active, and each such task is on the scheduler's stack and is a caller inside value() or has scheduled its
     dependencies; all callers inside value() are active.
   C07_layers_are_the_active_contexts_stree: the membership characterisation of [layers] at every non-final
     configuration.   C07_saved_values_stree: the save-and-restore invariant (ci_old of every active override = value
     below it, layer keys distinct) at every reachable configuration.
   REFUTED for stree: C07_values_restored_at_every_flush_stree_is_false - the tree statement "at EVERY flush point
     every scoped value is back to its initial value" is false once a nested loop flushes (vm_compute witness:
     MachineC07S.c07s_demo, step 40: x = 40, the override of the caller two calls up, not 0).  The two theorems above
     are the true form.
   C07_stree_hypotheses_are_met: the demo run (non-vacuity; all flush points with the layers still applied).
   C07_layer_owners_await_stree ("the tasks (transitively) awaiting it"; needs stree p only): while code of t runs, the
     owner u of every layer below t's own awaits t - [MachineC07S.awaits s frames u t]: a chain from u to t whose links are
     (a) v is in the dependency list of an uncompleted task w (w yielded v), or (b) a caller w is suspended in value() on
     r: the frames contain  FWait r :: FValue w k  (w called r synchronously).  For yield-only programs only (a) occurs
     and this is C07_layer_owners_await.
   WITHOUT THE HYPOTHESIS no_unwind (end of the file; proofs/MachineNoUnwind.v, MachineGuardForms.v): the tree-
   program theorems are stated again as C07_values_restored_guard, C07_reads_see_enclosing_overrides_guard,
   C07_reads_innermost_guard, C07_layer_owners_await_guard, C07_contexts_nest_lifo_guard. These forms need no
   assumption about exceptions unwinding: FutureIsAlreadyComputed is proved unreachable for tree programs, so only
   the runaway guard's RuntimeError can unwind through asynq's frames, and the hypothesis "the guard has not fired
   before step n" (forall k < n, guard_fires P (run P k c0) = false; guard_fires is the boolean test at the head of
   the _execute loop) is a decidable condition on the run.
   NOT PROVED for stree: an end-to-end equation with a sequential evaluator for scoped values (as for tree programs the
     read theorem is stated on the machine state at the moments a task's code runs).  Still excluded:
     ReadVar/Probe-branching programs, Sync on an existing
     handle (LOld / shared futures), NonAsyncContext and raising contexts, with-blocks left open at task end,
     non-pointwise services, runs in which the task-stack guard fired.

   ---------------------------------------------------------------------------------------------------------
   PROGRAMS WITH ACTUAL, NON-BRANCHING READS (end of this file; proofs in proofs/MachineC07R.v).
     MachineC07R.rtree0 - tree programs plus ReadVar (AsyncScopedValue.get()) whose continuation does not depend on the
                value read (forall v v', k v = k v'); MachineC07R.wnr - wn plus reads; MachineC07R.erase - the program
                with its reads removed (a tree program, C07_erased_program_is_covered_rtree0).
   Route: a stuttering simulation.  The run of p with every stored generator erased and the EvRead events filtered out
   of the trace is, step for step, the run of [erase p], except that a read step of p is matched by no step
   (MachineC07R.step_est, run_est, sim_run); every body the machine runs stays in the class
   (C07_reads_do_not_branch_rtree0), so erasing a read is sound whatever value it returned.
   PROVED for rtree0 p, wnr [] p (every pointwise P, flush order, priorities, KEEP_DEPENDENCIES, fuel; no_unwind):
   C07_actual_reads_see_enclosing_overrides_rtree0: whenever code of t runs - in particular when t is AT a read,
     MRun t (ReadVar x k) - every scoped variable is apply_l init (layers s): the layers of the uncomputed active
     tasks below t on the stack, then t's own open contexts (same characterisation as C07_reads_see_enclosing_overrides).
   C07_actual_read_value_rtree0: at MRun t (ReadVar x k) the next step appends EXACTLY the event
     EvRead t x (apply_l init (layers s) x) to the trace and continues with k of that value - the value get() returns.
   C07_actual_reads_innermost_rtree0: that value is the one of the last override layer for x (innermost enclosing
     override in t, else in the nearest active task below t), or the initial value when there is none.
   C07_values_restored_rtree0: at every flush point and when the outermost call has returned every scoped variable is
     back to its initial value.
   C07_contexts_nest_lifo_rtree0 (T3), C07_saved_values_rtree0, C07_layer_owners_await_rtree0: the LIFO step theorem
     (a read step leaves [layers] unchanged), the save-and-restore invariant and "layer owners await the running task"
     for rtree0, by the same transport (layers, ci_old and dependency lists are untouched by the erasure).
   C07_async_eq_seq_rtree0: value() = Seq.eval (erase p) (the C01 equation; reads do not influence the result in this class).
   C07_rtree0_hypotheses_are_met: a parent with two nested overrides reads 0 / 20, its child reads the parent's 20,
     its own 30, blocks on a batch item, reads 30 again after the flush, 20 after its block; the parent reads 20, 10, 0.
   NOT PROVED: programs that BRANCH on the values read (an rtree class with a sequential evaluator with dynamic
     scoping, evalV / resolve, is not started); reads combined with synchronous calls are only partly done:
     for MachineC07R.rstree0 (stree + non-branching reads) the erased program is an stree program (stree_erase), the class
     invariant with FValue frames (sh_run) and the stuttering simulation (run_est_s, sim_run_s) are proved, and
     C07_async_eq_seq_rstree0 (value() = MachineC01S.evals (erase p)) is exported; the transport of the four stree
     theorems (reads_see_enclosing_overrides / reads_innermost / values_restored / layers_are_the_active_contexts
     _stree -> _rstree0; needs wns of the erased program from a wnrs predicate and fvals (map eframe fr) = fvals fr) and a
     non-vacuity example with a callee reading its caller's override are NOT done.  These remain covered by the correspondence harness + monitors.

   ---------------------------------------------------------------------------------------------------------
   DAGs (end of this file; proofs/MachineC07D.v): no general theorem - shared futures stay outside the proved classes.
   Two computed facts (vm_compute) about the minimal DAG-shaped program in which the shape matters, a SHARED pending task
   (stored handle awaited by two overriding tasks) that holds an override across a suspension, started under one awaiter
   and completed under the other:
   C07_shared_task_reads (the run: every read is the innermost enclosing override of the reading task; in particular the
     awaiter under which the shared task was completed reads its OWN override after the shared task left its block) and
   C07_shared_task_saves_at_every_resume (the saved-value slot of the shared task's override holds the first awaiter's
     value while it is suspended and the second awaiter's value after its last resume; variables back to the initial
     value at the flush point and at the end).  The same program is the corpus case _SHARED_HOLDS_OVERRIDE of
     harness/props/c07.py, executed on the implementation and compared with the model on every run; generated DAG-shaped
     programs (machgen.Gen.diamond) are covered by correspondence + monitors only.
   WITHOUT THE HYPOTHESIS no_unwind FOR stree PROGRAMS (end of the file; proofs/MachineGuardFormsS.v): the stree
   theorems whose hypothesis is no_unwind P n (start h s1) are restated with "the MAX_TASK_STACK_SIZE guard has not
   fired before step n" in its place (MachineNoUnwind.stree_no_unwind_iff_guard_silent):
   C07_contexts_nest_lifo_stree_guard, C07_reads_see_enclosing_overrides_stree_guard,
   C07_reads_innermost_stree_guard, C07_values_restored_stree_guard, C07_values_at_flush_stree_guard,
   C07_layers_are_the_active_contexts_stree_guard, C07_layer_owners_await_stree_guard,
   C07_saved_values_stree_guard. *)
From Asynq Require Import Machine Seq proofs.MachineC08 proofs.MachineC01 proofs.MachineC04 proofs.MachineC07.
From Asynq Require Import proofs.MachineC07R.
From Asynq Require Import proofs.MachineC01S proofs.MachineDFSS proofs.MachineC06S proofs.MachineC07S proofs.MachineC07D.

(* T1 *)
Theorem C07_values_restored : forall P, pointwise P -> forall p, tree p -> wn [] p -> forall n,
  let h := fst (create [] (FTask p) (st0 P)) in
  let s1 := snd (create [] (FTask p) (st0 P)) in
  no_unwind P n (start h s1) ->
  (c_mode (run P n (start h s1)) = MAfterExec \/ exists o, c_mode (run P n (start h s1)) = MDone o) ->
  forall x, var_get x (c_st (run P n (start h s1))) = var_get x s1.
Proof. exact values_restored_tree. Qed.
Print Assumptions C07_values_restored.

(* T2 *)
Theorem C07_reads_see_enclosing_overrides : forall P, pointwise P -> forall p, tree p -> wn [] p -> forall n t q,
  let h := fst (create [] (FTask p) (st0 P)) in
  let s1 := snd (create [] (FTask p) (st0 P)) in
  no_unwind P n (start h s1) -> c_mode (run P n (start h s1)) = MRun t q ->
  let s := c_st (run P n (start h s1)) in
  (forall x, var_get x s = apply_l (fun x => var_get x s1) (layers s) x) /\
  exists tk rest, get t s = Some (mkFut None (KTask tk)) /\ tk_cact tk = true /\ wn (tk_ctxs tk) q /\
    tasks s = t :: rest /\ layers s = lower s rest ++ map (pair t) (tk_ctxs tk) /\
    forall u c, In (u, c) (lower s rest) ->
      In u rest /\ exists tku, get u s = Some (mkFut None (KTask tku)) /\ tk_cact tku = true /\ In c (tk_ctxs tku).
Proof. exact reads_see_enclosing_overrides_tree. Qed.
Print Assumptions C07_reads_see_enclosing_overrides.

Theorem C07_reads_innermost : forall P, pointwise P -> forall p, tree p -> wn [] p -> forall n t q x,
  let h := fst (create [] (FTask p) (st0 P)) in
  let s1 := snd (create [] (FTask p) (st0 P)) in
  no_unwind P n (start h s1) -> c_mode (run P n (start h s1)) = MRun t q ->
  let s := c_st (run P n (start h s1)) in
  (forall pre u cid v post, layers s = pre ++ (u, COverride cid x v) :: post ->
     (forall l, In l post -> ovar (snd l) <> Some x) -> var_get x s = v) /\
  ((forall l, In l (layers s) -> ovar (snd l) <> Some x) -> var_get x s = var_get x s1).
Proof. exact reads_innermost_tree. Qed.
Print Assumptions C07_reads_innermost.

Theorem C07_layer_owners_await : forall P, pointwise P -> forall p, tree p -> forall n t q,
  let h := fst (create [] (FTask p) (st0 P)) in
  let s1 := snd (create [] (FTask p) (st0 P)) in
  no_unwind P n (start h s1) -> c_mode (run P n (start h s1)) = MRun t q ->
  let s := c_st (run P n (start h s1)) in
  forall rest, tasks s = t :: rest -> forall u c, In (u, c) (lower s rest) -> reach s u t.
Proof. exact layer_owners_await_tree. Qed.
Print Assumptions C07_layer_owners_await.

(* T3 *)
Theorem C07_contexts_nest_lifo : forall P, pointwise P -> forall p, tree p -> wn [] p -> forall n,
  let h := fst (create [] (FTask p) (st0 P)) in
  let s1 := snd (create [] (FTask p) (st0 P)) in
  no_unwind P n (start h s1) ->
  exists l, layers (c_st (run P (S n) (start h s1))) = layers (c_st (run P n (start h s1))) ++ l \/
            layers (c_st (run P n (start h s1))) = layers (c_st (run P (S n) (start h s1))) ++ l.
Proof. exact contexts_nest_lifo_tree. Qed.
Print Assumptions C07_contexts_nest_lifo.

(* the save-and-restore invariant *)
Theorem C07_saved_values : forall P, pointwise P -> forall p, tree p -> wn [] p -> forall n,
  let h := fst (create [] (FTask p) (st0 P)) in
  let s1 := snd (create [] (FTask p) (st0 P)) in
  no_unwind P n (start h s1) ->
  match c_mode (run P n (start h s1)) with
  | MUnwind _ | MStuck | MDone _ => True
  | _ =>
    let s := c_st (run P n (start h s1)) in
    let init := fun x => var_get x s1 in
    (forall x, var_get x s = apply_l init (layers s) x) /\
    (forall pre t cid var v post, layers s = pre ++ (t, COverride cid var v) :: post ->
       ci_old (ci_get (t, cid) s) = apply_l init pre var) /\
    NoDup (map lkey (layers s))
  end.
Proof. exact saved_values_tree. Qed.
Print Assumptions C07_saved_values.

(* non-vacuity: a parent with two nested overrides of variable 0 awaits a child, which overrides it again
   and blocks on a batch item, and a sibling, which opens an AsyncContext and another override.
   Step 12: the child's body runs and reads 30 (its own override over the parent's 20 over 10);
   step 21: the sibling runs while the child is blocked - the child's layer is gone, the sibling reads its
   own 40 over the parent's layers; step 28 is the flush point with the parent and the child suspended
   inside their with-blocks: the variable is back to its initial value; step 47: done. *)
(* the demo program c07_demo and this fact are in proofs/MachineC07.v *)
Example C07_hypotheses_are_met :
  let P := mkP [] 1000 false [] in
  let h := fst (create [] (FTask c07_demo) (st0 P)) in
  let s1 := snd (create [] (FTask c07_demo) (st0 P)) in
  let st_at k := c_st (run P k (start h s1)) in
  let keys k := map lkey (layers (st_at k)) in
  tree c07_demo /\ wn [] c07_demo /\ no_unwind_b P 100 (start h s1) = true /\
  c_mode (run P 100 (start h s1)) = MDone (Ok (VTuple [VInt 5; VInt 1])) /\
  (* the child runs *)
  (exists q, c_mode (run P 12 (start h s1)) = MRun [1] q) /\
  keys 12%nat = [([0], 1); ([0], 2); ([1], 1)] /\ var_get 0 (st_at 12%nat) = VInt 30 /\
  (* the sibling runs while the child is blocked on its batch item *)
  (exists q, c_mode (run P 21 (start h s1)) = MRun [2] q) /\
  keys 21%nat = [([0], 1); ([0], 2); ([2], 7); ([2], 3)] /\ var_get 0 (st_at 21%nat) = VInt 40 /\
  computed [1] (st_at 21%nat) = false /\
  (* a flush point with open with-blocks in suspended tasks *)
  c_mode (run P 28 (start h s1)) = MAfterExec /\ computed h (st_at 28%nat) = false /\
  var_get 0 (st_at 28%nat) = var_get 0 s1 /\
  var_get 0 (st_at 100%nat) = var_get 0 s1.
Proof. exact c07_demo_runs. Qed.

(* ================================================================== tree programs WITH SYNCHRONOUS CALLS (stree, wns) *)
(* T3 *)
Theorem C07_contexts_nest_lifo_stree : forall P, pointwise P -> forall p, stree p -> wns [] p -> forall n,
  let h := fst (create [] (FTask p) (st0 P)) in
  let s1 := snd (create [] (FTask p) (st0 P)) in
  no_unwind P n (start h s1) ->
  exists l, layers (c_st (run P (S n) (start h s1))) = layers (c_st (run P n (start h s1))) ++ l \/
            layers (c_st (run P n (start h s1))) = layers (c_st (run P (S n) (start h s1))) ++ l.
Proof. exact contexts_nest_lifo_stree. Qed.
Print Assumptions C07_contexts_nest_lifo_stree.

(* T2 *)
Theorem C07_reads_see_enclosing_overrides_stree : forall P, pointwise P -> forall p, stree p -> wns [] p -> forall n t q,
  let h := fst (create [] (FTask p) (st0 P)) in
  let s1 := snd (create [] (FTask p) (st0 P)) in
  no_unwind P n (start h s1) -> c_mode (run P n (start h s1)) = MRun t q ->
  let c := run P n (start h s1) in
  let s := c_st c in
  (forall x, var_get x s = apply_l (fun x => var_get x s1) (layers s) x) /\
  exists tk rest, get t s = Some (mkFut None (KTask tk)) /\ tk_cact tk = true /\
    (wns (tk_ctxs tk) q \/ exists h' k, q = Sync h' k /\ forall o, wns (tk_ctxs tk) (k o)) /\
    tasks s = t :: rest /\ ~ In t rest /\ layers s = lower s rest ++ map (pair t) (tk_ctxs tk) /\
    (forall u cx, In (u, cx) (lower s rest) ->
       In u rest /\ exists tku, get u s = Some (mkFut None (KTask tku)) /\ tk_cact tku = true /\ In cx (tk_ctxs tku) /\
                                (In u (fvals (c_frames c)) \/ tk_ds tku = true)) /\
    (forall x, In x (fvals (c_frames c)) ->
       In x rest /\ exists tkx, get x s = Some (mkFut None (KTask tkx)) /\ tk_cact tkx = true /\
                                forall cx, In cx (tk_ctxs tkx) -> In (x, cx) (lower s rest)).
Proof. exact reads_see_enclosing_overrides_stree. Qed.
Print Assumptions C07_reads_see_enclosing_overrides_stree.

Theorem C07_reads_innermost_stree : forall P, pointwise P -> forall p, stree p -> wns [] p -> forall n t q x,
  let h := fst (create [] (FTask p) (st0 P)) in
  let s1 := snd (create [] (FTask p) (st0 P)) in
  no_unwind P n (start h s1) -> c_mode (run P n (start h s1)) = MRun t q ->
  let s := c_st (run P n (start h s1)) in
  (forall pre u cid v post, layers s = pre ++ (u, COverride cid x v) :: post ->
     (forall l, In l post -> ovar (snd l) <> Some x) -> var_get x s = v) /\
  ((forall l, In l (layers s) -> ovar (snd l) <> Some x) -> var_get x s = var_get x s1).
Proof. exact reads_innermost_stree. Qed.
Print Assumptions C07_reads_innermost_stree.

(* T1: the end of the computation and the flush points of the outermost loop *)
Theorem C07_values_restored_stree : forall P, pointwise P -> forall p, stree p -> wns [] p -> forall n,
  let h := fst (create [] (FTask p) (st0 P)) in
  let s1 := snd (create [] (FTask p) (st0 P)) in
  no_unwind P n (start h s1) ->
  ((exists o, c_mode (run P n (start h s1)) = MDone o) \/
   (c_mode (run P n (start h s1)) = MAfterExec /\ fvals (c_frames (run P n (start h s1))) = [])) ->
  forall x, var_get x (c_st (run P n (start h s1))) = var_get x s1.
Proof. exact values_restored_stree. Qed.
Print Assumptions C07_values_restored_stree.

(* T1: every flush point, nested ones included *)
Theorem C07_values_at_flush_stree : forall P, pointwise P -> forall p, stree p -> wns [] p -> forall n,
  let h := fst (create [] (FTask p) (st0 P)) in
  let s1 := snd (create [] (FTask p) (st0 P)) in
  no_unwind P n (start h s1) -> c_mode (run P n (start h s1)) = MAfterExec ->
  let c := run P n (start h s1) in
  let s := c_st c in
  (forall x, var_get x s = apply_l (fun x => var_get x s1) (layers s) x) /\
  (forall u cx, In (u, cx) (layers s) <->
     exists tk, get u s = Some (mkFut None (KTask tk)) /\ tk_cact tk = true /\ In cx (tk_ctxs tk)) /\
  (forall u tk, get u s = Some (mkFut None (KTask tk)) -> tk_cact tk = true ->
     In u (tasks s) /\ (In u (fvals (c_frames c)) \/ tk_ds tk = true)) /\
  (forall u, In u (fvals (c_frames c)) -> exists tk, get u s = Some (mkFut None (KTask tk)) /\ tk_cact tk = true).
Proof. exact values_at_flush_stree. Qed.
Print Assumptions C07_values_at_flush_stree.

(* the naive T1 ("back to the initial values at EVERY flush point") is false for stree *)
Theorem C07_values_restored_at_every_flush_stree_is_false :
  ~ (forall P, pointwise P -> forall p, stree p -> wns [] p -> forall n,
     let h := fst (create [] (FTask p) (st0 P)) in
     let s1 := snd (create [] (FTask p) (st0 P)) in
     no_unwind P n (start h s1) -> c_mode (run P n (start h s1)) = MAfterExec ->
     forall x, var_get x (c_st (run P n (start h s1))) = var_get x s1).
Proof. exact values_restored_at_every_flush_stree_is_false. Qed.
Print Assumptions C07_values_restored_at_every_flush_stree_is_false.

Theorem C07_layers_are_the_active_contexts_stree : forall P, pointwise P -> forall p, stree p -> wns [] p -> forall n u c,
  let h := fst (create [] (FTask p) (st0 P)) in
  let s1 := snd (create [] (FTask p) (st0 P)) in
  no_unwind P n (start h s1) -> is_final (c_mode (run P n (start h s1))) = false ->
  let s := c_st (run P n (start h s1)) in
  In (u, c) (layers s) <->
  exists tk, get u s = Some (mkFut None (KTask tk)) /\ tk_cact tk = true /\ In c (tk_ctxs tk).
Proof. exact layers_are_the_active_contexts_stree. Qed.
Print Assumptions C07_layers_are_the_active_contexts_stree.

(* the owners of the lower layers await the running task: dependency links and synchronous-call links *)
Theorem C07_layer_owners_await_stree : forall P, pointwise P -> forall p, stree p -> forall n t q,
  let h := fst (create [] (FTask p) (st0 P)) in
  let s1 := snd (create [] (FTask p) (st0 P)) in
  no_unwind P n (start h s1) -> c_mode (run P n (start h s1)) = MRun t q ->
  let c := run P n (start h s1) in
  let s := c_st c in
  forall rest, tasks s = t :: rest -> forall u cx, In (u, cx) (lower s rest) -> awaits s (c_frames c) u t.
Proof. exact layer_owners_await_stree. Qed.
Print Assumptions C07_layer_owners_await_stree.

(* the save-and-restore invariant *)
Theorem C07_saved_values_stree : forall P, pointwise P -> forall p, stree p -> wns [] p -> forall n,
  let h := fst (create [] (FTask p) (st0 P)) in
  let s1 := snd (create [] (FTask p) (st0 P)) in
  no_unwind P n (start h s1) ->
  match c_mode (run P n (start h s1)) with
  | MUnwind _ | MStuck => True
  | _ =>
    let s := c_st (run P n (start h s1)) in
    let init := fun x => var_get x s1 in
    (forall x, var_get x s = apply_l init (layers s) x) /\
    (forall pre t cid var v post, layers s = pre ++ (t, COverride cid var v) :: post ->
       ci_old (ci_get (t, cid) s) = apply_l init pre var) /\
    NoDup (map lkey (layers s))
  end.
Proof. exact saved_values_stree. Qed.
Print Assumptions C07_saved_values_stree.

(* non-vacuity: root [0] (x := 10) awaits sibling [1] (x := 20, blocks on a batch) and caller [2] (ctx 9, x := 30), which
   calls mid [4] (x := 40, later 41) synchronously, which calls leaf [5] / [7] (x := 70) synchronously; the leaves block
   on batch items, so the loop nested two calls deep flushes (steps 40, 49, 66, 75) with x = 40 / 41, the loop nested
   one call deep flushes at step 82 with x = 30, the outermost loop at steps 91 and 107 with x = 0 (initial value).
   The demo program c07s_demo and this fact are in proofs/MachineC07S.v *)
Theorem C07_stree_hypotheses_are_met :
  let P := c06s_P in
  let h := fst (create [] (FTask c07s_demo) (st0 P)) in
  let s1 := snd (create [] (FTask c07s_demo) (st0 P)) in
  let c k := run P k (start h s1) in
  let keys k := map lkey (layers (c_st (c k))) in
  let x k := var_get 0 (c_st (c k)) in
  stree c07s_demo /\ wns [] c07s_demo /\ pointwise P /\ no_unwind_b P 200 (start h s1) = true /\
  c_mode (c 200%nat) = MDone (Ok (VTuple [VInt 10; VInt 30])) /\ x 0%nat = VInt 0 /\
  (exists q, c_mode (c 34%nat) = MRun [5] q) /\ fvals (c_frames (c 34%nat)) = [[4]; [2]] /\
  keys 34%nat = [([0], 0); ([2], 9); ([2], 5); ([4], 1); ([5], 7)] /\ x 34%nat = VInt 70 /\
  map (fun k => (k, fvals (c_frames (c k)), tasks (c_st (c k)), x k, keys k))
      (filter (fun k => match c_mode (c k) with MAfterExec => true | _ => false end) (seq 0 200)) =
    [(40%nat, [[4]; [2]], [[4]; [2]; [0]], VInt 40, [([0], 0); ([2], 9); ([2], 5); ([4], 1)]);
     (49%nat, [[4]; [2]], [[4]; [2]; [0]], VInt 40, [([0], 0); ([2], 9); ([2], 5); ([4], 1)]);
     (66%nat, [[4]; [2]], [[4]; [2]; [0]], VInt 41, [([0], 0); ([2], 9); ([2], 5); ([4], 1)]);
     (75%nat, [[4]; [2]], [[4]; [2]; [0]], VInt 41, [([0], 0); ([2], 9); ([2], 5); ([4], 1)]);
     (82%nat, [[2]], [[2]; [0]], VInt 30, [([0], 0); ([2], 9); ([2], 5)]);
     (91%nat, [], [], VInt 0, []); (107%nat, [], [], VInt 0, [])]%Z /\
  x 200%nat = VInt 0.
Proof. exact c07s_demo_runs. Qed.
Print Assumptions C07_stree_hypotheses_are_met.


(* ==== the same WITHOUT an assumption about exceptions unwinding (proofs/MachineNoUnwind.v, MachineGuardForms.v) ====
   [no_unwind] is replaced by "the MAX_TASK_STACK_SIZE guard has not fired before step n":
   forall k < n, guard_fires P (run P k c0) = false, where guard_fires is the boolean test at the head of the
   _execute loop in Machine.step.  For tree programs under a pointwise service the two say the same:
   FutureIsAlreadyComputed is proved unreachable, so the guard's RuntimeError is the only exception that can
   unwind through asynq's frames. *)
From Asynq Require Import proofs.MachineNoUnwind proofs.MachineGuardForms.
Theorem C07_values_restored_guard : forall P, pointwise P -> forall p, tree p -> wn [] p -> forall n,
  let h := fst (create [] (FTask p) (st0 P)) in
  let s1 := snd (create [] (FTask p) (st0 P)) in
  (forall k, (k < n)%nat -> guard_fires P (run P k (start h s1)) = false) ->
  (c_mode (run P n (start h s1)) = MAfterExec \/ exists o, c_mode (run P n (start h s1)) = MDone o) ->
  forall x, var_get x (c_st (run P n (start h s1))) = var_get x s1.
Proof. exact values_restored_tree_guard. Qed.
Print Assumptions C07_values_restored_guard.

Theorem C07_reads_see_enclosing_overrides_guard : forall P, pointwise P -> forall p, tree p -> wn [] p -> forall n t q,
  let h := fst (create [] (FTask p) (st0 P)) in
  let s1 := snd (create [] (FTask p) (st0 P)) in
  (forall k, (k < n)%nat -> guard_fires P (run P k (start h s1)) = false) ->
  c_mode (run P n (start h s1)) = MRun t q ->
  let s := c_st (run P n (start h s1)) in
  (forall x, var_get x s = apply_l (fun x => var_get x s1) (layers s) x) /\
  exists tk rest, get t s = Some (mkFut None (KTask tk)) /\ tk_cact tk = true /\ wn (tk_ctxs tk) q /\
    tasks s = t :: rest /\ layers s = lower s rest ++ map (pair t) (tk_ctxs tk) /\
    forall u c, In (u, c) (lower s rest) ->
      In u rest /\ exists tku, get u s = Some (mkFut None (KTask tku)) /\ tk_cact tku = true /\ In c (tk_ctxs tku).
Proof. exact reads_see_enclosing_overrides_tree_guard. Qed.
Print Assumptions C07_reads_see_enclosing_overrides_guard.

Theorem C07_reads_innermost_guard : forall P, pointwise P -> forall p, tree p -> wn [] p -> forall n t q x,
  let h := fst (create [] (FTask p) (st0 P)) in
  let s1 := snd (create [] (FTask p) (st0 P)) in
  (forall k, (k < n)%nat -> guard_fires P (run P k (start h s1)) = false) ->
  c_mode (run P n (start h s1)) = MRun t q ->
  let s := c_st (run P n (start h s1)) in
  (forall pre u cid v post, layers s = pre ++ (u, COverride cid x v) :: post ->
     (forall l, In l post -> ovar (snd l) <> Some x) -> var_get x s = v) /\
  ((forall l, In l (layers s) -> ovar (snd l) <> Some x) -> var_get x s = var_get x s1).
Proof. exact reads_innermost_tree_guard. Qed.
Print Assumptions C07_reads_innermost_guard.

Theorem C07_layer_owners_await_guard : forall P, pointwise P -> forall p, tree p -> forall n t q,
  let h := fst (create [] (FTask p) (st0 P)) in
  let s1 := snd (create [] (FTask p) (st0 P)) in
  (forall k, (k < n)%nat -> guard_fires P (run P k (start h s1)) = false) ->
  c_mode (run P n (start h s1)) = MRun t q ->
  let s := c_st (run P n (start h s1)) in
  forall rest, tasks s = t :: rest -> forall u c, In (u, c) (lower s rest) -> reach s u t.
Proof. exact layer_owners_await_tree_guard. Qed.
Print Assumptions C07_layer_owners_await_guard.

(* the step n -> n+1 is covered: the guard must be silent strictly before n only *)
Theorem C07_contexts_nest_lifo_guard : forall P, pointwise P -> forall p, tree p -> wn [] p -> forall n,
  let h := fst (create [] (FTask p) (st0 P)) in
  let s1 := snd (create [] (FTask p) (st0 P)) in
  (forall k, (k < n)%nat -> guard_fires P (run P k (start h s1)) = false) ->
  exists l, layers (c_st (run P (S n) (start h s1))) = layers (c_st (run P n (start h s1))) ++ l \/
            layers (c_st (run P n (start h s1))) = layers (c_st (run P (S n) (start h s1))) ++ l.
Proof. exact contexts_nest_lifo_tree_guard. Qed.
Print Assumptions C07_contexts_nest_lifo_guard.


(* ================================================================== programs with actual, non-branching reads (rtree0, wnr) *)
Theorem C07_erased_program_is_covered_rtree0 : forall p, rtree0 p -> wnr [] p -> tree (erase p) /\ wn [] (erase p).
Proof. exact erase_covered. Qed.
Print Assumptions C07_erased_program_is_covered_rtree0.

Theorem C07_reads_do_not_branch_rtree0 : forall P p n t q, rtree0 p ->
  let h := fst (create [] (FTask p) (st0 P)) in
  let s1 := snd (create [] (FTask p) (st0 P)) in
  c_mode (run P n (start h s1)) = MRun t q ->
  rtree0 q /\ forall x k, q = ReadVar x k -> forall v, erase (k v) = erase q.
Proof. exact rtree0_run_class. Qed.
Print Assumptions C07_reads_do_not_branch_rtree0.

Theorem C07_actual_reads_see_enclosing_overrides_rtree0 : forall P, pointwise P -> forall p, rtree0 p -> wnr [] p -> forall n t q,
  let h := fst (create [] (FTask p) (st0 P)) in
  let s1 := snd (create [] (FTask p) (st0 P)) in
  no_unwind P n (start h s1) -> c_mode (run P n (start h s1)) = MRun t q ->
  let s := c_st (run P n (start h s1)) in
  (forall x, var_get x s = apply_l (fun x => var_get x s1) (layers s) x) /\
  exists tk rest, get t s = Some (mkFut None (KTask tk)) /\ tk_cact tk = true /\ wn (tk_ctxs tk) (erase q) /\
    tasks s = t :: rest /\ layers s = lower s rest ++ map (pair t) (tk_ctxs tk) /\
    forall u c, In (u, c) (lower s rest) ->
      In u rest /\ exists tku, get u s = Some (mkFut None (KTask tku)) /\ tk_cact tku = true /\ In c (tk_ctxs tku).
Proof. exact reads_see_enclosing_overrides_rtree0. Qed.
Print Assumptions C07_actual_reads_see_enclosing_overrides_rtree0.

Theorem C07_actual_read_value_rtree0 : forall P, pointwise P -> forall p, rtree0 p -> wnr [] p -> forall n t x k,
  let h := fst (create [] (FTask p) (st0 P)) in
  let s1 := snd (create [] (FTask p) (st0 P)) in
  no_unwind P n (start h s1) -> c_mode (run P n (start h s1)) = MRun t (ReadVar x k) ->
  let s := c_st (run P n (start h s1)) in
  let v := apply_l (fun x => var_get x s1) (layers s) x in
  c_mode (run P (S n) (start h s1)) = MRun t (k v) /\
  trace (c_st (run P (S n) (start h s1))) = EvRead t x v :: trace s.
Proof. exact actual_read_value_rtree0. Qed.
Print Assumptions C07_actual_read_value_rtree0.

Theorem C07_actual_reads_innermost_rtree0 : forall P, pointwise P -> forall p, rtree0 p -> wnr [] p -> forall n t q x,
  let h := fst (create [] (FTask p) (st0 P)) in
  let s1 := snd (create [] (FTask p) (st0 P)) in
  no_unwind P n (start h s1) -> c_mode (run P n (start h s1)) = MRun t q ->
  let s := c_st (run P n (start h s1)) in
  (forall pre u cid v post, layers s = pre ++ (u, COverride cid x v) :: post ->
     (forall l, In l post -> ovar (snd l) <> Some x) -> var_get x s = v) /\
  ((forall l, In l (layers s) -> ovar (snd l) <> Some x) -> var_get x s = var_get x s1).
Proof. exact reads_innermost_rtree0. Qed.
Print Assumptions C07_actual_reads_innermost_rtree0.

Theorem C07_values_restored_rtree0 : forall P, pointwise P -> forall p, rtree0 p -> wnr [] p -> forall n,
  let h := fst (create [] (FTask p) (st0 P)) in
  let s1 := snd (create [] (FTask p) (st0 P)) in
  no_unwind P n (start h s1) ->
  (c_mode (run P n (start h s1)) = MAfterExec \/ exists o, c_mode (run P n (start h s1)) = MDone o) ->
  forall x, var_get x (c_st (run P n (start h s1))) = var_get x s1.
Proof. exact values_restored_rtree0. Qed.
Print Assumptions C07_values_restored_rtree0.

Theorem C07_async_eq_seq_rtree0 : forall P, pointwise P -> forall p, rtree0 p -> forall n o,
  let h := fst (create [] (FTask p) (st0 P)) in
  let s1 := snd (create [] (FTask p) (st0 P)) in
  no_unwind P n (start h s1) -> c_mode (run P n (start h s1)) = MDone o -> o = eval (erase p).
Proof. exact async_eq_seq_rtree0. Qed.
Print Assumptions C07_async_eq_seq_rtree0.

(* non-vacuity; the demo program c07r_demo and this fact are in proofs/MachineC07R.v *)
Theorem C07_rtree0_hypotheses_are_met :
  let P := mkP [] 1000 false [] in
  let h := fst (create [] (FTask c07r_demo) (st0 P)) in
  let s1 := snd (create [] (FTask c07r_demo) (st0 P)) in
  rtree0 c07r_demo /\ wnr [] c07r_demo /\ pointwise P /\ no_unwind_b P 100 (start h s1) = true /\
  c_mode (run P 100 (start h s1)) = MDone (Ok (VInt 5)) /\ eval (erase c07r_demo) = Ok (VInt 5) /\
  filter c07r_obs (rev (trace (c_st (run P 100 (start h s1))))) =
    [EvRead [0] 0 (VInt 0); EvRead [0] 0 (VInt 20); EvRead [1] 0 (VInt 20); EvRead [1] 0 (VInt 30);
     EvFlush 0 0 [[2]]; EvRead [1] 0 (VInt 30); EvRead [1] 0 (VInt 20); EvRead [0] 0 (VInt 20);
     EvRead [0] 0 (VInt 10); EvRead [0] 0 (VInt 0)]%Z.
Proof. exact c07r_demo_runs. Qed.
Print Assumptions C07_rtree0_hypotheses_are_met.


(* ---- a shared pending task holding an override (DAG; computed facts about one program, see the header) ---- *)
Theorem C07_shared_task_reads :
  let r := run_case c07d_P 2000 [c07d_root; c07d_after] in
  fst r = [Some (Ok (VInt 0)); Some (Ok (VInt 0))] /\
  filter c07d_view (snd r) =
    [EvStep [0] 0 (Ok VNone); EvStep [2] 0 (Ok VNone); EvStep [3] 0 (Ok VNone); EvStep [1] 0 (Ok VNone);
     EvStep [2] 1 (Ok (VInt 2)); EvStep [1] 1 (Ok (VInt 1)); EvRead [1] 0 (VInt 140);
     EvStep [2] 2 (Ok (VInt 0)); EvRead [2] 0 (VInt 120);
     EvStep [3] 1 (Ok (VInt 0)); EvRead [3] 0 (VInt 130);
     EvStep [0] 1 (Ok (VTuple [VInt 0; VInt 0])); EvRead [0] 0 (VInt 110); EvRead [0] 0 (VInt 0);
     EvStep [6] 0 (Ok VNone); EvRead [6] 0 (VInt 0)]%Z.
Proof. exact c07d_diamond_runs. Qed.
Print Assumptions C07_shared_task_reads.

Theorem C07_shared_task_saves_at_every_resume :
  let h := fst (create [] (FTask c07d_root) (st0 c07d_P)) in
  let s1 := snd (create [] (FTask c07d_root) (st0 c07d_P)) in
  let c k := run c07d_P k (start h s1) in
  let after_exec := filter (fun k => match c_mode (c k) with MAfterExec => true | _ => false end) (seq 0 200) in
  map (fun k => (k, ci_old (ci_get ([1], 4%Z) (c_st (c k))), var_get 0 (c_st (c k)))) after_exec =
    [(34%nat, VInt 130, VInt 0); (72%nat, VInt 120, VInt 0)] /\
  c_mode (c 200%nat) = MDone (Ok (VInt 0)) /\
  var_get 0 (c_st (c 200%nat)) = VInt 0.
Proof. exact c07d_saved_value_follows_the_last_resume. Qed.
Print Assumptions C07_shared_task_saves_at_every_resume.


(* ==== the stree theorems WITHOUT an assumption about exceptions unwinding (proofs/MachineNoUnwind.v, MachineGuardFormsS.v) ====
   [no_unwind P n (start h s1)] is replaced by "the MAX_TASK_STACK_SIZE guard has not fired before step n"; also with
   synchronous calls FutureIsAlreadyComputed is proved unreachable (stree_no_unwind_iff_guard_silent), so the guard's
   RuntimeError is the only exception that can unwind through asynq's frames.  Binders and conclusions are those of
   the theorems of the same name without the suffix _guard. *)
From Asynq Require Import proofs.MachineNoUnwind proofs.MachineGuardFormsS.
Theorem C07_contexts_nest_lifo_stree_guard : forall P, pointwise P -> forall p, stree p -> wns [] p -> forall n,
  let h := fst (create [] (FTask p) (st0 P)) in
  let s1 := snd (create [] (FTask p) (st0 P)) in
  (forall k, (k < n)%nat -> guard_fires P (run P k (start h s1)) = false) ->
  exists l, layers (c_st (run P (S n) (start h s1))) = layers (c_st (run P n (start h s1))) ++ l \/
            layers (c_st (run P n (start h s1))) = layers (c_st (run P (S n) (start h s1))) ++ l.
Proof. exact contexts_nest_lifo_stree_guard. Qed.
Print Assumptions C07_contexts_nest_lifo_stree_guard.

Theorem C07_reads_see_enclosing_overrides_stree_guard : forall P, pointwise P -> forall p, stree p -> wns [] p -> forall n t q,
  let h := fst (create [] (FTask p) (st0 P)) in
  let s1 := snd (create [] (FTask p) (st0 P)) in
  (forall j, (j < n)%nat -> guard_fires P (run P j (start h s1)) = false) -> c_mode (run P n (start h s1)) = MRun t q ->
  let c := run P n (start h s1) in
  let s := c_st c in
  (forall x, var_get x s = apply_l (fun x => var_get x s1) (layers s) x) /\
  exists tk rest, get t s = Some (mkFut None (KTask tk)) /\ tk_cact tk = true /\
    (wns (tk_ctxs tk) q \/ exists h' k, q = Sync h' k /\ forall o, wns (tk_ctxs tk) (k o)) /\
    tasks s = t :: rest /\ ~ In t rest /\ layers s = lower s rest ++ map (pair t) (tk_ctxs tk) /\
    (forall u cx, In (u, cx) (lower s rest) ->
       In u rest /\ exists tku, get u s = Some (mkFut None (KTask tku)) /\ tk_cact tku = true /\ In cx (tk_ctxs tku) /\
                                (In u (fvals (c_frames c)) \/ tk_ds tku = true)) /\
    (forall x, In x (fvals (c_frames c)) ->
       In x rest /\ exists tkx, get x s = Some (mkFut None (KTask tkx)) /\ tk_cact tkx = true /\
                                forall cx, In cx (tk_ctxs tkx) -> In (x, cx) (lower s rest)).
Proof. exact reads_see_enclosing_overrides_stree_guard. Qed.
Print Assumptions C07_reads_see_enclosing_overrides_stree_guard.

Theorem C07_reads_innermost_stree_guard : forall P, pointwise P -> forall p, stree p -> wns [] p -> forall n t q x,
  let h := fst (create [] (FTask p) (st0 P)) in
  let s1 := snd (create [] (FTask p) (st0 P)) in
  (forall k, (k < n)%nat -> guard_fires P (run P k (start h s1)) = false) -> c_mode (run P n (start h s1)) = MRun t q ->
  let s := c_st (run P n (start h s1)) in
  (forall pre u cid v post, layers s = pre ++ (u, COverride cid x v) :: post ->
     (forall l, In l post -> ovar (snd l) <> Some x) -> var_get x s = v) /\
  ((forall l, In l (layers s) -> ovar (snd l) <> Some x) -> var_get x s = var_get x s1).
Proof. exact reads_innermost_stree_guard. Qed.
Print Assumptions C07_reads_innermost_stree_guard.

Theorem C07_values_restored_stree_guard : forall P, pointwise P -> forall p, stree p -> wns [] p -> forall n,
  let h := fst (create [] (FTask p) (st0 P)) in
  let s1 := snd (create [] (FTask p) (st0 P)) in
  (forall k, (k < n)%nat -> guard_fires P (run P k (start h s1)) = false) ->
  ((exists o, c_mode (run P n (start h s1)) = MDone o) \/
   (c_mode (run P n (start h s1)) = MAfterExec /\ fvals (c_frames (run P n (start h s1))) = [])) ->
  forall x, var_get x (c_st (run P n (start h s1))) = var_get x s1.
Proof. exact values_restored_stree_guard. Qed.
Print Assumptions C07_values_restored_stree_guard.

Theorem C07_values_at_flush_stree_guard : forall P, pointwise P -> forall p, stree p -> wns [] p -> forall n,
  let h := fst (create [] (FTask p) (st0 P)) in
  let s1 := snd (create [] (FTask p) (st0 P)) in
  (forall k, (k < n)%nat -> guard_fires P (run P k (start h s1)) = false) ->
  c_mode (run P n (start h s1)) = MAfterExec ->
  let c := run P n (start h s1) in
  let s := c_st c in
  (forall x, var_get x s = apply_l (fun x => var_get x s1) (layers s) x) /\
  (forall u cx, In (u, cx) (layers s) <->
     exists tk, get u s = Some (mkFut None (KTask tk)) /\ tk_cact tk = true /\ In cx (tk_ctxs tk)) /\
  (forall u tk, get u s = Some (mkFut None (KTask tk)) -> tk_cact tk = true ->
     In u (tasks s) /\ (In u (fvals (c_frames c)) \/ tk_ds tk = true)) /\
  (forall u, In u (fvals (c_frames c)) -> exists tk, get u s = Some (mkFut None (KTask tk)) /\ tk_cact tk = true).
Proof. exact values_at_flush_stree_guard. Qed.
Print Assumptions C07_values_at_flush_stree_guard.

Theorem C07_layers_are_the_active_contexts_stree_guard : forall P, pointwise P -> forall p, stree p -> wns [] p -> forall n u c,
  let h := fst (create [] (FTask p) (st0 P)) in
  let s1 := snd (create [] (FTask p) (st0 P)) in
  (forall k, (k < n)%nat -> guard_fires P (run P k (start h s1)) = false) ->
  is_final (c_mode (run P n (start h s1))) = false ->
  let s := c_st (run P n (start h s1)) in
  In (u, c) (layers s) <->
  exists tk, get u s = Some (mkFut None (KTask tk)) /\ tk_cact tk = true /\ In c (tk_ctxs tk).
Proof. exact layers_are_the_active_contexts_stree_guard. Qed.
Print Assumptions C07_layers_are_the_active_contexts_stree_guard.

Theorem C07_layer_owners_await_stree_guard : forall P, pointwise P -> forall p, stree p -> forall n t q,
  let h := fst (create [] (FTask p) (st0 P)) in
  let s1 := snd (create [] (FTask p) (st0 P)) in
  (forall k, (k < n)%nat -> guard_fires P (run P k (start h s1)) = false) -> c_mode (run P n (start h s1)) = MRun t q ->
  let c := run P n (start h s1) in
  let s := c_st c in
  forall rest, tasks s = t :: rest -> forall u cx, In (u, cx) (lower s rest) -> awaits s (c_frames c) u t.
Proof. exact layer_owners_await_stree_guard. Qed.
Print Assumptions C07_layer_owners_await_stree_guard.

Theorem C07_saved_values_stree_guard : forall P, pointwise P -> forall p, stree p -> wns [] p -> forall n,
  let h := fst (create [] (FTask p) (st0 P)) in
  let s1 := snd (create [] (FTask p) (st0 P)) in
  (forall k, (k < n)%nat -> guard_fires P (run P k (start h s1)) = false) ->
  match c_mode (run P n (start h s1)) with
  | MUnwind _ | MStuck => True
  | _ =>
    let s := c_st (run P n (start h s1)) in
    let init := fun x => var_get x s1 in
    (forall x, var_get x s = apply_l init (layers s) x) /\
    (forall pre t cid var v post, layers s = pre ++ (t, COverride cid var v) :: post ->
       ci_old (ci_get (t, cid) s) = apply_l init pre var) /\
    NoDup (map lkey (layers s))
  end.
Proof. exact saved_values_stree_guard. Qed.
Print Assumptions C07_saved_values_stree_guard.


(* T3 for rtree0 *)
Theorem C07_contexts_nest_lifo_rtree0 : forall P, pointwise P -> forall p, rtree0 p -> wnr [] p -> forall n,
  let h := fst (create [] (FTask p) (st0 P)) in
  let s1 := snd (create [] (FTask p) (st0 P)) in
  no_unwind P n (start h s1) ->
  exists l, layers (c_st (run P (S n) (start h s1))) = layers (c_st (run P n (start h s1))) ++ l \/
            layers (c_st (run P n (start h s1))) = layers (c_st (run P (S n) (start h s1))) ++ l.
Proof. exact contexts_nest_lifo_rtree0. Qed.
Print Assumptions C07_contexts_nest_lifo_rtree0.

Theorem C07_saved_values_rtree0 : forall P, pointwise P -> forall p, rtree0 p -> wnr [] p -> forall n,
  let h := fst (create [] (FTask p) (st0 P)) in
  let s1 := snd (create [] (FTask p) (st0 P)) in
  no_unwind P n (start h s1) ->
  match c_mode (run P n (start h s1)) with
  | MUnwind _ | MStuck | MDone _ => True
  | _ =>
    let s := c_st (run P n (start h s1)) in
    let init := fun x => var_get x s1 in
    (forall x, var_get x s = apply_l init (layers s) x) /\
    (forall pre t cid var v post, layers s = pre ++ (t, COverride cid var v) :: post ->
       ci_old (ci_get (t, cid) s) = apply_l init pre var) /\
    NoDup (map lkey (layers s))
  end.
Proof. exact saved_values_rtree0. Qed.
Print Assumptions C07_saved_values_rtree0.

Theorem C07_layer_owners_await_rtree0 : forall P p n t q, pointwise P -> rtree0 p ->
  let h := fst (create [] (FTask p) (st0 P)) in
  let s1 := snd (create [] (FTask p) (st0 P)) in
  no_unwind P n (start h s1) -> c_mode (run P n (start h s1)) = MRun t q ->
  let s := c_st (run P n (start h s1)) in
  forall rest, tasks s = t :: rest -> forall u c, In (u, c) (lower s rest) -> reach s u t.
Proof. exact layer_owners_await_rtree0. Qed.
Print Assumptions C07_layer_owners_await_rtree0.

(* synchronous calls + non-branching reads: the C01S value equation (the C07 stree theorems are not yet transported) *)
Theorem C07_async_eq_seq_rstree0 : forall P p n o, pointwise P -> rstree0 p ->
  let h := fst (create [] (FTask p) (st0 P)) in
  let s1 := snd (create [] (FTask p) (st0 P)) in
  no_unwind P n (start h s1) -> c_mode (run P n (start h s1)) = MDone o -> o = evals (erase p).
Proof. exact async_eq_seq_rstree0. Qed.
Print Assumptions C07_async_eq_seq_rstree0.
