From Asynq Require Import Machine.
Theorem C07_placeholder : True. Proof. exact I. Qed.
Print Assumptions C07_placeholder.
