(* C19 — asynq.mock.patch replaces every calling convention and always restores.
   Only statements; every proof is `exact <lemma>`. *)
From Asynq Require Import Base Mock proofs.MockProofs.

(* While a patch is active: for every target kind x replacement kind of the statement (compat),
   every way the attribute is fetched and every calling convention, the call reaches the
   replacement's body with the given arguments (preceded by what the descriptor protocol binds,
   which does not depend on the convention).  The argument type is arbitrary. *)
Theorem C19_conventions_reach_replacement :
  forall (A : Type) (self_ cls_ : A) tk r own_present c (args : list A),
    compat tk r = true -> inst_callable (installed r) = true ->
    dispatch A self_ cls_ (installed r) (access_of tk own_present) c args
    = Reached (bound_prefix A self_ cls_ tk r own_present ++ args).
Proof. exact conventions_reach_replacement. Qed.
Print Assumptions C19_conventions_reach_replacement.

Theorem C19_conventions_agree :
  forall (A : Type) (self_ cls_ : A) tk r own_present c1 c2 (args : list A),
    compat tk r = true -> inst_callable (installed r) = true ->
    dispatch A self_ cls_ (installed r) (access_of tk own_present) c1 args
    = dispatch A self_ cls_ (installed r) (access_of tk own_present) c2 args.
Proof. exact conventions_agree. Qed.
Print Assumptions C19_conventions_agree.

Theorem C19_bound_prefix_shape :
  forall (A : Type) (self_ cls_ : A) tk r own_present,
    bound_prefix A self_ cls_ tk r own_present = [] \/
    bound_prefix A self_ cls_ tk r own_present = [self_] \/
    bound_prefix A self_ cls_ tk r own_present = [cls_].
Proof. exact bound_prefix_shape. Qed.
Print Assumptions C19_bound_prefix_shape.

(* _maybe_wrap_new: the whole decision table; a non-callable is installed as is and never called *)
Theorem C19_maybe_wrap_new_spec : forall d,
  maybe_wrap_new d =
    if is_default d then WDefault
    else if is_fn_cm_sm d then WPair
    else if is_callable d && negb (takes_attrs d) then WWrapper else WAsIs.
Proof. exact maybe_wrap_new_spec. Qed.
Print Assumptions C19_maybe_wrap_new_spec.

Theorem C19_noncallable_as_is : forall d,
  is_default d = false -> is_fn_cm_sm d = false -> is_callable d = false -> maybe_wrap_new d = WAsIs.
Proof. exact noncallable_as_is. Qed.
Print Assumptions C19_noncallable_as_is.

Theorem C19_installed_table : forall r,
  installed r = match r with
                | RDefault | RNcMock => IMock
                | RFunc => IPair FPlain | RClassmethod => IPair FCM | RStaticmethod => IPair FSM
                | RAsynqFn => IAsynq
                | RBound | RSlotsObj => IWrapper
                | RCallableObj | RNcObj | RMockObj | RClassObj => IObj
                | RNonCallable | RNcNonCallable => IPlain
                | RNcSlots => ISlots RefAttr
                | RNcFrozen | RNcType => ISlots RefType
                | RNcRaiser => ISlots RefOther
                end.
Proof. exact installed_table. Qed.
Print Assumptions C19_installed_table.

(* When the patches end: after ANY well-bracketed op list (with-blocks, decorators, start/stop,
   stopall, exits by exception, nested and sequential patches of the same or of different targets,
   failed activations included), over any world of targets and patchers, every slot holds what
   it held at the beginning and no patcher is left started or holding a saved original. *)
Theorem C19_restored : forall w ops st,
  clean st -> wb [] ops = true ->
  (forall t, own (exec w st ops) t = own st t) /\ clean (exec w st ops).
Proof. exact restored. Qed.
Print Assumptions C19_restored.

(* the same for every program built from nested/sequential blocks (induction over the bracket
   structure: its op list is well-bracketed) *)
Theorem C19_restored_prog : forall w pr st,
  clean st -> ok_prog [] pr = true ->
  (forall t, own (exec w st (flatten pr)) t = own st t) /\ clean (exec w st (flatten pr)).
Proof. exact restored_prog. Qed.
Print Assumptions C19_restored_prog.

(* a successful activation installs the replacement; a failed one leaves everything as it was *)
Theorem C19_enter_installs : forall w st p st' sp,
  enter w st p = (st', RDone) -> specs w p = Some sp ->
  own st' (ptarget sp) = Some (new_obj p sp (gen st p)) /\ gen st' p = gen st p + 1.
Proof. exact enter_installs. Qed.
Print Assumptions C19_enter_installs.

Theorem C19_enter_failure_restores : forall w st p st' e, enter w st p = (st', RFail e) -> st' = st.
Proof. exact enter_failure_restores. Qed.
Print Assumptions C19_enter_failure_restores.

(* which replacements make attaching .asynq/.asyncio fail, and with which exception; a replacement
   given as new= never does (it has been wrapped) *)
Theorem C19_attach_failure_spec : forall r,
  attach_failure (installed r) =
    match r with
    | RNcSlots => Some E_ATTRIBUTE
    | RNcFrozen | RNcType => Some E_TYPE
    | RNcRaiser => Some E_RUNTIME
    | _ => None
    end.
Proof. exact attach_failure_spec. Qed.
Print Assumptions C19_attach_failure_spec.

(* an attribute-refusing product of new_callable, WHATEVER exception class it refuses with: the
   activation leaves the state exactly as it was (nothing patched, nothing saved, nothing started)
   and re-raises that exception *)
Theorem C19_enter_refusal : forall w st p sp r,
  specs w p = Some sp -> installed (prk sp) = ISlots r -> current w st (ptarget sp) <> None ->
  enter w st p = (st, RFail (refusal_exn r)).
Proof. exact enter_refusal. Qed.
Print Assumptions C19_enter_refusal.

(* the same patcher activated again (any op list in between): a replacement that is made per
   activation (default mock, new_callable) is a different object each time, an explicit new= object
   is the same object; and every convention of a probe reaches the object that is in place now *)
Theorem C19_reactivation_fresh : forall w st p sp st1 ops st2,
  specs w p = Some sp -> per_activation (prk sp) = true ->
  enter w st p = (st1, RDone) -> enter w (exec w st1 ops) p = (st2, RDone) ->
  own st2 (ptarget sp) <> own st1 (ptarget sp).
Proof. exact reactivation_fresh. Qed.
Print Assumptions C19_reactivation_fresh.

Theorem C19_reactivation_same : forall w st p sp st1 ops st2,
  specs w p = Some sp -> per_activation (prk sp) = false ->
  enter w st p = (st1, RDone) -> enter w (exec w st1 ops) p = (st2, RDone) ->
  own st2 (ptarget sp) = own st1 (ptarget sp).
Proof. exact reactivation_same. Qed.
Print Assumptions C19_reactivation_same.

Theorem C19_probe_reaches_current : forall w st t args cur cs,
  probe w st t args = RProbe cur cs ->
  cur = current w st t /\
  forall c, In c cs -> c = CNotCallable \/ c = CDetached
                       \/ exists o recv b, cur = Some o /\ c = CReached (body_of w o) recv b.
Proof. exact probe_reaches_current. Qed.
Print Assumptions C19_probe_reaches_current.

(* once restored, all four conventions reach the original again *)
Theorem C19_original_reached :
  forall (A : Type) (self_ cls_ : A) tk own_present c (args : list A),
    tk <> TAttr ->
    dispatch A self_ cls_ (IOrig (orig_ftype tk)) (access_of tk own_present) c args
    = Reached (prefix A self_ cls_ (orig_ftype tk) (access_of tk own_present) ++ args).
Proof. exact original_reached. Qed.
Print Assumptions C19_original_reached.

(* ---- one replacement object shared by several patches (overlapping lifetimes) ---- *)

(* nothing ever takes .asynq/.async/.asyncio off an object again: over any world and ANY op list
   (ends of other patches, stopall, malformed orders included) an attached object stays attached *)
Theorem C19_attach_persists : forall w ops st o,
  attached st o = true -> attached (exec w st ops) o = true.
Proof. exact attach_persists. Qed.
Print Assumptions C19_attach_persists.

Theorem C19_enter_attaches : forall w st p st' sp,
  enter w st p = (st', RDone) -> specs w p = Some sp -> inst_callable (installed (prk sp)) = true ->
  attached st' (new_obj p sp (gen st p)) = true.
Proof. exact enter_attaches. Qed.
Print Assumptions C19_enter_attaches.

(* the same caller-supplied object given to two patchers: installed as is (callable object, Mock
   instance, class, @asynq function, non-callable) it is ONE object in both slots; wrapped by
   _maybe_wrap_new (function, bound method, attribute-refusing callable) every patcher has its own
   wrapper object, and the code that runs is the shared object's *)
Theorem C19_shared_same_object : forall p q sp sq g h,
  per_activation (prk sp) = false -> given_as_is (prk sp) = true ->
  prk sq = prk sp -> pshare sq = pshare sp ->
  new_obj p sp g = new_obj q sq h.
Proof. exact shared_same_object. Qed.
Print Assumptions C19_shared_same_object.

Theorem C19_shared_wrapped_distinct : forall p q sp sq g h,
  per_activation (prk sp) = false -> given_as_is (prk sp) = false -> prk sq = prk sp -> p <> q ->
  new_obj p sp g <> new_obj q sq h.
Proof. exact shared_wrapped_distinct. Qed.
Print Assumptions C19_shared_wrapped_distinct.

Theorem C19_shared_body : forall w p sp g,
  specs w p = Some sp -> per_activation (prk sp) = false ->
  (given_as_is (prk sp) = true -> exists so, specs w (pshare sp) = Some so /\ per_activation (prk so) = false
                                             /\ pshare so = pshare sp) ->
  body_of w (new_obj p sp g) = ONew (pshare sp) 0.
Proof. exact shared_body. Qed.
Print Assumptions C19_shared_body.

(* The surviving patch.  p is activated with a callable replacement; then ANY op list runs (other
   patches - sharing p's replacement object or not - are activated and ended, in any order);
   whenever the target then holds p's object, a probe yields four results, none of them is
   "attribute missing", each is the code of p's replacement with the behaviour of p's replacement
   (or, for a classmethod object fetched without binding, not callable by any convention);
   and for the (target kind, replacement kind) pairs of the statement all four are the same
   `CReached` with the same received arguments. *)
Theorem C19_survivor_reached : forall w st p sp st1 ops t args,
  enter w st p = (st1, RDone) -> specs w p = Some sp -> inst_callable (installed (prk sp)) = true ->
  obj_inst w (new_obj p sp (gen st p)) = Some (installed (prk sp), pbeh sp) ->
  current w (exec w st1 ops) t = Some (new_obj p sp (gen st p)) ->
  exists cs, probe w (exec w st1 ops) t args = RProbe (Some (new_obj p sp (gen st p))) cs /\
    length cs = 4%nat /\
    forall c, In c cs -> c = CNotCallable \/
      exists recv, c = CReached (body_of w (new_obj p sp (gen st p))) recv (pbeh sp).
Proof. exact survivor_reached. Qed.
Print Assumptions C19_survivor_reached.

Theorem C19_survivor_agree : forall w st p sp st1 ops t args tk,
  enter w st p = (st1, RDone) -> specs w p = Some sp -> inst_callable (installed (prk sp)) = true ->
  obj_inst w (new_obj p sp (gen st p)) = Some (installed (prk sp), pbeh sp) ->
  current w (exec w st1 ops) t = Some (new_obj p sp (gen st p)) ->
  tkinds w t = tk -> compat tk (prk sp) = true ->
  exists recv, probe w (exec w st1 ops) t args =
    RProbe (Some (new_obj p sp (gen st p)))
           (map (fun _ => CReached (body_of w (new_obj p sp (gen st p))) recv (pbeh sp)) all_convs).
Proof. exact survivor_agree. Qed.
Print Assumptions C19_survivor_agree.

(* The kind of VALUE the replacement returns (beh: a plain value, None, an exception instance handed
   back as data, a FUTURE OBJECT - computed ConstFuture / unstarted task / unflushed batch item - as
   the result, or a raise) is not looked at by any convention: a convention that reaches the
   replacement delivers exactly what its body produced (the ConstFuture that .asynq() makes around it
   is the only level `value` / a yield takes off), and which arguments the body receives does not
   depend on the kind of value either.  Together with C19_survivor_agree (stated for every `pbeh sp`):
   all four conventions deliver the very same object also when that object is itself a future. *)
Theorem C19_result_as_is : forall i att acc who b c args who' recv b',
  probe_conv i att acc who b c args = CReached who' recv b' -> who' = who /\ b' = b.
Proof. exact probe_conv_result_as_is. Qed.
Print Assumptions C19_result_as_is.

Theorem C19_result_kind_irrelevant : forall i att acc who b b2 c args recv,
  probe_conv i att acc who b c args = CReached who recv b ->
  probe_conv i att acc who b2 c args = CReached who recv b2.
Proof. exact probe_conv_result_kind_irrelevant. Qed.
Print Assumptions C19_result_kind_irrelevant.
