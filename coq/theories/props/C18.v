(* C18 — diagnostics are faithful and total: glued tracebacks, asynq stack, filter_traceback,
   str/repr/dump.  Only statements; every proof is `exact <lemma>`.
   The notions used in the statements (contains, complete_run, starts_run, rewrites, expected,
   task_frames, ancestors, linked, wf, line_ok) are defined in proofs/DiagProofs.v. *)
From Asynq Require Import Base Diag proofs.DiagProofs.
From Coq Require Import String List.
Import ListNotations.

(* (a) filter_traceback *)

(* the model's substring test is Python's "needle in hay" *)
Theorem C18_contains_is_substring : forall n h,
  containsb n h = true <-> exists a b, h = (a ++ n ++ b)%string.
Proof. exact containsb_spec. Qed.
Print Assumptions C18_contains_is_substring.

(* output = input with disjoint complete pattern runs replaced by their marker (leftmost, first
   pattern wins), every other line identical and in order, no kept line starts a complete run *)
Theorem C18_only_complete_runs : forall lines, rewrites REPLACEMENTS lines (filter_traceback lines).
Proof. exact only_complete_runs. Qed.
Print Assumptions C18_only_complete_runs.

(* ... and that description determines the output *)
Theorem C18_only_complete_runs_unique : forall lines out,
  rewrites REPLACEMENTS lines out -> out = filter_traceback lines.
Proof. exact only_complete_runs_unique. Qed.
Print Assumptions C18_only_complete_runs_unique.

(* (b) gluing *)

(* for every depth, every handler/call mode per level and every raise position: the caller sees its
   own frame followed by the frames the statement's reading [expected] prescribes *)
Theorem C18_frames_in_call_order : forall ms b,
  caller_user ms b = option_map (cons FCaller) (expected 0%Z ms b).
Proof. exact caller_sees_expected. Qed.
Print Assumptions C18_frames_in_call_order.

(* exactly one frame per task level, in call order, ending at the raising frame, when the levels
   have no handler or re-raise with a bare raise (awaited or called synchronously) *)
Theorem C18_one_frame_per_level : forall ms b, forallb plain ms = true ->
  caller_user ms b = Some (FCaller :: task_frames 0%Z (S (List.length ms)) ++ bottom_user b).
Proof. exact one_frame_per_level. Qed.
Print Assumptions C18_one_frame_per_level.

(* the code as found: an instance that went through qcore.prepare_for_reraise at another site keeps
   that site's traceback; the frame of the task that raised it is lost *)
Theorem C18_prepared_instance_as_found_loses_level : forall i k,
  let e := accept_error_as_found
             (pushes [FInt I_cog; FInt I_continue]
                     (push (FTask i) (pushes (rev (helper_frames k 1%Z)) prepared_exn))) in
  pr e = Prepared [PREP_SITE] true.
Proof. exact prepared_instance_as_found_loses_level. Qed.
Print Assumptions C18_prepared_instance_as_found_loses_level.

(* the same failed task observed several times (by the driver itself, by chains of reader tasks that
   await it or ask synchronously, with or without a handler at any level; the driver a plain caller
   or a task): every observer -- the first and every later one -- sees its own chain, one frame
   per reader level in call order from the catching level down, followed by the failed task's
   frames [expected], and no frame of any other observer.  For the repaired raise_if_error
   (work/fixes/C18-shared-error-traceback.diff). *)
Theorem C18_every_observer_sees_its_own_chain : forall ms b drv os,
  map (option_map user_frames) (observations ms b drv os) =
  match expected 0%Z ms b with
  | None => map (fun _ => None) os
  | Some fs => map Some (views 0%Z os fs)
  end.
Proof. exact every_observer_sees_its_own_chain. Qed.
Print Assumptions C18_every_observer_sees_its_own_chain.

(* the reading [observer_view] for observers without handlers: driver, one frame per reader level *)
Theorem C18_observer_one_frame_per_reader_level : forall k rs fs, no_handler rs = true ->
  observer_view k rs fs = FCaller :: reader_frames k 0%Z (List.length rs) ++ fs.
Proof. exact observer_view_plain. Qed.
Print Assumptions C18_observer_one_frame_per_reader_level.

(* the code as found: after a reader task that let the error propagate, a later observer gets that
   reader's frame *)
Theorem C18_shared_error_as_found_leaks_reader : forall ms b drv h fs, expected 0%Z ms b = Some fs ->
  map (option_map user_frames) (observations_with false ms b drv [[(h, false)]; []])
  = [Some (FCaller :: FReader 0 0 :: fs); Some (FCaller :: FReader 0 0 :: fs)].
Proof. exact shared_error_as_found_leaks_reader. Qed.
Print Assumptions C18_shared_error_as_found_leaks_reader.

(* ... and the code as found is right whenever no reader task fails with the error *)
Theorem C18_as_found_agrees_without_failing_reader : forall ms b drv os,
  forallb innermost_catches os = true ->
  observations_with false ms b drv os = observations_with true ms b drv os.
Proof. exact as_found_agrees_without_failing_reader. Qed.
Print Assumptions C18_as_found_agrees_without_failing_reader.

(* the failed future several observers share is not a task (ErrorFuture, batch item given set_error,
   future given set_error from outside) and holds the error a failed task ended with: its observers
   see what the observers of that task see, i.e. C18_every_observer_sees_its_own_chain applies *)
Theorem C18_shared_future_as_task : forall fk ms b drv os, fk <> KLazy ->
  shared_observations fk (EOfTask ms b) drv os = observations ms b drv os.
Proof. exact shared_future_as_task. Qed.
Print Assumptions C18_shared_future_as_task.

(* known findings (known/C18.json), model-side witnesses: the code as it is, not what the statement asks for *)
Theorem C18_fresh_shared_error_leaks_reader : forall h1 h2,
  map (option_map user_frames)
      (shared_observations KErrorFuture EFresh HSync [[(h1, false)]; [(h2, false)]; []])
  = [Some [FCaller; FReader 0 0]; Some [FCaller; FReader 1 0; FReader 0 0];
     Some [FCaller; FReader 1 0; FReader 0 0]]%Z.
Proof. exact fresh_shared_error_leaks_reader. Qed.
Print Assumptions C18_fresh_shared_error_leaks_reader.

Theorem C18_awaited_taskless_error_loses_frames : forall drv,
  map (option_map user_frames) (shared_observations KErrorFuture EPrepared drv [[(HAwait, false)]])
  = [Some [FCaller; FReader 0 0]] /\
  map (option_map user_frames) (shared_observations KLazy EFresh drv [[(HAwait, false)]])
  = [Some [FCaller; FReader 0 0]] /\
  map (option_map user_frames) (shared_observations KErrorFuture EPrepared drv [[(HSync, false)]])
  = [Some [FCaller; FReader 0 0; PREP_SITE]].
Proof. exact awaited_taskless_error_loses_frames. Qed.
Print Assumptions C18_awaited_taskless_error_loses_frames.

(* (c) asynq stack *)

(* for every chain of tasks, whatever frame state (live / kept after a failure / gone) and source
   kind (line retrievable or not) each task has: one entry per task of the creator chain, each
   naming its own task, outermost first, ending with the task itself *)
Theorem C18_creator_chain : forall t,
  traceback t = map entry_of (ancestors t) /\
  map entry_name (traceback t) = map tk_name (ancestors t) /\
  last (ancestors t) t = t /\
  (exists r rest, ancestors t = r :: rest /\ tk_creator r = None) /\
  linked (ancestors t) /\
  List.length (traceback t) = S (depth t).
Proof. exact creator_chain. Qed.
Print Assumptions C18_creator_chain.

(* the form of one entry: the "File .. in f" line iff the task has a frame whose source line can
   be found; otherwise -- in particular when _traceback_line raises -- the str(task) text of that
   same task; the failure never reaches past the task's own entry *)
Theorem C18_entry_of_each_task : forall t,
  entry_name (entry_of t) = tk_name t /\
  (entry_of t = EFrame (tk_name t) <-> tk_frame t <> FrGone /\ tk_src t = SrcFile) /\
  (entry_of t = EStr (tk_name t) <-> tk_frame t = FrGone \/ tk_src t = SrcNone) /\
  (traceback_line t = None <-> tk_frame t <> FrGone /\ tk_src t = SrcNone).
Proof. exact entry_of_spec. Qed.
Print Assumptions C18_entry_of_each_task.

(* every creation kind and every source kind at every level: format_asynq_stack() in the deepest
   task names exactly the tasks of the statement's reading [expected_names] *)
Theorem C18_stack_names : forall s0 cs,
  map entry_name (stack_in_deepest s0 cs) = expected_names 0%Z [TL 0%Z] cs.
Proof. exact stack_names. Qed.
Print Assumptions C18_stack_names.

Theorem C18_stack_depth_plus_one : forall s0 cs, forallb by_parent (map fst cs) = true ->
  map entry_name (stack_in_deepest s0 cs) = level_names 0%Z (S (List.length cs)).
Proof. exact stack_depth_plus_one. Qed.
Print Assumptions C18_stack_depth_plus_one.

Theorem C18_stack_entry_forms : forall s0 cs, forallb by_parent (map fst cs) = true ->
  stack_in_deepest s0 cs = level_entries 0%Z (s0 :: map snd cs).
Proof. exact stack_entry_forms. Qed.
Print Assumptions C18_stack_entry_forms.

(* the recursive code as found fails exactly when the chain is longer than the stack budget, and
   otherwise returns what the repaired loop returns *)
Theorem C18_recursive_traceback_budget : forall b t,
  traceback_rec_budget b t = if Nat.ltb (depth t) b then Some (traceback t) else None.
Proof. exact traceback_rec_budget_spec. Qed.
Print Assumptions C18_recursive_traceback_budget.

(* (d) str / repr / dump never raise, for every object kind in every state *)
Theorem C18_repr_total : forall o, wf o = true ->
  str_obj o <> None /\ repr_obj o <> None /\ Forall line_ok (dump_obj o 0%Z).
Proof. exact repr_total. Qed.
Print Assumptions C18_repr_total.

(* the code as found: str/repr of an async generator object raise in every state *)
Theorem C18_asyncgen_repr_as_found_raises : forall st,
  str_obj_with "stopped" (OAGen st) = None /\ repr_obj_with "stopped" (OAGen st) = None.
Proof. exact asyncgen_repr_as_found_raises. Qed.
Print Assumptions C18_asyncgen_repr_as_found_raises.

(* (d') the payload dimension: whatever value a computed future / finished task / batch / Value /
   scoped value / override holds -- every tuple, string, dict, None, nested future -- str and repr
   return a text that shows that very payload (never an element of it, never an exception) *)
Theorem C18_repr_shows_payload : forall p,
  (forall c, is_future_cls c = true ->
     str_obj (OFut c (OkV p)) = Some (SFuture (FOk p)) /\ repr_obj (OFut c (OkV p)) = Some (SFuture (FOk p)) /\
     str_obj (OFut c (ErrV p)) = Some (SFuture (FErr p)) /\ repr_obj (OFut c (ErrV p)) = Some (SFuture (FErr p))) /\
  (forall it g ds,
     str_obj (OTask (OkV p) it g ds) = Some (STask (TOk p) (it - 1)) /\
     repr_obj (OTask (OkV p) it g ds) = Some (SFuture (FOk p)) /\
     str_obj (OTask (ErrV p) it g ds) = Some (STask (TErr p) (it - 1)) /\
     repr_obj (OTask (ErrV p) it g ds) = Some (SFuture (FErr p))) /\
  (forall c its, is_batch_cls c = true ->
     repr_obj (OBatch c (OkV p) its) = Some (SFuture (FOk p)) /\
     repr_obj (OBatch c (ErrV p) its) = Some (SFuture (FErr p))) /\
  str_obj (OValue p) = Some (SValue p) /\ repr_obj (OValue p) = Some (SValue p) /\
  str_obj (OScoped CScopedValue p) = Some (SScoped p) /\ repr_obj (OScoped CScopedValue p) = Some (SScoped p) /\
  repr_obj (OScoped CSVOverride p) = Some (SOverride p) /\
  repr_obj (OScoped CPropOverride p) = Some (SPropOverride p).
Proof. exact repr_shows_payload. Qed.
Print Assumptions C18_repr_shows_payload.

(* the first line dump() writes for an object is its str text, or that text cut by debug.str when
   it is longer than DEBUG_STR_REPR_MAX_LENGTH -- never the n/a text *)
Theorem C18_dump_line_shows_payload : forall o i, wf o = true ->
  exists s, str_obj o = Some s /\
    hd_error (dump_obj o i) =
      Some (match o with
            | OTask _ _ _ _ => if (MAX_DUMP_INDENT <? i)%Z then ((i + 1)%Z, DEllipsis)
                               else (i, if (DEBUG_STR_REPR_MAX_LENGTH <? summary_len s)%Z then DCut else DObj (Some s))
            | _ => (i, if (DEBUG_STR_REPR_MAX_LENGTH <? summary_len s)%Z then DCut else DObj (Some s))
            end).
Proof. exact dump_line_shows_payload. Qed.
Print Assumptions C18_dump_line_shows_payload.

(* "...%r" % payload with the payload as the bare right operand shows the payload iff it is not
   a tuple; a tuple is taken as the argument list: TypeError unless it has exactly one element,
   and then the element is printed in place of the tuple; wrapping it in a 1-tuple is always right *)
Theorem C18_pct_bare_operand : forall p,
  ((forall l, p <> PTuple l) -> pct1 p = Some p) /\
  (forall l, p = PTuple l -> pct1 p = match l with [x] => Some x | _ => None end) /\
  pct1 (PTuple [p]) = Some p.
Proof. exact pct_bare_operand. Qed.
Print Assumptions C18_pct_bare_operand.

(* the code as found: repr/str of a generator.Value holding a tuple (defect witness) *)
Theorem C18_value_repr_as_found : forall l,
  str_obj_gen AGEN_REPR_ATTR VALUE_OPERAND_AS_FOUND (OValue (PTuple l)) =
    match l with [x] => Some (SValue x) | _ => None end /\
  repr_obj_gen AGEN_REPR_ATTR VALUE_OPERAND_AS_FOUND (OValue (PTuple l)) =
    match l with [x] => Some (SValue x) | _ => None end.
Proof. exact value_repr_as_found. Qed.
Print Assumptions C18_value_repr_as_found.

Theorem C18_value_repr_as_found_agrees_on_non_tuples : forall p, (forall l, p <> PTuple l) ->
  str_obj_gen AGEN_REPR_ATTR VALUE_OPERAND_AS_FOUND (OValue p) = str_obj (OValue p).
Proof. exact value_repr_as_found_agrees_on_non_tuples. Qed.
Print Assumptions C18_value_repr_as_found_agrees_on_non_tuples.
