From Asynq Require Import Machine.
Theorem C20_placeholder : True. Proof. exact I. Qed.
Print Assumptions C20_placeholder.
