(* C20 — debug / dump / profiling options never change behaviour.
   In the model the only options that touch control or data are KEEP_DEPENDENCIES (p_keep) and, for
   the runaway guard, MAX_TASK_STACK_SIZE; every DUMP_* flag and COLLECT_PERF_STATS are diagnostic
   output only - that they are inert in the real code is what the option-variant runs of the check
   establish.  Proved here (corollary of C01): for tree programs the outcome of value() is the same
   under ANY two parameter sets - KEEP_DEPENDENCIES on or off, any flush oracle, any priorities -
   namely the sequential value.  The trace-level statement (same flushes, same context events) is
   not proved; it rests on the correspondence. *)
From Asynq Require Import Machine Seq proofs.MachineC08 proofs.MachineC01 proofs.MachineC20.

Theorem C20_outcome_independent_of_options_tree : forall P P' p n n' o o',
  pointwise P -> pointwise P' -> tree p ->
  let h := fst (create [] (FTask p) (st0 P)) in
  let s1 := snd (create [] (FTask p) (st0 P)) in
  let h' := fst (create [] (FTask p) (st0 P')) in
  let s1' := snd (create [] (FTask p) (st0 P')) in
  no_unwind P n (start h s1) -> c_mode (run P n (start h s1)) = MDone o ->
  no_unwind P' n' (start h' s1') -> c_mode (run P' n' (start h' s1')) = MDone o' ->
  o = o'.
Proof. exact outcome_independent_of_options_tree. Qed.
Print Assumptions C20_outcome_independent_of_options_tree.
