(* C20 - debug / dump / profiling options never change behaviour.
   WHAT EXISTS IN THE MODEL.  The only option of the property that the machine has is KEEP_DEPENDENCIES
   = p_keep (read once, in the MResume transition of Machine.step).  DUMP_* flags, COLLECT_PERF_STATS and
   the complex-assertion switch do NOT exist in the model: their inertness is checked only by the
   correspondence harness (option-variant runs of the implementation against the default run and
   against the model).  Also not modelled: with KEEP_DEPENDENCIES off, BatchBase.flush clears
   batch.items after the flush (batching.py 90); the model always keeps b_items.

   PROVED (proofs/MachineKeep.v; every program, not only trees; every service behaviour, priorities,
   flush oracle, history of root computations and fuel):
   (a) C20_keep_dependencies_inert_when_guarded: for P, P' that differ only in p_keep
       (same_but_keep), Machine.run_case returns the SAME list of outcomes and the SAME trace (all
       events: steps, values, flushes with their items, item results, before/after flush, context
       pause/resume, scoped-value reads, active-task probes, scheduler state) provided neither run takes
       the transition "Yield of a structure without futures by a task whose stored dependencies are
       nonempty and all computed" (hist_guarded yield_ok, a decidable check along each run).
   (b) C20_keep_dependencies_inert_when_every_yield_has_a_future: the same conclusion from a one-sided
       hypothesis, checked on either one of the two runs only: every executed Yield contains at least
       one future or finds its task still blocked (hist_guarded yield_strict); the other run then
       satisfies it too.
   (c) C20_keep_dependencies_one_step: the step-level simulation behind (a): configurations with the
       same normal form (everything equal except tk_deps, whose uncomputed members agree in order)
       step to configurations with the same normal form.
   (d) the tree corollary of C01 kept from before (same final outcome under any two parameter sets).
   REFUTED for the faithful model (the full-strength statements are kept as Definitions):
   (e) C20_keep_dependencies_inert_statement (same outcomes and trace for EVERY program, history and
       fuel) is FALSE: with KEEP_DEPENDENCIES a task that yields a future-less structure (e.g. None)
       after it has awaited something does not continue on the spot - `len(self._dependencies) > 0`
       (async_task.py _continue) sends it back through the scheduler loop.  Normally the loop resumes it
       at once (3 extra transitions, no event), but after the MAX_TASK_STACK_SIZE guard has reset the
       scheduler the loop's stack is empty, wait_for re-pushes the root, finds it blocked and pauses and
       resumes its contexts: an extra EvPause/EvResume pair (cxk_trace_off / cxk_trace_on).
   (f) C20_keep_dependencies_preserves_success_statement ("no option makes a computation fail that
       succeeds without it") is FALSE in the same situation when the root's context raises from its
       first scheduler-driven resume(): Ok 5 without the option, Err 77 with it.
   (g) C20_keep_dependencies_costs_fuel: even with the default stack limit and identical traces the run
       with the option needs more transitions, so "for every fuel" fails for that reason alone.
   NOT PROVED: a static (syntactic) criterion on programs implying the hypothesis of (b) (it would
   need an invariant over all stored continuations); equality of traces up to the silent detour when
   the hypothesis of (a) fails but no unwinding occurs; anything about options other than
   KEEP_DEPENDENCIES (correspondence only). *)
From Asynq Require Import Machine Seq proofs.MachineC08 proofs.MachineC01 proofs.MachineC20 proofs.MachineSteps
  proofs.MachineKeep.

Theorem C20_outcome_independent_of_options_tree : forall P P' p n n' o o',
  pointwise P -> pointwise P' -> tree p ->
  let h := fst (create [] (FTask p) (st0 P)) in
  let s1 := snd (create [] (FTask p) (st0 P)) in
  let h' := fst (create [] (FTask p) (st0 P')) in
  let s1' := snd (create [] (FTask p) (st0 P')) in
  no_unwind P n (start h s1) -> c_mode (run P n (start h s1)) = MDone o ->
  no_unwind P' n' (start h' s1') -> c_mode (run P' n' (start h' s1')) = MDone o' ->
  o = o'.
Proof. exact outcome_independent_of_options_tree. Qed.
Print Assumptions C20_outcome_independent_of_options_tree.

(* ---- KEEP_DEPENDENCIES on the trace level, every program (proofs/MachineKeep.v) ----
   same_but_keep P P' : p_kinds, p_maxstack and p_oracle agree (p_keep is free).
   yield_ok c      : c is not "MRun t (Yield y _) with no future in y, tk_deps of t nonempty, t not blocked".
   yield_strict c  : c is not "MRun t (Yield y _) with no future in y and t not blocked".
   hist_guarded ok P fuel ps s : ok holds in every configuration from which a run of the history takes a step. *)
Definition C20_keep_dependencies_inert_statement : Prop :=
  forall P P' fuel ps, same_but_keep P P' -> run_case P fuel ps = run_case P' fuel ps.

Theorem C20_keep_dependencies_inert_statement_is_false : ~ C20_keep_dependencies_inert_statement.
Proof. exact keep_inert_statement_is_false. Qed.
Print Assumptions C20_keep_dependencies_inert_statement_is_false.

Definition C20_keep_dependencies_preserves_success_statement : Prop :=
  forall P P' fuel fuel' ps v e, same_but_keep P P' ->
    fst (run_case P fuel ps) = [Some (Ok v)] -> fst (run_case P' fuel' ps) <> [Some (Err e)].

Theorem C20_keep_dependencies_preserves_success_statement_is_false :
  ~ C20_keep_dependencies_preserves_success_statement.
Proof. exact keep_preserves_success_statement_is_false. Qed.
Print Assumptions C20_keep_dependencies_preserves_success_statement_is_false.

Theorem C20_keep_dependencies_costs_fuel :
  fst (run_case (cxf_P false) 16 [cxf_prog]) = [Some (Ok (VInt 5))] /\
  fst (run_case (cxf_P true) 16 [cxf_prog]) = [None] /\
  run_case (cxf_P true) 20 [cxf_prog] = run_case (cxf_P false) 16 [cxf_prog].
Proof. exact cxf_fuel. Qed.
Print Assumptions C20_keep_dependencies_costs_fuel.

Theorem C20_keep_dependencies_inert_when_guarded : forall P P' fuel ps,
  same_but_keep P P' ->
  hist_guarded yield_ok P fuel ps (st0 P) = true -> hist_guarded yield_ok P' fuel ps (st0 P') = true ->
  run_case P fuel ps = run_case P' fuel ps.
Proof. exact keep_inert_guarded. Qed.
Print Assumptions C20_keep_dependencies_inert_when_guarded.

Theorem C20_keep_dependencies_inert_when_every_yield_has_a_future : forall P P' fuel ps,
  same_but_keep P P' -> hist_guarded yield_strict P fuel ps (st0 P) = true ->
  run_case P fuel ps = run_case P' fuel ps.
Proof. exact keep_inert_strict. Qed.
Print Assumptions C20_keep_dependencies_inert_when_every_yield_has_a_future.

Theorem C20_keep_dependencies_one_step : forall P P' c c',
  same_but_keep P P' -> sim c c' -> dom_ok (c_st c) -> dom_ok (c_st c') -> rinv c ->
  yield_ok c = true -> yield_ok c' = true -> sim (step P c) (step P' c').
Proof. exact sim_step. Qed.
Print Assumptions C20_keep_dependencies_one_step.

(* the hypotheses are satisfiable and the conclusion is not vacuous: a history of two computations with
   two batch kinds, an async context, a nested task, an item error and a synchronous call *)
Theorem C20_guard_is_satisfiable :
  let P := mkP [] 1000 true [] in
  hist_guarded yield_strict P 300 [keep_demo; keep_demo] (st0 P) = true /\
  fst (run_case P 300 [keep_demo; keep_demo]) = [Some (Ok (VTuple [VInt 10; VInt 7])); Some (Ok (VTuple [VInt 10; VInt 7]))] /\
  length (snd (run_case P 300 [keep_demo; keep_demo])) = 62%nat.
Proof. exact keep_demo_guarded. Qed.
Print Assumptions C20_guard_is_satisfiable.
