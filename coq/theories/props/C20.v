(* C20 - debug / dump / profiling options never change behaviour.
   WHAT EXISTS IN THE MODEL.  The only option of the property that the machine has is KEEP_DEPENDENCIES
   = p_keep (read once, in the MResume transition of Machine.step).  DUMP_* flags, COLLECT_PERF_STATS and
   the complex-assertion switch do NOT exist in the model: their inertness is checked only by the
   correspondence harness (option-variant runs of the implementation against the default run and
   against the model).  Also not modelled: with KEEP_DEPENDENCIES off, BatchBase.flush clears
   batch.items after the flush (batching.py 90); the model always keeps b_items.

   HISTORY.  The first version of the inertness theorem was REFUTED on the model of the code as it
   was, by exactly the program cxk_root below (with KEEP_DEPENDENCIES a task that yields a future-less
   structure after it has awaited something was sent back through the scheduler loop by
   `len(self._dependencies) > 0`; after a MAX_TASK_STACK_SIZE reset that loop pauses/resumes the root's
   contexts: an extra EvPause/EvResume pair, and Err 77 instead of Ok 5 when that resume() raises; also
   three extra transitions per such yield).  The witness reproduced on the implementation (both
   builds) and was fixed in /repo commit 6f3969f (AsyncTask._continue returns to the scheduler loop only
   if the CURRENT yield added dependencies).  The model now follows the repaired code (Machine.step,
   Yield case, branches on the futures of this yield).  C20_first_witness_repaired: on the repaired
   model both settings give the same trace and outcome for that program, with NoFault and with
   ResumeRaises 1 77; C20_keep_dependencies_costs_no_fuel: the fuel difference is gone too.

   PROVED (proofs/MachineKeep.v; every program, not only trees; every service behaviour, priorities,
   flush oracle, history of root computations and fuel):
   (a) C20_keep_dependencies_inert_when_resumes_are_guarded: for P, P' that differ only in p_keep
       (same_but_keep), Machine.run_case returns the SAME list of outcomes and the SAME trace (all
       events: steps, values, flushes with their items, item results, before/after flush, context
       pause/resume, scoped-value reads, active-task probes, scheduler state) provided that in ONE of
       the two runs (either one; the other then satisfies it too) every resume finds no uncomputed
       future among the stored dependencies of its task (hist_guarded resume_ok, a decidable check
       along the run).  This is the C03 property "a task resumes only when all it awaits is done".
   (b) C20_keep_dependencies_preserves_success_when_resumes_are_guarded: under the same hypothesis no
       setting of the option turns a successful computation into a failing one (corollary of (a)).
   (c) C20_keep_dependencies_one_step: the step-level simulation behind (a): configurations with the
       same normal form (everything equal except tk_deps, whose uncomputed members agree in order)
       step to configurations with the same normal form, if the task being resumed (if any) has all
       stored dependencies computed.  No other side condition is left (the Yield guard of the first
       version is gone with the repair).
   (d) the tree corollary of C01 kept from before (same final outcome under any two parameter sets).
   STILL REFUTED for the faithful model (the full-strength statements are kept as Definitions):
   (e) C20_keep_dependencies_inert_statement and C20_keep_dependencies_preserves_success_statement
       (no hypothesis at all) are FALSE, but now only through the machine's re-entrancy artifact, the
       one recorded in props/C03.v: a task re-entered through a synchronous .value() of a task that
       awaits it (CPython raises "generator already executing" at that point, so the witness cannot
       be replayed on the implementation).  Witness cxr_root (MAX_TASK_STACK_SIZE = 3): the inner
       activation of the root yields a batch item, the stack guard unwinds into the outer activation,
       which is then resumed with an UNCOMPUTED stored dependency - dropped without the option, kept
       with it; a later nested loop finds the root blocked only with the option (traces differ;
       outcomes Ok 100 with the option, Err FutureIsAlreadyComputed without).  The witness violates
       the hypothesis of (a) in both runs and contains a re-entrant resume (cxr_not_guarded).
   (f) C20_keep_dependencies_inert_without_reentry (+ ..._preserves_success_without_reentry): the
       hypothesis of (a) holds on every history WITHOUT a re-entrant resume (hist_guarded no_reentry:
       no configuration "resume t" while a frame "body of t inside value()" is on the stack; decidable,
       checked on one run).  So KEEP_DEPENDENCIES is inert - same outcomes, same trace, for every
       program, history, oracle and fuel - on everything CPython can execute; the only runs of the
       machine excluded are those using the artifact of (e).
   NOT PROVED: a static criterion on programs excluding re-entrancy (tree programs do, by C01/C03, but
   that is not connected here); anything about options other than KEEP_DEPENDENCIES (correspondence
   only).

   SEVERAL CONTEXT FAULTS AT ONE SUSPENSION (proofs/MachineC20F.v).  pause_contexts / resume_contexts do not take the
   parameter record (no option is read there); the theorems at the end of this file state WHICH error a task fails with
   when more than one pause() - resp. resume() - raises within one call: the one raised LAST by pause() (the outermost
   failing context: they are paused innermost first), the one raised FIRST by resume().  The check runs programs of
   this class (generator knob p_ctx_stack, corpus _FAULT_STACKS) under every option variant against this model. *)
From Asynq Require Import Machine Seq proofs.MachineC08 proofs.MachineC01 proofs.MachineC20 proofs.MachineSteps
  proofs.MachineKeep proofs.MachineC20F.

Theorem C20_outcome_independent_of_options_tree : forall P P' p n n' o o',
  pointwise P -> pointwise P' -> tree p ->
  let h := fst (create [] (FTask p) (st0 P)) in
  let s1 := snd (create [] (FTask p) (st0 P)) in
  let h' := fst (create [] (FTask p) (st0 P')) in
  let s1' := snd (create [] (FTask p) (st0 P')) in
  no_unwind P n (start h s1) -> c_mode (run P n (start h s1)) = MDone o ->
  no_unwind P' n' (start h' s1') -> c_mode (run P' n' (start h' s1')) = MDone o' ->
  o = o'.
Proof. exact outcome_independent_of_options_tree. Qed.
Print Assumptions C20_outcome_independent_of_options_tree.

(* ---- KEEP_DEPENDENCIES on the trace level, every program (proofs/MachineKeep.v) ----
   same_but_keep P P' : p_kinds, p_maxstack and p_oracle agree (p_keep is free).
   resume_ok c : if c is about to resume task t (mode MResume t), no stored dependency of t is uncomputed.
   hist_guarded ok P fuel ps s : ok holds in every configuration from which a run of the history takes a step. *)
Definition C20_keep_dependencies_inert_statement : Prop :=
  forall P P' fuel ps, same_but_keep P P' -> run_case P fuel ps = run_case P' fuel ps.

Theorem C20_keep_dependencies_inert_statement_is_false : ~ C20_keep_dependencies_inert_statement.
Proof. exact keep_inert_statement_is_false. Qed.
Print Assumptions C20_keep_dependencies_inert_statement_is_false.

Definition C20_keep_dependencies_preserves_success_statement : Prop :=
  forall P P' fuel fuel' ps v e, same_but_keep P P' ->
    fst (run_case P fuel ps) = [Some (Ok v)] -> fst (run_case P' fuel' ps) <> [Some (Err e)].

Theorem C20_keep_dependencies_preserves_success_statement_is_false :
  ~ C20_keep_dependencies_preserves_success_statement.
Proof. exact keep_preserves_success_statement_is_false. Qed.
Print Assumptions C20_keep_dependencies_preserves_success_statement_is_false.

Theorem C20_keep_dependencies_inert_when_resumes_are_guarded : forall P P' fuel ps,
  same_but_keep P P' -> hist_guarded resume_ok P fuel ps (st0 P) = true ->
  run_case P fuel ps = run_case P' fuel ps.
Proof. exact keep_inert_guarded. Qed.
Print Assumptions C20_keep_dependencies_inert_when_resumes_are_guarded.

Theorem C20_keep_dependencies_preserves_success_when_resumes_are_guarded : forall P P' fuel ps os e,
  same_but_keep P P' -> hist_guarded resume_ok P fuel ps (st0 P) = true ->
  fst (run_case P fuel ps) = os -> ~ In (Some (Err e)) os -> ~ In (Some (Err e)) (fst (run_case P' fuel ps)).
Proof. exact keep_preserves_success_guarded. Qed.
Print Assumptions C20_keep_dependencies_preserves_success_when_resumes_are_guarded.

Theorem C20_keep_dependencies_one_step : forall P P' c c',
  same_but_keep P P' -> sim c c' -> dom_ok (c_st c) -> dom_ok (c_st c') -> rinv c ->
  sim (step P c) (step P' c').
Proof. exact sim_step. Qed.
Print Assumptions C20_keep_dependencies_one_step.

(* no_reentry c : c is not "about to resume t (mode MResume t) while a frame FValue t _ is on the stack". *)
Theorem C20_keep_dependencies_inert_without_reentry : forall P P' fuel ps,
  same_but_keep P P' -> hist_guarded no_reentry P fuel ps (st0 P) = true ->
  run_case P fuel ps = run_case P' fuel ps.
Proof. exact keep_inert_no_reentry. Qed.
Print Assumptions C20_keep_dependencies_inert_without_reentry.

Theorem C20_keep_dependencies_preserves_success_without_reentry : forall P P' fuel ps os e,
  same_but_keep P P' -> hist_guarded no_reentry P fuel ps (st0 P) = true ->
  fst (run_case P fuel ps) = os -> ~ In (Some (Err e)) os -> ~ In (Some (Err e)) (fst (run_case P' fuel ps)).
Proof. exact keep_preserves_success_no_reentry. Qed.
Print Assumptions C20_keep_dependencies_preserves_success_without_reentry.

(* the program that refuted the first version, on the repaired model *)
Theorem C20_first_witness_repaired :
  run_case (cxk_P true) 200 [cxk_root NoFault] =
  ([Some (Ok (VInt 5))],
   [EvStep [0%Z] 0 (Ok VNone); EvResume [0%Z] 7; EvStep [1%Z] 0 (Ok VNone); EvStep [1%Z] 1 (Ok (VInt 1));
    EvGot [1%Z] (Err E_RUNTIME); EvStep [1%Z] 2 (Ok VNone); EvDone [1%Z] (Ok (VInt 5));
    EvStep [0%Z] 1 (Ok (VInt 5)); EvPause [0%Z] 7; EvDone [0%Z] (Ok (VInt 5)); EvSched 0 0 None]) /\
  run_case (cxk_P false) 200 [cxk_root NoFault] = run_case (cxk_P true) 200 [cxk_root NoFault] /\
  fst (run_case (cxk_P false) 200 [cxk_root (ResumeRaises 1 77%Z)]) = [Some (Ok (VInt 5))] /\
  run_case (cxk_P false) 200 [cxk_root (ResumeRaises 1 77%Z)] = run_case (cxk_P true) 200 [cxk_root (ResumeRaises 1 77%Z)] /\
  hist_guarded resume_ok (cxk_P true) 200 [cxk_root NoFault] (st0 (cxk_P true)) = true.
Proof. exact cxk_repaired. Qed.
Print Assumptions C20_first_witness_repaired.

Theorem C20_keep_dependencies_costs_no_fuel :
  run_case (cxf_P true) 16 [cxf_prog] = run_case (cxf_P false) 16 [cxf_prog] /\
  fst (run_case (cxf_P true) 16 [cxf_prog]) = [Some (Ok (VInt 5))] /\
  fst (run_case (cxf_P true) 15 [cxf_prog]) = [None] /\ fst (run_case (cxf_P false) 15 [cxf_prog]) = [None].
Proof. exact cxf_same_fuel. Qed.
Print Assumptions C20_keep_dependencies_costs_no_fuel.

(* the hypothesis is satisfiable and the conclusion is not vacuous: a history of two computations with
   two batch kinds, an async context, a nested task, an item error, a synchronous call, and Yields
   without futures after dependencies have been stored *)
Theorem C20_guard_is_satisfiable :
  let P := mkP [] 1000 true [] in
  hist_guarded resume_ok P 300 [keep_demo; keep_demo] (st0 P) = true /\
  hist_guarded no_reentry P 300 [keep_demo; keep_demo] (st0 P) = true /\
  fst (run_case P 300 [keep_demo; keep_demo]) = [Some (Ok (VTuple [VInt 10; VInt 7])); Some (Ok (VTuple [VInt 10; VInt 7]))].
Proof. exact keep_demo_guarded. Qed.
Print Assumptions C20_guard_is_satisfiable.

(* several context faults within one _pause_contexts / _resume_contexts *)
Theorem C20_pause_contexts_is_a_fold : forall t s tk,
  get_task t s = Some tk -> tk_cact tk = true ->
  pause_contexts t s =
  let '(s1, err) := pfold t (rev (tk_ctxs tk)) (set_task t (tk_with_ctxs tk (tk_ctxs tk) false) s, None) in
  match err with Some e => accept_error t e s1 | None => s1 end.
Proof. exact pause_contexts_pfold. Qed.
Print Assumptions C20_pause_contexts_is_a_fold.

Theorem C20_last_pause_error_wins : forall t cs c a,
  snd (pfold t (cs ++ [c]) a) =
  match snd (pause1 t c (fst (pfold t cs a))) with Some e => Some e | None => snd (pfold t cs a) end.
Proof. exact pfold_last_wins. Qed.
Print Assumptions C20_last_pause_error_wins.

Theorem C20_outermost_failing_pause_wins : forall t c cs a e,
  snd (pause1 t c (fst (pfold t (rev cs) a))) = Some e -> snd (pfold t (rev (c :: cs)) a) = Some e.
Proof. exact pause_outermost_wins. Qed.
Print Assumptions C20_outermost_failing_pause_wins.

Theorem C20_resume_contexts_is_a_fold : forall t s tk,
  get_task t s = Some tk -> tk_cact tk = false ->
  resume_contexts t s =
  let '(s1, err) := rfold t (tk_ctxs tk) (set_task t (tk_with_ctxs tk (tk_ctxs tk) true) s, None) in
  match err with Some e => accept_error t e s1 | None => s1 end.
Proof. exact resume_contexts_rfold. Qed.
Print Assumptions C20_resume_contexts_is_a_fold.

Theorem C20_first_resume_error_wins : forall t cs s e, snd (rfold t cs (s, Some e)) = Some e.
Proof. exact rfold_first_wins. Qed.
Print Assumptions C20_first_resume_error_wins.

Theorem C20_two_context_faults_outer_error_either_keep : forall keep,
  let P := mkP [] 1000000 keep [] in
  fst (run_case P 2000 [two_faults (PauseRaises 1 11) (PauseRaises 1 12)]) = [Some (Err 11%Z)] /\
  fst (run_case P 2000 [two_faults (ResumeRaises 1 11) (ResumeRaises 1 12)]) = [Some (Err 11%Z)] /\
  fst (run_case P 2000 [two_faults NoFault (PauseRaises 1 12)]) = [Some (Err 12%Z)] /\
  fst (run_case P 2000 [two_faults NoFault NoFault]) = [Some (Ok (VInt 7))].
Proof. exact two_faults_outer_wins. Qed.
Print Assumptions C20_two_context_faults_outer_error_either_keep.
