From Asynq Require Import Machine.
Theorem C03_placeholder : True. Proof. exact I. Qed.
Print Assumptions C03_placeholder.
