(* C03 — a task resumes only when all it awaits is done; start order.
   Statements only; proofs in proofs/ProgProofs.v and proofs/MachineC02.v.
   Proved: (1) the dependencies derived from a yielded structure are exactly its futures, in reverse
   written order for list/tuple structures (with the LIFO task stack: tasks first scheduled together
   start in the order written); (2) on the machine, for tree programs, the scheduler resumes a task
   only while it is uncomputed and every future it yielded is computed.
   NOT proved (correspondence, monitors and the watchdog only): exactly-once per yield as a trace
   property, never-started for never-awaited tasks, termination. *)
From Asynq Require Import Machine Seq proofs.ProgProofs proofs.MachineC08 proofs.MachineC01 proofs.MachineC02.

Theorem C03_dependencies_are_the_yielded_futures : forall (A : Type) (s : ystruct A) (a : A),
  In a (extract s) <-> In a (leaves s).
Proof. exact (fun A s a => extract_same_elements s a). Qed.
Print Assumptions C03_dependencies_are_the_yielded_futures.

Theorem C03_list_tuple_dependencies_in_reverse_written_order : forall (A : Type) (s : ystruct A),
  dict_free s = true -> extract s = rev (leaves s).
Proof. exact (fun A s => extract_rev_leaves s). Qed.
Print Assumptions C03_list_tuple_dependencies_in_reverse_written_order.

Theorem C03_resumed_only_when_everything_awaited_is_done : forall P, pointwise P -> forall p, tree p -> forall n t,
  let h := fst (create [] (FTask p) (st0 P)) in
  let s1 := snd (create [] (FTask p) (st0 P)) in
  no_unwind P n (start h s1) -> c_mode (run P n (start h s1)) = MResume t ->
  exists tk, get t (c_st (run P n (start h s1))) = Some (mkFut None (KTask tk)) /\
    forall x, In (RFut x) (leaves (tk_last tk)) -> computed x (c_st (run P n (start h s1))) = true.
Proof. exact resume_guard_tree. Qed.
Print Assumptions C03_resumed_only_when_everything_awaited_is_done.
