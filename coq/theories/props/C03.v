(* C03 — proved so far (pure): the dependencies the scheduler derives from a yielded structure
   (extract_futures) are exactly its leaves, and for structures built from lists and tuples only they
   come in reverse written order, which on the LIFO task stack is what makes tasks that are first
   scheduled together start in the order written.  Resume-once / termination rest on the
   correspondence, the monitors and the watchdog. *)
From Asynq Require Import Prog proofs.ProgProofs.

Theorem C03_dependencies_are_the_yielded_futures : forall (A : Type) (s : ystruct A) (a : A),
  In a (extract s) <-> In a (leaves s).
Proof. exact (fun A s a => extract_same_elements s a). Qed.
Print Assumptions C03_dependencies_are_the_yielded_futures.

Theorem C03_list_tuple_dependencies_in_reverse_written_order : forall (A : Type) (s : ystruct A),
  dict_free s = true -> extract s = rev (leaves s).
Proof. exact (fun A s => extract_rev_leaves s). Qed.
Print Assumptions C03_list_tuple_dependencies_in_reverse_written_order.
