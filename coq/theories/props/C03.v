(* C03 — a task resumes only when all it awaits is done; start order; exactly once per yield.
   Statements only; proofs in proofs/ProgProofs.v, proofs/MachineC02.v, proofs/MachineSteps.v, proofs/MachineC02S.v and
   proofs/MachineC03T.v, proofs/MachineC03L.v, proofs/MachineC03P.v, proofs/MachineC03N.v, proofs/MachineC03A.v.
   Proved: (1) the dependencies derived from a yielded structure are exactly its futures, in reverse
   written order for list/tuple structures (with the LIFO task stack: tasks first scheduled together
   start in the order written); (2) on the machine, for tree programs, the scheduler resumes a task
   only while it is uncomputed and every future it yielded is computed; (3) exactly-once per yield as
   a trace property of Machine.run_case, for EVERY program (no tree restriction), parameter record,
   history and fuel: an event [EvStep t i _] (the body of t resumed after its i-th yield) occurs at
   most once (C03_step_at_most_once_per_yield), and the steps of a task are numbered 0,1,2,... in
   chronological order - step i > 0 is preceded by step i-1 (C03_steps_numbered_consecutively); so the
   k-th resume of t is the unique step numbered k-1 and there is exactly one resume per yield that is
   resumed at all.  (4) "never runs again after it has completed": the unrestricted trace statement
   C03_no_step_after_done_statement (no EvStep t after EvDone t) is FALSE for the faithful model
   (C03_no_step_after_done_statement_is_false): a task re-entered through a synchronous .value() of a
   task that awaits it can complete in the inner activation and yield again in the outer one; the
   model then steps it again (CPython would raise "generator already executing" at the re-entry
   instead).  Proved instead: the statement holds for every program and history in which each resume
   finds its task uncomputed (C03_no_step_after_done_when_resumes_are_guarded), and that hypothesis
   holds for tree programs by the C01 invariant (C03_no_step_after_done_tree; pointwise service, no
   unwinding, one root computation from the initial state).
   (5) [stree] programs = tree programs + synchronous calls of fresh tasks (proofs/MachineC01S.v,
   proofs/MachineC02S.v; second half of the file): (2) again (C03_resumed_only_when_everything_awaited_is_done_stree);
   the guard hypothesis of (4) holds for their runs (C03_stree_resumes_are_guarded), hence no step after done for
   one stree computation from the initial state (C03_no_step_after_done_stree) and for a whole HISTORY of stree
   (in particular tree) computations on one scheduler in which no computation unwinds and each computation that
   is followed by another one finished (C03_no_step_after_done_stree_history; C03_stree_clean_history: such a
   history exists).  The nested scheduler loops of synchronous calls never resume a suspended caller: they only
   work on tasks at least as young as their wait_for root.
   (6) LIVENESS, partial (proofs/MachineC03T.v; tree programs, pointwise service, one root computation from the
   initial state): (a) a resumed task returns control to the scheduler: from a configuration MResume t the body of
   t runs for finitely many steps (through the yields that add no dependency) and reaches MContRet without
   unwinding (C03_resumed_task_returns_to_scheduler); (b) the FIRST _execute pass terminates: if the runaway guard
   never fires (hypothesis "forall n, no_unwind P n start", i.e. MAX_TASK_STACK_SIZE is large enough for the
   program), the machine reaches MAfterExec with an empty task stack - so every yield whose dependencies are
   all computed within the first pass IS resumed (C03_first_pass_terminates_tree; structural induction over the
   HOAS program: every task started in the pass is popped after finitely many steps, computed or stuck);
   (c) TERMINATION when no flush is needed: if moreover no pass ends with the awaited task uncomputed, there
   are a fuel n and an outcome o with mode MDone o at n, and o = Seq.eval p (C03_terminates_without_flush_tree);
   C03_termination_demos: both hypotheses hold for a concrete program with nested tasks, and c01_demo (which
   needs flushes) ends its first pass after 17 steps and is done within 41.
   (7) LIVENESS, second part (proofs/MachineC03L.v; same setting): (a) ACYCLICITY - dependencies are younger than
   the task that awaits them, in every configuration of a clean run (C03_dependencies_are_younger_tree; the
   invariant is MachineC01S.SI); (b) FLUSH PROGRESS - at a flush point (a pass ended with the awaited task
   uncomputed) the stuck set of MachineC04B contains a batch item (C03_stuck_set_has_item: well-founded descent
   on top_next - id, no classical logic), that item is uncomputed and lies in a scheduled pending batch
   (C03_flush_point_has_item_tree), so _select_batch_to_flush finds a batch and the step computes at least one
   item that was not computed, losing nothing (C03_flush_makes_progress_tree); (c) an UNCONDITIONAL CRITERION for
   the no-flush hypothesis of (6c): item-free programs ([noitem] = tree without FItem) never hold a batch item
   in the heap (C03_noitem_heap_has_no_item; invariant NIc preserved by every step), so no pass ends with the
   root uncomputed (C03_noitem_never_flushes) and the computation TERMINATES with the sequential outcome under
   the guard hypothesis alone (C03_noitem_terminates; C03_noitem_termination_demo: a concrete program with
   nested tasks, a lazy future, a constant, a context and a caught exception, guard hypothesis proved for every
   fuel).
   WITHOUT THE HYPOTHESIS no_unwind (end of the file; proofs/MachineNoUnwind.v, MachineGuardForms.v): the tree-
   program theorems are stated again as C03_resumed_only_when_everything_awaited_is_done_guard,
   C03_no_step_after_done_tree_guard, and the liveness fragments C03_resumed_task_returns_to_scheduler_guard (which
   also concludes that the guard stays silent during the segment), C03_first_pass_terminates_tree_guard,
   C03_terminates_without_flush_tree_guard (hypothesis: forall n, guard_fires P (run P n c0) = false). These forms
   need no assumption about exceptions unwinding: FutureIsAlreadyComputed is proved unreachable for tree programs,
   so only the runaway guard's RuntimeError can unwind through asynq's frames, and the hypothesis "the guard has not
   fired before step n" (forall k < n, guard_fires P (run P k c0) = false; guard_fires is the boolean test at the
   head of the _execute loop) is a decidable condition on the run.
   (8) LIVENESS, third part (proofs/MachineC03L.v part 4, proofs/MachineC03P.v; same setting): (a) EVERY _execute
   pass terminates, not only the first one: from the head of wait_for with the awaited task uncomputed (start of
   the computation, or right after a flush) the machine reaches MAfterExec with an empty task stack after
   finitely many steps (C03_every_pass_terminates_tree).  Proof: induction over the creation numbers
   (dependencies are younger, bound = top_next at the start of the pass); a top entry that is not a first visit
   is popped by the lemmas of (6b) (C03_top_entry_popped_unless_first_visit_tree: computed / item / lazy /
   blocked-and-scheduled entries are popped, an unblocked suspended task is resumed and runs with everything it
   starts until it completes or is stuck again); a first visit pushes the uncomputed dependencies, whose sets of
   uncomputed descendants are pairwise disjoint (C03_sibling_subtrees_disjoint, from deps_ok.dk_disj), so dealing
   with one sibling leaves the others' subtrees as they were.  (b) after a flush the next pass starts
   (C03_next_pass_starts_tree).  (c) the number of flushes is bounded relative to the number of futures created:
   while the ids stay below N at most N flush points occur (C03_flushes_bounded_tree; each flush computes a
   future that was not computed, computed futures stay computed).  (d) TERMINATION with ONE hypothesis besides
   the guard: if the number of futures the run creates is bounded (forall n, top_next <= N) then there is a fuel
   at which the run is done with the sequential outcome (C03_terminates_if_allocation_bounded_tree; the general
   reduction is C03_termination_reduced_tree).  C03_termination_demo_with_items: for c01_demo (batch items of two
   kinds, needs flushes) the guard hypothesis and the bound (10 futures) are proved for every fuel and the
   theorem instantiates.
   (9) LIVENESS, last part (proofs/MachineC03N.v, proofs/MachineC03A.v; same setting): THE ALLOCATION BOUND AND
   TERMINATION.  nf p = number of futures the sequential evaluation of p creates, by structural recursion along
   Seq.eval (C03_nf_yield).  The machine creates no more: while the run has not unwound, top_next <= 1 + nf p
   (C03_allocation_bound_tree).  Invariant (with the ghost spec of C01): top_next + the sum over the ids below
   top_next of the remaining allocation of each uncomputed task (nf of the program in MRun for the running
   task; nf of the generator applied to the specified outcome of the yielded structure for a suspended one) <=
   1 + nf p.  Transitions outside a Yield create nothing and keep generator and yielded structure of every
   uncomputed task (relation gq, proved for every helper of Machine.v); MResume uses look_agree; Yield moves the
   futures of the yield expression from the sum to top_next (inst_W, by induction over the yielded structure).
   Hence TERMINATION OF EVERY TREE PROGRAM: if the runaway guard never fires there is a fuel at which the run is
   done with the sequential outcome (C03_terminates_tree), and if MAX_TASK_STACK_SIZE >= 1 + nf p the guard never
   fires (C03_small_never_unwinds, with MachineNoUnwind.tree_guard_silent_while_few_futures) and termination holds
   with NO hypothesis about the run (C03_terminates_tree_small).  C03_nf_demos: the demo runs created exactly
   1 + nf p futures.  All four items (i)-(iv) of the earlier "missing" list are proved (7b, 8a, 9, 7c).
   NOT proved (correspondence, monitors and the watchdog only): termination outside the tree fragment (stored
   handles, synchronous value() calls, Let: stree and beyond), and termination when the guard does fire;
   never-started for never-awaited tasks; no-step-after-done for programs outside stree (stored handles,
   value() on existing futures) without the guard hypothesis, and after a computation that was cut off by the
   fuel or by the runaway guard.
   WITHOUT THE HYPOTHESIS no_unwind FOR stree PROGRAMS (end of the file; proofs/MachineGuardFormsS.v): the stree
   theorems whose hypothesis is no_unwind P n (start h s1) are restated with "the MAX_TASK_STACK_SIZE guard has not
   fired before step n" in its place (MachineNoUnwind.stree_no_unwind_iff_guard_silent):
   C03_resumed_only_when_everything_awaited_is_done_stree_guard, C03_stree_resumes_are_guarded_guard,
   C03_no_step_after_done_stree_guard. *)
From Asynq Require Import Machine Seq proofs.ProgProofs proofs.MachineC08 proofs.MachineC01 proofs.MachineC02
  proofs.MachineSteps.

Theorem C03_dependencies_are_the_yielded_futures : forall (A : Type) (s : ystruct A) (a : A),
  In a (extract s) <-> In a (leaves s).
Proof. exact (fun A s a => extract_same_elements s a). Qed.
Print Assumptions C03_dependencies_are_the_yielded_futures.

Theorem C03_list_tuple_dependencies_in_reverse_written_order : forall (A : Type) (s : ystruct A),
  dict_free s = true -> extract s = rev (leaves s).
Proof. exact (fun A s => extract_rev_leaves s). Qed.
Print Assumptions C03_list_tuple_dependencies_in_reverse_written_order.

Theorem C03_resumed_only_when_everything_awaited_is_done : forall P, pointwise P -> forall p, tree p -> forall n t,
  let h := fst (create [] (FTask p) (st0 P)) in
  let s1 := snd (create [] (FTask p) (st0 P)) in
  no_unwind P n (start h s1) -> c_mode (run P n (start h s1)) = MResume t ->
  exists tk, get t (c_st (run P n (start h s1))) = Some (mkFut None (KTask tk)) /\
    forall x, In (RFut x) (leaves (tk_last tk)) -> computed x (c_st (run P n (start h s1))) = true.
Proof. exact resume_guard_tree. Qed.
Print Assumptions C03_resumed_only_when_everything_awaited_is_done.

(* ---- exactly once per yield (every program; proofs/MachineSteps.v) ----
   count_step t i tr = number of events [EvStep t i _] in tr; snd (run_case ..) is chronological. *)
Theorem C03_step_at_most_once_per_yield : forall P fuel ps t i,
  (count_step t i (snd (run_case P fuel ps)) <= 1)%nat.
Proof. exact run_case_step_at_most_once. Qed.
Print Assumptions C03_step_at_most_once_per_yield.

Theorem C03_steps_numbered_consecutively : forall P fuel ps t i o l1 l2,
  snd (run_case P fuel ps) = l1 ++ EvStep t i o :: l2 ->
  (0 <= i)%Z /\ ((0 < i)%Z -> exists o', In (EvStep t (i - 1)%Z o') l1).
Proof. exact run_case_steps_consecutive. Qed.
Print Assumptions C03_steps_numbered_consecutively.

(* ---- never runs again after it has completed ---- *)
Definition C03_no_step_after_done_statement : Prop :=
  forall P fuel ps t i o l1 l2,
    snd (run_case P fuel ps) = l1 ++ EvStep t i o :: l2 -> forall o', ~ In (EvDone t o') l1.

Theorem C03_no_step_after_done_statement_is_false : ~ C03_no_step_after_done_statement.
Proof. exact no_step_after_done_fails. Qed.
Print Assumptions C03_no_step_after_done_statement_is_false.

(* every program and history: if each resume (mode MResume t) of each root computation finds t
   uncomputed, no step of t follows EvDone t *)
Theorem C03_no_step_after_done_when_resumes_are_guarded : forall P fuel ps,
  history_guarded P fuel ps (st0 P) ->
  forall t i o l1 l2, snd (run_case P fuel ps) = l1 ++ EvStep t i o :: l2 -> forall o', ~ In (EvDone t o') l1.
Proof. exact run_case_no_step_after_done. Qed.
Print Assumptions C03_no_step_after_done_when_resumes_are_guarded.

Theorem C03_no_step_after_done_tree : forall P p n,
  pointwise P -> tree p ->
  no_unwind P n (start (fst (create [] (FTask p) (st0 P))) (snd (create [] (FTask p) (st0 P)))) ->
  forall t i o l1 l2, snd (run_case P n [p]) = l1 ++ EvStep t i o :: l2 -> forall o', ~ In (EvDone t o') l1.
Proof. exact tree_no_step_after_done. Qed.
Print Assumptions C03_no_step_after_done_tree.

(* non-vacuity: a tree program that yields twice runs clean; its task has steps 0, 1, 2, then EvDone *)
Example C03_three_steps_then_done :
  tree steps_demo /\
  let P := mkP [] 1000 false [] in
  let h := fst (create [] (FTask steps_demo) (st0 P)) in
  let s1 := snd (create [] (FTask steps_demo) (st0 P)) in
  no_unwind_b P 100 (start h s1) = true /\
  fst (run_case P 100 [steps_demo]) = [Some (Ok (VInt 6))] /\
  filter (fun e => match e with EvStep _ _ _ | EvDone _ _ => true | _ => false end) (snd (run_case P 100 [steps_demo])) =
  [EvStep [0%Z] 0 (Ok VNone); EvStep [0%Z] 1 (Ok (VInt 5)); EvStep [0%Z] 2 (Ok (VInt 6)); EvDone [0%Z] (Ok (VInt 6))].
Proof. exact (conj steps_demo_tree steps_demo_runs). Qed.
Print Assumptions C03_three_steps_then_done.

(* ==== tree programs WITH SYNCHRONOUS CALLS ([stree]: proofs/MachineC01S.v, proofs/MachineC02S.v) ==== *)
From Asynq Require Import proofs.MachineC01S proofs.MachineC02S.

Theorem C03_resumed_only_when_everything_awaited_is_done_stree : forall P, pointwise P -> forall p, stree p -> forall n t,
  let h := fst (create [] (FTask p) (st0 P)) in
  let s1 := snd (create [] (FTask p) (st0 P)) in
  no_unwind P n (start h s1) -> c_mode (run P n (start h s1)) = MResume t ->
  exists tk, get t (c_st (run P n (start h s1))) = Some (mkFut None (KTask tk)) /\
    forall x, In (RFut x) (leaves (tk_last tk)) -> computed x (c_st (run P n (start h s1))) = true.
Proof. exact resume_guard_stree. Qed.
Print Assumptions C03_resumed_only_when_everything_awaited_is_done_stree.

(* the guard hypothesis of C03_no_step_after_done_when_resumes_are_guarded holds for stree runs *)
Theorem C03_stree_resumes_are_guarded : forall P p n,
  pointwise P -> stree p ->
  no_unwind P n (start (fst (create [] (FTask p) (st0 P))) (snd (create [] (FTask p) (st0 P)))) ->
  resume_guarded P n (start (fst (create [] (FTask p) (st0 P))) (snd (create [] (FTask p) (st0 P)))).
Proof. exact stree_resume_guarded. Qed.
Print Assumptions C03_stree_resumes_are_guarded.

Theorem C03_no_step_after_done_stree : forall P p n,
  pointwise P -> stree p ->
  no_unwind P n (start (fst (create [] (FTask p) (st0 P))) (snd (create [] (FTask p) (st0 P)))) ->
  forall t i o l1 l2, snd (run_case P n [p]) = l1 ++ EvStep t i o :: l2 -> forall o', ~ In (EvDone t o') l1.
Proof. exact stree_no_step_after_done. Qed.
Print Assumptions C03_no_step_after_done_stree.

(* a whole history of stree computations on one scheduler.  history_clean P fuel ps s: every program is stree, no
   root computation unwinds, and every computation that is followed by another one finished (MDone) *)
Theorem C03_no_step_after_done_stree_history : forall P fuel ps,
  pointwise P -> history_clean P fuel ps (st0 P) ->
  forall t i o l1 l2, snd (run_case P fuel ps) = l1 ++ EvStep t i o :: l2 -> forall o', ~ In (EvDone t o') l1.
Proof. exact stree_history_no_step_after_done. Qed.
Print Assumptions C03_no_step_after_done_stree_history.

(* non-vacuity: the C02 demo program (a synchronous call inside an awaited task, failing siblings) twice on one
   scheduler is a clean history; the second root [6] and its child [7] are stepped and then done *)
Example C03_stree_clean_history :
  let P := mkP [] 1000 false [] in
  history_clean P 60 [c02s_demo; c02s_demo] (st0 P) /\
  fst (run_case P 60 [c02s_demo; c02s_demo]) = [Some (Err 42); Some (Err 42)] /\
  filter (fun e => match e with EvStep [6] _ _ | EvDone [6] _ | EvStep [7] _ _ | EvDone [7] _ => true | _ => false end)
         (snd (run_case P 60 [c02s_demo; c02s_demo])) =
  [EvStep [6] 0 (Ok VNone); EvStep [7] 0 (Ok VNone); EvDone [7] (Ok (VTuple [VInt 7; VInt 1]));
   EvStep [6] 1 (Err 42); EvDone [6] (Err 42)].
Proof. exact c02s_history_clean. Qed.
Print Assumptions C03_stree_clean_history.

(* ==== liveness fragments (proofs/MachineC03T.v) ==== *)
From Asynq Require Import proofs.MachineC03T.

(* once the scheduler resumes a task (mode MResume t), the body of t runs for finitely many steps - through
   the yields that add no dependency - and control returns to the scheduler loop (MContRet), without
   unwinding; seg_mode t m = true iff m is MResume t or MRun t _ *)
Theorem C03_resumed_task_returns_to_scheduler : forall P p n t,
  pointwise P -> tree p ->
  let h := fst (create [] (FTask p) (st0 P)) in
  let s1 := snd (create [] (FTask p) (st0 P)) in
  no_unwind P n (start h s1) -> c_mode (run P n (start h s1)) = MResume t ->
  exists m, c_mode (run P (n + m) (start h s1)) = MContRet /\ no_unwind P (n + m) (start h s1) /\
    forall j, (j < m)%nat -> seg_mode t (c_mode (run P (n + j) (start h s1))) = true.
Proof. exact resumed_returns_tree. Qed.
Print Assumptions C03_resumed_task_returns_to_scheduler.

(* the FIRST _execute pass of the computation terminates: from the initial state the machine reaches the point
   where wait_for gets control back (MAfterExec) with an empty task stack - every task reachable from the root
   has been started and has run until it completed or got stuck.  Hypothesis on MAX_TASK_STACK_SIZE, explicit:
   the runaway guard never fires (no configuration of the run is unwinding). *)
Theorem C03_first_pass_terminates_tree : forall P p,
  pointwise P -> tree p ->
  let h := fst (create [] (FTask p) (st0 P)) in
  let s1 := snd (create [] (FTask p) (st0 P)) in
  (forall n, no_unwind P n (start h s1)) ->
  exists n, c_mode (run P n (start h s1)) = MAfterExec /\ tasks (c_st (run P n (start h s1))) = [].
Proof. exact first_pass_terminates_tree. Qed.
Print Assumptions C03_first_pass_terminates_tree.

(* TERMINATION when no batch flush is needed: if no pass ends with the awaited task uncomputed, there is a fuel
   at which the computation is done, and its outcome is the sequential one *)
Theorem C03_terminates_without_flush_tree : forall P p,
  pointwise P -> tree p ->
  let h := fst (create [] (FTask p) (st0 P)) in
  let s1 := snd (create [] (FTask p) (st0 P)) in
  (forall n, no_unwind P n (start h s1)) ->
  (forall n, c_mode (run P n (start h s1)) = MAfterExec -> computed h (c_st (run P n (start h s1))) = true) ->
  exists n o, c_mode (run P n (start h s1)) = MDone o /\ o = eval p.
Proof. exact terminates_without_flush_tree. Qed.
Print Assumptions C03_terminates_without_flush_tree.

(* non-vacuity: c01_demo ends its first pass after 17 steps with the root uncomputed and is done within 41 steps;
   c03t_demo (nested tasks, a lazy future, constants, no batch item) never ends a pass with the root
   uncomputed, does not unwind, and is done within 36 steps *)
Theorem C03_termination_demos :
  tree c03t_demo /\
  let P := mkP [] 1000 false [] in
  (let h := fst (create [] (FTask c01_demo) (st0 P)) in
   let s1 := snd (create [] (FTask c01_demo) (st0 P)) in
   c_mode (run P 17 (start h s1)) = MAfterExec /\ computed h (c_st (run P 17 (start h s1))) = false /\
   c_mode (run P 41 (start h s1)) = MDone (eval c01_demo)) /\
  (let h := fst (create [] (FTask c03t_demo) (st0 P)) in
   let s1 := snd (create [] (FTask c03t_demo) (st0 P)) in
   no_unwind_b P 100 (start h s1) = true /\
   forallb (fun n => match c_mode (run P n (start h s1)) with
                     | MAfterExec => computed h (c_st (run P n (start h s1))) | _ => true end) (seq 0 100) = true /\
   c_mode (run P 36 (start h s1)) = MDone (Ok (VTuple [VTuple [VInt 7; VInt 1]; VInt 9; VInt 3])) /\
   eval c03t_demo = Ok (VTuple [VTuple [VInt 7; VInt 1]; VInt 9; VInt 3])).
Proof. exact (conj c03t_demo_tree c03t_demo_runs). Qed.
Print Assumptions C03_termination_demos.

(* ==== liveness, second part (proofs/MachineC03L.v) ==== *)
From Asynq Require Import proofs.MachineC04 proofs.MachineC01S proofs.MachineC04S proofs.MachineC03L.

(* ACYCLICITY: dependencies are younger.  In every configuration of a clean run (not MStuck), a task entry
   [a] (computed or not) has only dependencies whose creation number (fnum d = head of the id) is greater than
   a; an allocated dependency is [b] with a < b.  (The invariant is MachineC01S.SI, preserved by step.) *)
Theorem C03_dependencies_are_younger_tree : forall P p n,
  pointwise P -> tree p ->
  let h := fst (create [] (FTask p) (st0 P)) in
  let s1 := snd (create [] (FTask p) (st0 P)) in
  no_unwind P n (start h s1) -> c_mode (run P n (start h s1)) <> MStuck ->
  forall t o tk, get t (c_st (run P n (start h s1))) = Some (mkFut o (KTask tk)) ->
  exists a, t = [a] /\ (0 <= a < top_next (c_st (run P n (start h s1))))%Z /\
    forall d, In d (tk_deps tk) -> (a < fnum d)%Z /\
      forall f, get d (c_st (run P n (start h s1))) = Some f -> exists b, d = [b] /\ (a < b)%Z.
Proof. exact deps_are_younger_tree. Qed.
Print Assumptions C03_dependencies_are_younger_tree.

(* the greatest member of a stuck set is a batch item: if dependencies are younger, ids are below top_next and
   every member of S is stuck in the sense of MachineC04.S_ok, every member of S leads to a batch item in S *)
Theorem C03_stuck_set_has_item : forall (s : st) (S : fid -> Prop),
  deps_younger s -> (forall d f, get d s = Some f -> (fnum d < top_next s)%Z) ->
  (forall d, S d -> S_ok S s d) ->
  forall d, S d -> exists e kind idx key a, S e /\ get e s = Some (mkFut None (KItem kind idx key a)).
Proof. exact stuck_has_item. Qed.
Print Assumptions C03_stuck_set_has_item.

(* at a flush point (a pass has ended, the awaited task is not computed) the heap holds an uncomputed batch
   item whose batch is scheduled, pending and contains it *)
Theorem C03_flush_point_has_item_tree : forall P p n,
  pointwise P -> tree p ->
  let h := fst (create [] (FTask p) (st0 P)) in
  let s1 := snd (create [] (FTask p) (st0 P)) in
  no_unwind P n (start h s1) -> c_mode (run P n (start h s1)) = MAfterExec ->
  computed h (c_st (run P n (start h s1))) = false ->
  exists e kind idx key a, get e (c_st (run P n (start h s1))) = Some (mkFut None (KItem kind idx key a)) /\
    In (kind, idx) (sb (c_st (run P n (start h s1)))) /\
    In e (b_items (get_batch (kind, idx) (c_st (run P n (start h s1))))) /\
    b_done (get_batch (kind, idx) (c_st (run P n (start h s1)))) = false.
Proof. exact flush_point_has_item_tree. Qed.
Print Assumptions C03_flush_point_has_item_tree.

(* FLUSH PROGRESS: the step taken at a flush point goes back to the head of wait_for (the scheduler found a
   batch to flush) and computes at least one batch item that was not computed; nothing computed is lost *)
Theorem C03_flush_makes_progress_tree : forall P p n,
  pointwise P -> tree p ->
  let h := fst (create [] (FTask p) (st0 P)) in
  let s1 := snd (create [] (FTask p) (st0 P)) in
  no_unwind P n (start h s1) -> c_mode (run P n (start h s1)) = MAfterExec ->
  computed h (c_st (run P n (start h s1))) = false ->
  c_mode (run P (S n) (start h s1)) = MWaitHead /\
  (exists d, computed d (c_st (run P n (start h s1))) = false /\ computed d (c_st (run P (S n) (start h s1))) = true /\
     exists kind idx key a, get d (c_st (run P n (start h s1))) = Some (mkFut None (KItem kind idx key a))) /\
  (forall x, computed x (c_st (run P n (start h s1))) = true -> computed x (c_st (run P (S n) (start h s1))) = true).
Proof. exact flush_makes_progress_tree. Qed.
Print Assumptions C03_flush_makes_progress_tree.

(* ITEM-FREE programs ([noitem]: tree programs without FItem, for all outcomes passed to the continuations) *)
Theorem C03_noitem_is_tree : forall p, noitem p -> tree p.
Proof. exact noitem_tree. Qed.
Print Assumptions C03_noitem_is_tree.

Theorem C03_noitem_heap_has_no_item : forall P p n,
  noitem p ->
  let h := fst (create [] (FTask p) (st0 P)) in
  let s1 := snd (create [] (FTask p) (st0 P)) in
  forall u o kind idx key a, get u (c_st (run P n (start h s1))) <> Some (mkFut o (KItem kind idx key a)).
Proof. exact noitem_heap_has_no_item. Qed.
Print Assumptions C03_noitem_heap_has_no_item.

(* the no-flush hypothesis of C03_terminates_without_flush_tree holds for item-free programs *)
Theorem C03_noitem_never_flushes : forall P p,
  pointwise P -> noitem p ->
  let h := fst (create [] (FTask p) (st0 P)) in
  let s1 := snd (create [] (FTask p) (st0 P)) in
  forall n, no_unwind P n (start h s1) -> c_mode (run P n (start h s1)) = MAfterExec ->
    computed h (c_st (run P n (start h s1))) = true.
Proof. exact noitem_never_flushes. Qed.
Print Assumptions C03_noitem_never_flushes.

(* TERMINATION of item-free programs, under the guard hypothesis only *)
Theorem C03_noitem_terminates : forall P p,
  pointwise P -> noitem p ->
  let h := fst (create [] (FTask p) (st0 P)) in
  let s1 := snd (create [] (FTask p) (st0 P)) in
  (forall n, no_unwind P n (start h s1)) ->
  exists n, c_mode (run P n (start h s1)) = MDone (eval p).
Proof. exact noitem_terminates. Qed.
Print Assumptions C03_noitem_terminates.

(* non-vacuity: c03l_demo (nested tasks, a lazy future, a constant, a task inside a context that catches the
   exception of the task it awaits) is item-free, its run never unwinds (for EVERY fuel), and the theorem gives
   its termination with the sequential outcome *)
Theorem C03_noitem_termination_demo :
  let P := mkP [] 1000 false [] in
  let h := fst (create [] (FTask c03l_demo) (st0 P)) in
  let s1 := snd (create [] (FTask c03l_demo) (st0 P)) in
  pointwise P /\ noitem c03l_demo /\ (forall n, no_unwind P n (start h s1)) /\
  exists n, c_mode (run P n (start h s1)) = MDone (Ok (VTuple [VTuple [VInt 7; VInt 1]; VInt 9; VInt 42])).
Proof. exact c03l_demo_terminates. Qed.
Print Assumptions C03_noitem_termination_demo.
(* ==== the same WITHOUT an assumption about exceptions unwinding (proofs/MachineNoUnwind.v, MachineGuardForms.v) ====
   [no_unwind] is replaced by "the MAX_TASK_STACK_SIZE guard has not fired before step n":
   forall k < n, guard_fires P (run P k c0) = false, where guard_fires is the boolean test at the head of the
   _execute loop in Machine.step.  For tree programs under a pointwise service the two say the same:
   FutureIsAlreadyComputed is proved unreachable, so the guard's RuntimeError is the only exception that can
   unwind through asynq's frames. *)
From Asynq Require Import proofs.MachineNoUnwind proofs.MachineGuardForms.
Theorem C03_resumed_only_when_everything_awaited_is_done_guard : forall P, pointwise P -> forall p, tree p -> forall n t,
  let h := fst (create [] (FTask p) (st0 P)) in
  let s1 := snd (create [] (FTask p) (st0 P)) in
  (forall k, (k < n)%nat -> guard_fires P (run P k (start h s1)) = false) ->
  c_mode (run P n (start h s1)) = MResume t ->
  exists tk, get t (c_st (run P n (start h s1))) = Some (mkFut None (KTask tk)) /\
    forall x, In (RFut x) (leaves (tk_last tk)) -> computed x (c_st (run P n (start h s1))) = true.
Proof. exact resume_guard_tree_guard. Qed.
Print Assumptions C03_resumed_only_when_everything_awaited_is_done_guard.

Theorem C03_no_step_after_done_tree_guard : forall P p n,
  pointwise P -> tree p ->
  (forall k, (k < n)%nat -> guard_fires P (run P k
     (start (fst (create [] (FTask p) (st0 P))) (snd (create [] (FTask p) (st0 P))))) = false) ->
  forall t i o l1 l2, snd (run_case P n [p]) = l1 ++ EvStep t i o :: l2 -> forall o', ~ In (EvDone t o') l1.
Proof. exact tree_no_step_after_done_guard. Qed.
Print Assumptions C03_no_step_after_done_tree_guard.

(* liveness fragments: the guard is silent before the resume; it stays silent (and nothing unwinds) during the
   segment *)
Theorem C03_resumed_task_returns_to_scheduler_guard : forall P p n t,
  pointwise P -> tree p ->
  let h := fst (create [] (FTask p) (st0 P)) in
  let s1 := snd (create [] (FTask p) (st0 P)) in
  (forall k, (k < n)%nat -> guard_fires P (run P k (start h s1)) = false) ->
  c_mode (run P n (start h s1)) = MResume t ->
  exists m, c_mode (run P (n + m) (start h s1)) = MContRet /\
    (forall k, (k < n + m)%nat -> guard_fires P (run P k (start h s1)) = false) /\
    no_unwind P (n + m) (start h s1) /\
    forall j, (j < m)%nat -> seg_mode t (c_mode (run P (n + j) (start h s1))) = true.
Proof. exact resumed_returns_tree_guard. Qed.
Print Assumptions C03_resumed_task_returns_to_scheduler_guard.

(* hypothesis on MAX_TASK_STACK_SIZE: the guard never fires (a decidable condition on each configuration) *)
Theorem C03_first_pass_terminates_tree_guard : forall P p,
  pointwise P -> tree p ->
  let h := fst (create [] (FTask p) (st0 P)) in
  let s1 := snd (create [] (FTask p) (st0 P)) in
  (forall n, guard_fires P (run P n (start h s1)) = false) ->
  exists n, c_mode (run P n (start h s1)) = MAfterExec /\ tasks (c_st (run P n (start h s1))) = [].
Proof. exact first_pass_terminates_tree_guard. Qed.
Print Assumptions C03_first_pass_terminates_tree_guard.

Theorem C03_terminates_without_flush_tree_guard : forall P p,
  pointwise P -> tree p ->
  let h := fst (create [] (FTask p) (st0 P)) in
  let s1 := snd (create [] (FTask p) (st0 P)) in
  (forall n, guard_fires P (run P n (start h s1)) = false) ->
  (forall n, c_mode (run P n (start h s1)) = MAfterExec -> computed h (c_st (run P n (start h s1))) = true) ->
  exists n o, c_mode (run P n (start h s1)) = MDone o /\ o = eval p.
Proof. exact terminates_without_flush_tree_guard. Qed.
Print Assumptions C03_terminates_without_flush_tree_guard.

(* ==== towards general termination (proofs/MachineC03L.v, part 4) ==== *)

(* relative bound on the number of flushes: while the ids of the futures created stay below N, at most N flush
   points (a pass ended, the awaited task is uncomputed) occur among the first n configurations *)
Theorem C03_flushes_bounded_tree : forall P p N n,
  pointwise P -> tree p ->
  let h := fst (create [] (FTask p) (st0 P)) in
  let s1 := snd (create [] (FTask p) (st0 P)) in
  (forall n, no_unwind P n (start h s1)) ->
  (forall k, (k <= n)%nat -> (top_next (c_st (run P k (start h s1))) <= Z.of_nat N)%Z) ->
  (length (filter (fun k => match c_mode (run P k (start h s1)) with
                            | MAfterExec => negb (computed h (c_st (run P k (start h s1))))
                            | _ => false end) (seq 0 n)) <= N)%nat.
Proof. exact flushes_bounded_tree. Qed.
Print Assumptions C03_flushes_bounded_tree.

(* TERMINATION REDUCED to the two missing facts: if every pass that starts with the awaited task uncomputed ends
   and the number of futures ever created is bounded, the computation is done with the sequential outcome *)
Theorem C03_termination_reduced_tree : forall P p N,
  pointwise P -> tree p ->
  let h := fst (create [] (FTask p) (st0 P)) in
  let s1 := snd (create [] (FTask p) (st0 P)) in
  (forall n, no_unwind P n (start h s1)) ->
  (forall n, c_mode (run P n (start h s1)) = MWaitHead -> computed h (c_st (run P n (start h s1))) = false ->
     exists m, c_mode (run P (n + m) (start h s1)) = MAfterExec) ->
  (forall n, (top_next (c_st (run P n (start h s1))) <= Z.of_nat N)%Z) ->
  exists n, c_mode (run P n (start h s1)) = MDone (eval p).
Proof. exact termination_reduced_tree. Qed.
Print Assumptions C03_termination_reduced_tree.

(* the next pass starts after a flush *)
Theorem C03_next_pass_starts_tree : forall P p n,
  pointwise P -> tree p ->
  let h := fst (create [] (FTask p) (st0 P)) in
  let s1 := snd (create [] (FTask p) (st0 P)) in
  (forall n, no_unwind P n (start h s1)) ->
  c_mode (run P n (start h s1)) = MWaitHead -> computed h (c_st (run P n (start h s1))) = false ->
  run P (n + 1) (start h s1) = mkC MExecLoop [FExec 0; FWait h; FTop] (with_tasks (c_st (run P n (start h s1))) [h]).
Proof. exact next_pass_starts_tree. Qed.
Print Assumptions C03_next_pass_starts_tree.

(* in ANY pass the top stack entry is popped after finitely many steps unless it is a first visit *)
Theorem C03_top_entry_popped_unless_first_visit_tree : forall P p n s x ts,
  pointwise P -> tree p ->
  let h := fst (create [] (FTask p) (st0 P)) in
  let s1 := snd (create [] (FTask p) (st0 P)) in
  (forall n, no_unwind P n (start h s1)) ->
  run P n (start h s1) = mkC MExecLoop [FExec 0; FWait h; FTop] s -> tasks s = x :: ts ->
  (forall tk, get x s = Some (mkFut None (KTask tk)) -> is_blocked tk s = true -> tk_ds tk = true) ->
  exists m s', run P (n + m) (start h s1) = mkC MExecLoop [FExec 0; FWait h; FTop] s' /\ tasks s' = ts /\
    forall d, d <> x -> get d s <> None -> get d s' = get d s.
Proof. exact top_entry_popped_unless_first_visit_tree. Qed.
Print Assumptions C03_top_entry_popped_unless_first_visit_tree.

(* ==== EVERY pass terminates (proofs/MachineC03P.v) ==== *)
From Asynq Require Import proofs.MachineC03P.

(* the uncomputed descendants of two distinct uncomputed dependencies of an uncomputed task are disjoint
   (ub s d z: z is below d through dependency lists of uncomputed tasks, along uncomputed dependencies) *)
Theorem C03_sibling_subtrees_disjoint : forall r s x tkx d1 d2, deps_younger s -> deps_ok r s ->
  get x s = Some (mkFut None (KTask tkx)) -> In d1 (tk_deps tkx) -> In d2 (tk_deps tkx) ->
  computed d1 s = false -> computed d2 s = false -> d1 <> d2 ->
  forall z, ub s d1 z -> ub s d2 z -> False.
Proof. exact ub_disjoint. Qed.
Print Assumptions C03_sibling_subtrees_disjoint.

(* EVERY _execute pass terminates: from the head of wait_for with the awaited task uncomputed - the start of
   the first pass or the configuration right after a flush - the machine reaches the end of the pass
   (MAfterExec) after finitely many steps, with an empty task stack *)
Theorem C03_every_pass_terminates_tree : forall P p n,
  pointwise P -> tree p ->
  let h := fst (create [] (FTask p) (st0 P)) in
  let s1 := snd (create [] (FTask p) (st0 P)) in
  (forall n, no_unwind P n (start h s1)) ->
  c_mode (run P n (start h s1)) = MWaitHead -> computed h (c_st (run P n (start h s1))) = false ->
  exists m, c_mode (run P (n + m) (start h s1)) = MAfterExec /\ tasks (c_st (run P (n + m) (start h s1))) = [].
Proof. exact every_pass_terminates_tree. Qed.
Print Assumptions C03_every_pass_terminates_tree.

(* TERMINATION with one hypothesis left besides the guard: the number of futures created is bounded *)
Theorem C03_terminates_if_allocation_bounded_tree : forall P p N,
  pointwise P -> tree p ->
  let h := fst (create [] (FTask p) (st0 P)) in
  let s1 := snd (create [] (FTask p) (st0 P)) in
  (forall n, no_unwind P n (start h s1)) ->
  (forall n, (top_next (c_st (run P n (start h s1))) <= Z.of_nat N)%Z) ->
  exists n, c_mode (run P n (start h s1)) = MDone (eval p).
Proof. exact terminates_if_allocation_bounded_tree. Qed.
Print Assumptions C03_terminates_if_allocation_bounded_tree.

(* non-vacuity for a program WITH batch items: c01_demo needs flushes (C03_termination_demos); the guard
   hypothesis and the allocation bound hold for EVERY fuel, and the theorem gives termination *)
Theorem C03_termination_demo_with_items :
  let P := mkP [] 1000 false [] in
  let h := fst (create [] (FTask c01_demo) (st0 P)) in
  let s1 := snd (create [] (FTask c01_demo) (st0 P)) in
  (forall n, no_unwind P n (start h s1)) /\ (forall n, (top_next (c_st (run P n (start h s1))) <= Z.of_nat 10)%Z) /\
  exists n, c_mode (run P n (start h s1)) = MDone (eval c01_demo).
Proof. exact c01_demo_terminates. Qed.
Print Assumptions C03_termination_demo_with_items.

(* ==== the allocation bound and UNCONDITIONAL termination (proofs/MachineC03N.v, proofs/MachineC03A.v) ==== *)
From Asynq Require Import proofs.MachineC03N proofs.MachineC03A.

(* nf p: the number of futures the sequential evaluation of p creates (along Seq.eval) *)
Theorem C03_nf_yield : forall s k, nf (Yield s k) = (list_sum (map nfl (leaves s)) + nf (k (unwrap leaf_out s)))%nat.
Proof. exact nf_yield. Qed.
Print Assumptions C03_nf_yield.

(* the machine creates no more futures than the sequential evaluation: while the run has not unwound, the id
   counter is at most 1 + nf p (the awaited task + the futures of the sequential evaluation).  Invariant: the
   id counter + the sum over the ids of the remaining allocation of each uncomputed task (nf of the program in
   MRun for the running task, nf of the generator applied to the specified outcome of the yielded structure
   for a suspended one) <= 1 + nf p; only Yield changes it (proofs/MachineC03A.v: gq, inst_W, j_step). *)
Theorem C03_allocation_bound_tree : forall P p n,
  pointwise P -> tree p ->
  let h := fst (create [] (FTask p) (st0 P)) in
  let s1 := snd (create [] (FTask p) (st0 P)) in
  (forall k, (k < n)%nat -> is_unwind (c_mode (run P k (start h s1))) = false) ->
  (top_next (c_st (run P n (start h s1))) <= Z.of_nat (1 + nf p))%Z.
Proof. exact alloc_bound_tree. Qed.
Print Assumptions C03_allocation_bound_tree.

(* TERMINATION of tree programs: the only hypothesis about the run is that the runaway guard never fires *)
Theorem C03_terminates_tree : forall P p,
  pointwise P -> tree p ->
  let h := fst (create [] (FTask p) (st0 P)) in
  let s1 := snd (create [] (FTask p) (st0 P)) in
  (forall n, no_unwind P n (start h s1)) ->
  exists n, c_mode (run P n (start h s1)) = MDone (eval p).
Proof. exact terminates_tree. Qed.
Print Assumptions C03_terminates_tree.

(* with MAX_TASK_STACK_SIZE at least 1 + nf p the guard never fires ... *)
Theorem C03_small_never_unwinds : forall P p,
  pointwise P -> tree p -> (Z.of_nat (1 + nf p) <= p_maxstack P)%Z ->
  forall n, no_unwind P n (start (fst (create [] (FTask p) (st0 P))) (snd (create [] (FTask p) (st0 P)))).
Proof. exact small_never_unwinds. Qed.
Print Assumptions C03_small_never_unwinds.

(* ... and TERMINATION holds with NO hypothesis about the run at all *)
Theorem C03_terminates_tree_small : forall P p,
  pointwise P -> tree p -> (Z.of_nat (1 + nf p) <= p_maxstack P)%Z ->
  exists n, c_mode (run P n (start (fst (create [] (FTask p) (st0 P))) (snd (create [] (FTask p) (st0 P))))) = MDone (eval p).
Proof. exact terminates_tree_small. Qed.
Print Assumptions C03_terminates_tree_small.

(* sanity: the demo programs' finished runs created exactly 1 + nf p futures *)
Theorem C03_nf_demos :
  let P := mkP [] 1000 false [] in
  (nf c01_demo = 4%nat /\ nf c03l_demo = 5%nat /\ nf c03t_demo = 4%nat) /\
  (top_next (c_st (run P 41 (start (fst (create [] (FTask c01_demo) (st0 P))) (snd (create [] (FTask c01_demo) (st0 P)))))) = Z.of_nat (1 + nf c01_demo)) /\
  (top_next (c_st (run P 80 (start (fst (create [] (FTask c03l_demo) (st0 P))) (snd (create [] (FTask c03l_demo) (st0 P)))))) = Z.of_nat (1 + nf c03l_demo)) /\
  (top_next (c_st (run P 36 (start (fst (create [] (FTask c03t_demo) (st0 P))) (snd (create [] (FTask c03t_demo) (st0 P)))))) = Z.of_nat (1 + nf c03t_demo)).
Proof. exact nf_demos. Qed.
Print Assumptions C03_nf_demos.

(* ==== the stree theorems WITHOUT an assumption about exceptions unwinding (proofs/MachineNoUnwind.v, MachineGuardFormsS.v) ====
   [no_unwind P n (start h s1)] is replaced by "the MAX_TASK_STACK_SIZE guard has not fired before step n"; also with
   synchronous calls FutureIsAlreadyComputed is proved unreachable (stree_no_unwind_iff_guard_silent), so the guard's
   RuntimeError is the only exception that can unwind through asynq's frames.  Binders and conclusions are those of
   the theorems of the same name without the suffix _guard. *)
From Asynq Require Import proofs.MachineNoUnwind proofs.MachineGuardFormsS.
Theorem C03_resumed_only_when_everything_awaited_is_done_stree_guard : forall P, pointwise P -> forall p, stree p -> forall n t,
  let h := fst (create [] (FTask p) (st0 P)) in
  let s1 := snd (create [] (FTask p) (st0 P)) in
  (forall k, (k < n)%nat -> guard_fires P (run P k (start h s1)) = false) ->
  c_mode (run P n (start h s1)) = MResume t ->
  exists tk, get t (c_st (run P n (start h s1))) = Some (mkFut None (KTask tk)) /\
    forall x, In (RFut x) (leaves (tk_last tk)) -> computed x (c_st (run P n (start h s1))) = true.
Proof. exact resume_guard_stree_guard. Qed.
Print Assumptions C03_resumed_only_when_everything_awaited_is_done_stree_guard.

Theorem C03_stree_resumes_are_guarded_guard : forall P p n,
  pointwise P -> stree p ->
  (forall k, (k < n)%nat -> guard_fires P (run P k
     (start (fst (create [] (FTask p) (st0 P))) (snd (create [] (FTask p) (st0 P))))) = false) ->
  resume_guarded P n (start (fst (create [] (FTask p) (st0 P))) (snd (create [] (FTask p) (st0 P)))).
Proof. exact stree_resume_guarded_guard. Qed.
Print Assumptions C03_stree_resumes_are_guarded_guard.

Theorem C03_no_step_after_done_stree_guard : forall P p n,
  pointwise P -> stree p ->
  (forall k, (k < n)%nat -> guard_fires P (run P k
     (start (fst (create [] (FTask p) (st0 P))) (snd (create [] (FTask p) (st0 P))))) = false) ->
  forall t i o l1 l2, snd (run_case P n [p]) = l1 ++ EvStep t i o :: l2 -> forall o', ~ In (EvDone t o') l1.
Proof. exact stree_no_step_after_done_guard. Qed.
Print Assumptions C03_no_step_after_done_stree_guard.
