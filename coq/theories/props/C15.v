(* C15 — fn.asyncio() under an event loop matches the asynq result.
   Only statements; every proof is `exact <lemma>`.
   drive / resolve / await_leaf / call_asyncio : the asyncio side (decorators.py, asynq_to_async.py);
   eval / unwrap : the asynq side.  o3 / f3 / t3 = outcome / flag afterwards / events of a run. *)
From Asynq Require Import Base Asyncio proofs.AsyncioProofs.

(* T1  for every program of the class (wf: no plain synchronous calls, explicit asyncio_fns agree
   with their asynq functions; continuations are arbitrary functions, so try/except at any level
   is covered), started with the flag on or off: same value or same exception instance, and the
   same calls complete with the same outcomes *)
Theorem C15_asyncio_eq_seq : forall p, wf p -> forall fl,
  o3 (drive p fl) = fst (eval p) /\ dones (t3 (drive p fl)) = dones (snd (eval p)).
Proof. exact eq_seq. Qed.
Print Assumptions C15_asyncio_eq_seq.

(* ... and for the root call itself (function, method, plain function, proxy, explicit asyncio_fn) *)
Theorem C15_asyncio_eq_seq_root : forall a fl, lwf wf a ->
  o3 (run_asyncio a fl) = fst (run_seq a) /\ dones (t3 (run_asyncio a fl)) = dones (snd (run_seq a)).
Proof. exact root_same. Qed.
Print Assumptions C15_asyncio_eq_seq_root.

(* T2  a yield that succeeds delivers the yielded structure with every leaf replaced by that
   leaf's own result: tuples stay tuples, lists lists, dicts keep their keys and order *)
Theorem C15_shape_kept : forall (s : ystruct (leaf prog)) fl v,
  o3 (resolve (await_leaf drive) s fl) = Ok v ->
  v = yval (ymap (fun a => value_of (o3 (await_leaf drive a fl))) s).
Proof. exact shape_kept. Qed.
Print Assumptions C15_shape_kept.

(* T3  for any structure: (a) what the yield delivers is unwrap of the leaves' own outcomes;
   (b) unwrap is the first failure in left-to-right structure order (a non-future counting as
   TypeError), else the value; (c) the trace of the yield is the complete trace of every leaf -
   each one runs to its end whatever the others do - in particular (d) every call yielded there
   has logged its completion; (e) only then is the generator resumed, once, with that outcome *)
Theorem C15_all_awaited_then_first_error : forall (s : ystruct (leaf prog)) k fl,
  let R := resolve (await_leaf drive) s fl in
  o3 R = unwrap (ymap (fun a => o3 (await_leaf drive a fl)) s) /\
  (forall so : ystruct outcome,
      unwrap so = match first_error (youts so) with Some e => Err e | None => Ok (yval (ymap value_of so)) end) /\
  t3 R = concat (map (fun a => t3 (await_leaf drive a fl)) (yleaves s)) /\
  (forall c p, In (LCall c p) (yleaves s) ->
               In (EvDone (cid c) (o3 (call_asyncio drive c p fl))) (t3 R)) /\
  drive (Yield s k) fl = (let R2 := drive (k (o3 R)) (f3 R) in (o3 R2, f3 R2, t3 R ++ t3 R2)).
Proof. exact all_awaited_then_first_error. Qed.
Print Assumptions C15_all_awaited_then_first_error.

(* T4  the flag after `await root.asyncio(args)` equals the flag before, for every root, every
   program (no wf needed) and every outcome; it is also unchanged after every step of the loop
   (so it is still on when the body goes on after a nested await); and while a converted
   coroutine runs, every body below it sees the flag on *)
Theorem C15_mode_confined :
  (forall a fl, f3 (run_asyncio a fl) = fl) /\
  (forall p fl, f3 (drive p fl) = fl) /\
  (forall a fl, converted_leaf a -> Forall ev_ok (t3 (run_asyncio a fl))).
Proof. exact mode_confined. Qed.
Print Assumptions C15_mode_confined.

(* T5  with the flag on, a plain synchronous call of an @asynq() function without
   allow_sync_call delivers RuntimeError to the caller and runs nothing of the callee; and in a
   whole run of a converted coroutine no plain synchronous call ever runs its callee (which is
   what would block the loop).  With allow_sync_call the code as written returns None. *)
Theorem C15_sync_call_refused :
  (forall a k, let r := drive (k (Err E_RUNTIME)) true in
               drive (Sync false a k) true = (o3 r, f3 r, EvSync SRefused :: t3 r)) /\
  (forall a fl, converted_leaf a -> ~ In (EvSync SRan) (t3 (run_asyncio a fl))) /\
  (forall a k, let r := drive (k (Ok VNone)) true in
               drive (Sync true a k) true = (o3 r, f3 r, EvSync SAllowed :: t3 r)).
Proof. exact sync_call_refused. Qed.
Print Assumptions C15_sync_call_refused.

(* T6  exception instances used as data.  Values include [VExc e], an exception instance that was
   *returned* (by a task, a ConstFuture, a proxy, an explicit asyncio_fn, or kept by an except clause),
   and T1-T3 above quantify over those programs too.  Spelled out: (a) _gather returns the results of
   members that all succeeded as they are, whatever they are; (b) if every member of a yielded
   structure finished successfully, the yield delivers the structure of their values - it does not
   raise; (c) conversely a yield raises e only if e is the TypeError of a non-future or some yielded
   member itself finished by raising e; (d) the minimal case `yield [f.asynq()]` with `return exc`
   in f; (e) the class is inhabited and both engines agree on it. *)
Theorem C15_exception_value_is_data :
  (forall vs, gather (map Ok vs) = inr vs) /\
  (forall (s : ystruct (leaf prog)) fl, has_bad s = false ->
      Forall (fun a => exists v, o3 (await_leaf drive a fl) = Ok v) (yleaves s) ->
      o3 (resolve (await_leaf drive) s fl) = Ok (yval (ymap (fun a => value_of (o3 (await_leaf drive a fl))) s))) /\
  (forall (s : ystruct (leaf prog)) fl e, o3 (resolve (await_leaf drive) s fl) = Err e ->
      e = E_TYPEERROR \/ exists a, In a (yleaves s) /\ o3 (await_leaf drive a fl) = Err e) /\
  (forall c e k fl, converted c ->
      drive (Yield (YList [YLeaf (LCall c (Ret (VExc e)))]) k) fl =
      (let r := drive (k (Ok (VList [VExc e]))) fl in
       (o3 r, f3 r, EvBody (cid c) true :: EvDone (cid c) (Ok (VExc e)) :: t3 r))) /\
  (wf ex_xprog /\ o3 (drive ex_xprog false) = fst (eval ex_xprog) /\
   fst (eval ex_xprog) = Ok (VTuple [VList [VExc 7; VTuple [VExc 8; VExc 9]]; VExc 5])).
Proof. exact exception_value_is_data. Qed.
Print Assumptions C15_exception_value_is_data.

(* the class is inhabited: a program with a failing child, an explicit asyncio_fn, a proxy, a dict,
   an except clause that yields again *)
Theorem C15_class_inhabited : wf ex_prog /\ o3 (drive ex_prog false) = Ok (VList [VInt 7]).
Proof. exact class_inhabited. Qed.
Print Assumptions C15_class_inhabited.

(* T8  re-entered functions.  [driveH] / [run_asyncioH] refine [drive] / [run_asyncio]: the token of
   `with AsyncioMode():` lives in an attribute of an AsyncioMode *object* on a heap that every Task of the
   loop shares (it is not copied with the context), and [fresh_inst] is the code's choice of object: a new
   one per activation (decorators.py:114, 137), whatever function the activation belongs to.  For every
   root and every program - in particular when one function is active several times at once: recursion,
   a function called again by one of its callees, several activations in one yielded list - (a)(b) the
   refined run IS the abstract run, so T1-T7 hold of it; (c)(d) running anything leaves every AsyncioMode
   object that existed before untouched (so each __exit__ finds the token of its own __enter__, and a
   suspended outer activation of the same function is not disturbed); (e) the flag after the await is
   the flag before; (f) spelled out for f(n) = `if n == 0: <bottom> else: r = yield f.asynq(n-1); return [r]`
   with any bottom (a value, a raise, any program) and any depth. *)
Theorem C15_reentrant_mode_confined :
  (forall a fl h, fst (run_asyncioH fresh_inst a fl h) = run_asyncio a fl) /\
  (forall p fl h, fst (driveH fresh_inst p fl h) = drive p fl) /\
  (forall a fl h, hext h (snd (run_asyncioH fresh_inst a fl h))) /\
  (forall p fl h, hext h (snd (driveH fresh_inst p fl h))) /\
  (forall a fl h, f3 (fst (run_asyncioH fresh_inst a fl h)) = fl) /\
  (forall bottom n fl h, f3 (fst (run_asyncioH fresh_inst (ex_rec_root bottom n) fl h)) = fl).
Proof. exact reentrant_mode_confined. Qed.
Print Assumptions C15_reentrant_mode_confined.

(* T9  the caller keeps running after `await root.asyncio(args)`.  Started with the flag off, for every
   root, outcome and heap: (a) a plain synchronous call g(args) made afterwards runs g on the scheduler and
   hands its own outcome to the continuation - no RuntimeError; (b) the same for any sequence of such
   calls (what the correspondence runs).  (c) started with the flag on (the caller is itself inside
   asyncio mode), the calls are still refused afterwards. *)
Theorem C15_caller_continues :
  (forall a h g k,
      drive (Sync false g k) (f3 (fst (run_asyncioH fresh_inst a false h))) =
      (let r2 := drive (k (fst (eval_leaf eval g))) false in
       (o3 r2, f3 r2, EvSync SRan :: snd (eval_leaf eval g) ++ t3 r2))) /\
  (forall a h ps,
      let xs := run_probes ps (f3 (fst (run_asyncioH fresh_inst a false h))) in
      map o3 xs = map (fun ap => fst (eval_leaf eval (snd ap))) ps /\
      Forall (fun x => In (EvSync SRan) (t3 x)) xs) /\
  (forall a h ps, Forall (fun ap => fst ap = false) ps ->
      Forall (fun x => o3 x = Err E_RUNTIME /\ t3 x = [EvSync SRefused])
             (run_probes ps (f3 (fst (run_asyncioH fresh_inst a true h))))).
Proof. exact caller_continues. Qed.
Print Assumptions C15_caller_continues.

(* the re-entered class is inhabited, and the per-activation object is what T8 rests on: with ONE
   AsyncioMode object per function ([per_function], not the code) the same recursive program of depth 2
   leaves the flag on after the await - with a value and with an exception - while depth 0 does not *)
Theorem C15_reentered_class_inhabited :
  f3 (fst (run_asyncioH (per_function (fun _ => O)) (ex_rec_root (Ret (VInt 1)) 2) false heap0)) = true /\
  f3 (fst (run_asyncioH (per_function (fun _ => O)) (ex_rec_root (Raise 7) 2) false heap0)) = true /\
  f3 (fst (run_asyncioH (per_function (fun _ => O)) (ex_rec_root (Ret (VInt 1)) 0) false heap0)) = false /\
  fst (run_asyncioH fresh_inst (ex_rec_root (Ret (VInt 1)) 2) false heap0)
  = (Ok (VList [VList [VInt 1]]), false,
     [EvBody 2 true; EvBody 1 true; EvBody 0 true; EvDone 0 (Ok (VInt 1)); EvDone 1 (Ok (VList [VInt 1]));
      EvDone 2 (Ok (VList [VList [VInt 1]]))]) /\
  o3 (fst (run_asyncioH fresh_inst (ex_rec_root (Raise 7) 3) false heap0)) = Err 7 /\
  f3 (fst (run_asyncioH fresh_inst (ex_rec_root (Raise 7) 3) false heap0)) = false.
Proof. exact ex_shared_instance_leaks. Qed.
Print Assumptions C15_reentered_class_inhabited.

(* T10 (round s8)  explicit asyncio_fns in the SUBTREE of a running coroutine.  [AfNative q]: the function comes
   with the user's own `async def` (body q: plain synchronous calls, `await g.asyncio(..)`, return / raise);
   `.asyncio()` calls it as it is - it does not enter AsyncioMode - so what q sees is the flag of its awaiter, and the
   flag of a converted coroutine stays on around `await resolve_awaitables(..)` (T3: every leaf of a yield is awaited
   with the flag of the yielding body; T4: that flag is unchanged after every step).  (a) awaited where the flag is
   on, a plain synchronous call `g(args)` in q gets RuntimeError, nothing of g runs, q goes on with the exception;
   (b) for ANY converted parent (function or method, started with the flag on or off), any yielded structure and
   any position of such a child in it (alone, in a tuple / list / dict at any depth): the child's body sees the flag
   on, its call is refused, no plain synchronous call runs a callee anywhere in the parent's run, and the flag after
   the parent equals the flag before; (c) at any depth: every body below a converted root - explicit asyncio_fns
   included - sees the flag on and no plain synchronous call runs (ev_ok); (d) conversely, awaited from a context
   outside asyncio mode the same call runs its callee (the observation tells the two apart); (e) the class is
   inhabited (dict of list + bare, a method parent), by computation; (f) an explicit asyncio_fn that awaits
   `g.asyncio()` where the asynq body yields `g.asynq()` is inside T1's class [wf]. *)
Theorem C15_explicit_asyncio_fn_in_subtree :
  (forall c p g k, cafn c = AfNative (Sync false g k) ->
      call_asyncio drive c p true =
      (let r := drive (k (Err E_RUNTIME)) true in
       (o3 r, f3 r, EvBody (cid c) true :: EvSync SRefused :: t3 r ++ [EvDone (cid c) (o3 r)]))) /\
  (forall c0 s k0 fl c p g k,
      converted c0 -> In (LCall c p) (yleaves s) -> cafn c = AfNative (Sync false g k) ->
      let R := call_asyncio drive c0 (Yield s k0) fl in
      In (EvBody (cid c) true) (t3 R) /\ In (EvSync SRefused) (t3 R) /\ ~ In (EvSync SRan) (t3 R) /\ f3 R = fl) /\
  (forall a fl, converted_leaf a -> Forall ev_ok (t3 (run_asyncio a fl))) /\
  (forall c p g k, cafn c = AfNative (Sync false g k) ->
      In (EvBody (cid c) false) (t3 (call_asyncio drive c p false)) /\
      In (EvSync SRan) (t3 (call_asyncio drive c p false))) /\
  (o3 (run_asyncio ex_native_root false)
   = Ok (VDict [(0%Z, VList [VTuple [VInt 1; VInt E_RUNTIME]; VNone]); (1%Z, VTuple [VInt 1; VInt E_RUNTIME])]) /\
   fst (run_seq ex_native_root)
   = Ok (VDict [(0%Z, VList [VTuple [VInt 0; VInt 1]; VNone]); (1%Z, VTuple [VInt 0; VInt 1])]) /\
   o3 (run_asyncio (ex_sync_child 2) false) = Ok (VTuple [VInt 0; VInt 1]) /\
   o3 (run_asyncio (ex_sync_child 2) true) = Ok (VTuple [VInt 1; VInt E_RUNTIME])) /\
  (wf ex_await_prog /\ o3 (drive ex_await_prog false) = Ok (VTuple [VList [VInt 3]; VNone])).
Proof. exact explicit_asyncio_fn_in_subtree. Qed.
Print Assumptions C15_explicit_asyncio_fn_in_subtree.
