(* C06 — an AsyncContext is active exactly while its task, or work it awaits, runs.
   Statements only; proofs in proofs/MachineDFS.v (flags), proofs/MachineC06T.v (resume/pause trace),
   proofs/MachineDFSS.v (flags and trace for programs with SYNCHRONOUS CALLS, statements (8)-(16)) and
   proofs/MachineC06S.v (ALTERNATION of the resume/pause events for programs with synchronous calls, statements
   (17)-(30) at the end).
   The model keeps, per task, the flag _contexts_active; _resume_contexts/_pause_contexts flip it and call
   resume()/pause() on every open context of the task, so the flag IS the state of the task's contexts between
   enter and exit.  An AsyncContext with id cid in task t logs EvResume t cid at every resume() (on entry:
   enter_ctx; by the scheduler: resume1) and EvPause t cid at every pause() (on exit: pause_plain in exit_ctx;
   by the scheduler: pause1).  [ctx_events t cid tr] is the list of these two events of the key (t, cid) in the
   newest-first trace tr, OLDEST first; [alternates t cid true l] says l is resume, pause, resume, ... starting
   with a resume; [filter (evk t cid) tr] is the same list newest first.

   PROVED, for every pointwise service P (no flush body raises half way), every flush order/priorities/fuel n, as long
   as no exception unwound through asynq's frames (no_unwind: the MAX_TASK_STACK_SIZE guard did not fire):
   for yield-only tree programs (tree p: plain AsyncContexts whose resume/pause do not raise, and scoped overrides):
   (1) C06_contexts_paused_at_every_flush_tree: at the end of every _execute pass, hence at every scheduler flush,
       no uncompleted task has active contexts;
   (2) C06_contexts_active_while_own_code_runs_tree: while a task's body runs its contexts are active and any other
       uncompleted task with active contexts is still on the scheduler's stack;
   and for tree programs whose with-blocks are well nested (wn [] p: every with-block is closed on every exit path -
   normal end, exception, early result - innermost first; contexts open at the same time in one task have distinct
   ids; an id may be re-used after its block was left):
   (3) C06_resume_pause_alternate (A1), also as C06_run_case_resume_pause_alternate on the chronological trace of
       Machine.run_case: for every task t and context id cid the resume/pause events of (t, cid) strictly alternate,
       starting with a resume - at every point of the run, across suspensions, batch flushes and re-use of the id;
   (4) C06_newest_is_resume_iff_active: at every reachable configuration the newest event of (t, cid) is a resume
       exactly when t is an uncompleted task with _contexts_active set and an AsyncContext cid open (the invariant
       from which the others follow);
   (5) C06_all_paused_at_flush_and_end (A2): at every flush point (MAfterExec) and when the outermost call has returned
       (MDone o, value or error) the newest event of every (t, cid) that has any event is a pause;
   (6) C06_resumed_while_own_code_runs (A3): while the body of t runs, the newest event of every AsyncContext that t
       has open is a resume;
   (7) C06_resumed_only_in_awaiting_tasks: while the body of t runs, a context of a task u whose newest event is a
       resume belongs to u = t or to a task that awaits t (t is reachable from u through the dependency lists of
       uncompleted tasks, MachineC04.reach): a context is paused whenever a task its owner is not awaiting runs.
   FIRST REFUTED, THEN REPAIRED: statement (3) for ALL programs with well-nested with-blocks, i.e. also for
   NonAsyncContext and contexts whose pause()/resume() raise (MachineC06T.alternation_all_contexts_statement), was
   refuted in the first version of the model: with a NonAsyncContext nested inside an AsyncContext in a task that
   blocks, _pause_contexts paused the AsyncContext, the NonAsyncContext's assertion error was delivered through
   _accept_error, generator.close() ran the with-blocks' __exit__, and the AsyncContext was paused a second time:
   resume, pause, pause (a single AsyncContext whose scheduler-driven pause() raises gave the same).  The witness
   reproduced on the implementation (known finding C06:alternation / double-pause) and was repaired in /repo
   ("fix: AsyncContext.__exit__ does not pause a context twice"); Machine.exit_ctx follows the repaired code and
   C06_former_witnesses_alternate shows by vm_compute that the former witnesses now alternate.  The general statement
   beyond tree programs is now neither proved nor refuted.
   PROVED FOR TREE PROGRAMS WITH SYNCHRONOUS CALLS (MachineC01S.stree: tree programs in which a task body may also call
   another @asynq function synchronously, fn(args) = fn.asynq(args).value() = Let (FTask q) (fun h => Sync h k), nested
   to any depth; the call runs a NESTED scheduler loop below the caller's frames on the same task stack), same
   hypotheses (pointwise P, no_unwind), on the flags (_contexts_active = tk_cact, _dependencies_scheduled = tk_ds);
   fvals fr = the callers that are inside value() (owners of the FValue frames of fr), MachineDFSS.stk ts fr = "the
   task stack ts decomposes along the levels of fr: empty at FTop, and  t :: rest ++ below  with length below = i at a
   level  FValue t k :: FCont t old :: FExec i :: FWait r :: fr'":
   (8)  C06_contexts_at_every_flush_stree (F1): at the end of every _execute pass (= every scheduler flush), of the
        outermost loop or of a loop nested in synchronous calls: the stack is exactly what the enclosing levels own (stk:
        the segment of the finished pass is empty, the height is the one recorded by the callers' _execute frames); every
        caller inside value() is an uncompleted task with ACTIVE contexts (it is not paused around the flush: "including
        synchronous calls it makes"); every other uncompleted task with tk_cact or tk_ds set is on that stack - at or
        below the innermost caller -, has tk_cact set and has tk_ds set (it is suspended at a yield with its
        dependencies scheduled); hence every uncompleted task that is not on the stack is paused.
        C06_contexts_at_nested_flush_stree spells this out for frames  FWait r :: FValue t k :: ... .
   (9)  C06_contexts_paused_at_outer_flush_stree (F3): at a flush issued by the outermost loop (no caller inside value())
        the stack is empty and no uncompleted task has tk_cact or tk_ds set - statement (1) for every stree program;
        C06_contexts_paused_at_every_flush_tree_rederived: (1) itself follows (tree programs never enter value()).
   (10) C06_contexts_active_while_own_code_runs_stree (F2): while the body of t runs, t is on top of the stack, t and
        EVERY caller suspended in a synchronous call that led to t's code have active contexts, and every other
        uncompleted task with active contexts is on the stack and has tk_ds set.
   (11) C06_callers_stay_resumed_inside_value: at EVERY non-final configuration of the run every caller inside value()
        is an uncompleted task with active contexts.
   (12) C06_contexts_untouched_inside_value (trace): over any stretch of the run during which t stays inside value() the
        trace gains no EvResume/EvPause event of any context of t (MachineDFSS.cevt t = those events, newest first).
   (13) C06_all_paused_at_end_stree: when the outermost call has returned the stack is empty and no uncompleted task has
        tk_cact or tk_ds set.
   REFUTED for stree (14) C06_paused_at_every_flush_stree_is_false: "at every flush no uncompleted task other than the
        callers inside value() has active contexts" (MachineDFSS.contexts_paused_at_every_flush_stree_statement, i.e.
        (1) with the exception the property text itself demands) is FALSE.  Witness c06s_demo, step 31: root [0] holds
        ctx 0 and awaits caller [2]; [2] holds ctx 1 and calls callee [4] synchronously; [4] blocks on a batch item;
        the loop nested below [2] flushes the batch while [0] - SUSPENDED AT ITS YIELD - still has its contexts resumed
        (tk_cact = tk_ds = true).  This is what scheduler.py does: value() -> wait_for -> _execute -> _continue_with_batch
        run inside [2]'s _continue_with_task, nobody pauses the tasks that are grey on the stack below.  By the clause
        "resumed whenever tasks that only it is awaiting run ... including synchronous calls" this is the intended
        behaviour; the clause "paused whenever a batch is flushed while the task is suspended" read literally is
        violated (candidate finding: the two clauses of the property conflict for the awaiting ancestors of a
        synchronous caller; the strongest true statement is (8)).
   (15)/(16) non-vacuity: C06_stree_hypotheses_are_met (the run of c06s_demo with its flags at the nested flush and its
        events: the sibling's context is paused before the flush, the caller's and the root's are not),
        C06_stree_caller_is_quiet (the hypothesis of (12) holds for caller [2] from step 21 to step 40).
   ALTERNATION FOR TREE PROGRAMS WITH SYNCHRONOUS CALLS (proofs/MachineC06S.v; pointwise P, no_unwind, stree p and
   wns [] p).  MachineC07.wn has no case for a synchronous call - (27) C06_wn_stree_is_tree: a program that is wn and
   stree is a yield-only tree program - so the well-nestedness hypothesis is MachineC06S.wns = wn plus the case
   wns op (Let (FTask q) (fun h => Sync h k))  when  wns [] q  and  wns op (k o)  for every o  ((26) C06_wn_implies_wns;
   (28) C06_resume_pause_alternate_stree_wn is the literal port with wn, a corollary that adds nothing to (3)).
   The invariant TO of MachineC06T is carried over MachineDFSS.FLS through nested scheduler loops of any depth:
   (17) C06_resume_pause_alternate_stree (A1), (18) C06_run_case_resume_pause_alternate_stree on the chronological
        trace of Machine.run_case: for every task t and context id cid the resume/pause events of (t, cid) strictly
        alternate, starting with a resume, at every point of the run - also for the contexts of callers that are
        inside value() while nested loops run and flush, for contexts opened by callees, and across re-use of an id;
   (19) C06_newest_is_resume_iff_active_stree: the newest event of (t, cid) is a resume exactly when t is an
        uncompleted task with _contexts_active set and an AsyncContext cid open (statement (4) for stree);
   (20) C06_all_paused_at_end_stree_trace (A2, end): when the outermost call has returned the newest event of every key
        that has an event is a pause ("ending with pause");
   (21) C06_resumed_at_flush_stree (A2, flush): at the end of every _execute pass (outermost or nested) a key whose
        newest event is a resume belongs to a task that is ON the scheduler's stack and is a caller inside value() or
        has tk_ds set; (22) C06_all_paused_at_outer_flush_stree_trace: at a flush of the outermost loop every key is
        paused (statement (5) for stree, outer flushes);
   (23) C06_resumed_while_code_runs_stree (A3): while the body of t runs every AsyncContext open in t AND in every caller
        suspended in a synchronous call that led to t's code has a resume as newest event; (24)
        C06_caller_contexts_resumed_stree: the same for the callers at EVERY non-final configuration (inside nested
        loops and flushes); (25) C06_resumed_only_on_stack_stree: while t runs a key whose newest event is a resume
        belongs to t, to a caller inside value(), or to a task on the stack with tk_ds set;
   REFUTED (29) C06_all_paused_at_every_flush_stree_trace_is_false: statement (5) for every flush, even with the callers
        inside value() excepted, is false for stree (witness c06n_demo, step 39: a loop nested two calls deep flushes
        while the root's context 0 is resumed) - the trace form of (14); (21)/(22) are the true variants;
   (30) C06_stree_alternation_hypotheses_are_met / C06_stree_alternation_demo_is_not_tree: non-vacuity (c06n_demo: calls
        nested two deep, contexts in callers and callees, an id re-used inside a caller; all events of the run; the
        program is stree and wns but neither tree nor wn).
   WITHOUT THE HYPOTHESIS no_unwind (end of the file; proofs/MachineNoUnwind.v, MachineGuardForms.v): the tree-
   program theorems are stated again as C06_contexts_paused_at_every_flush_tree_guard,
   C06_contexts_active_while_own_code_runs_tree_guard, C06_resume_pause_alternate_guard,
   C06_run_case_resume_pause_alternate_guard, C06_newest_is_resume_iff_active_guard,
   C06_all_paused_at_flush_and_end_guard, C06_resumed_while_own_code_runs_guard,
   C06_resumed_only_in_awaiting_tasks_guard. These forms need no assumption about exceptions unwinding:
   FutureIsAlreadyComputed is proved unreachable for tree programs, so only the runaway guard's RuntimeError can
   unwind through asynq's frames, and the hypothesis "the guard has not fired before step n" (forall k < n,
   guard_fires P (run P k c0) = false; guard_fires is the boolean test at the head of the _execute loop) is a
   decidable condition on the run.
   NOT PROVED: for stree programs - that a task with tk_ds set on the stack AWAITS the running task / the caller (the
   layer structure of MachineC04/C07 is not ported to the stree invariant, so (7) and its converse are open there; (21)
   and (25) say "on the stack with tk_ds set" instead of "awaits"); programs outside tree/stree/wn/wns - Sync on an
   existing handle (LOld / value() of a shared future), ReadVar/Probe branching, shared futures (DAGs), with-blocks
   left open when a task ends, contexts whose resume()/pause() raise, NonAsyncContext (three runs computed in
   C06_former_witnesses_alternate; nothing proved), non-pointwise services, runs in which the task-stack guard fired;
   the converse of (7) (every awaiting task's contexts ARE resumed while t runs) is only proved for t itself (6) and for
   the suspended callers (10) - for ancestors it follows from MachineC07's layer structure but is not stated here.
   These are covered by the correspondence harness + monitors.
   WITHOUT THE HYPOTHESIS no_unwind FOR stree PROGRAMS (end of the file; proofs/MachineGuardFormsS.v): the stree
   theorems whose hypothesis is no_unwind P n (start h s1) are restated with "the MAX_TASK_STACK_SIZE guard has not
   fired before step n" in its place (MachineNoUnwind.stree_no_unwind_iff_guard_silent):
   C06_contexts_at_every_flush_stree_guard, C06_contexts_at_nested_flush_stree_guard,
   C06_contexts_paused_at_outer_flush_stree_guard, C06_contexts_active_while_own_code_runs_stree_guard,
   C06_callers_stay_resumed_inside_value_guard, C06_contexts_untouched_inside_value_guard,
   C06_all_paused_at_end_stree_guard, C06_resume_pause_alternate_stree_guard,
   C06_run_case_resume_pause_alternate_stree_guard, C06_newest_is_resume_iff_active_stree_guard,
   C06_all_paused_at_end_stree_trace_guard, C06_resumed_at_flush_stree_guard,
   C06_all_paused_at_outer_flush_stree_trace_guard, C06_resumed_while_code_runs_stree_guard,
   C06_caller_contexts_resumed_stree_guard, C06_resumed_only_on_stack_stree_guard,
   C06_resume_pause_alternate_stree_wn_guard. *)
From Asynq Require Import Machine Seq proofs.MachineC08 proofs.MachineC01 proofs.MachineDFS proofs.MachineC04
     proofs.MachineC07 proofs.MachineC06T proofs.MachineC06X.

Theorem C06_contexts_paused_at_every_flush_tree : forall P, pointwise P -> forall p, tree p -> forall n,
  let h := fst (create [] (FTask p) (st0 P)) in
  let s1 := snd (create [] (FTask p) (st0 P)) in
  no_unwind P n (start h s1) -> c_mode (run P n (start h s1)) = MAfterExec ->
  forall u tk, get u (c_st (run P n (start h s1))) = Some (mkFut None (KTask tk)) ->
    tk_cact tk = false /\ tk_ds tk = false.
Proof. exact contexts_paused_at_flush_tree. Qed.
Print Assumptions C06_contexts_paused_at_every_flush_tree.

Theorem C06_contexts_active_while_own_code_runs_tree : forall P, pointwise P -> forall p, tree p -> forall n t q,
  let h := fst (create [] (FTask p) (st0 P)) in
  let s1 := snd (create [] (FTask p) (st0 P)) in
  no_unwind P n (start h s1) -> c_mode (run P n (start h s1)) = MRun t q ->
  (exists tk, get t (c_st (run P n (start h s1))) = Some (mkFut None (KTask tk)) /\ tk_cact tk = true) /\
  (forall u tk, get u (c_st (run P n (start h s1))) = Some (mkFut None (KTask tk)) -> tk_cact tk = true ->
     In u (tasks (c_st (run P n (start h s1))))).
Proof. exact contexts_active_while_running_tree. Qed.
Print Assumptions C06_contexts_active_while_own_code_runs_tree.

(* A1 *)
Theorem C06_resume_pause_alternate : forall P, pointwise P -> forall p, tree p -> wn [] p -> forall n t cid,
  let h := fst (create [] (FTask p) (st0 P)) in
  let s1 := snd (create [] (FTask p) (st0 P)) in
  no_unwind P n (start h s1) ->
  alternates t cid true (ctx_events t cid (trace (c_st (run P n (start h s1))))).
Proof. exact resume_pause_alternate_tree. Qed.
Print Assumptions C06_resume_pause_alternate.

Theorem C06_run_case_resume_pause_alternate : forall P p n t cid,
  pointwise P -> tree p -> wn [] p ->
  no_unwind P n (start (fst (create [] (FTask p) (st0 P))) (snd (create [] (FTask p) (st0 P)))) ->
  alternates t cid true (filter (evk t cid) (snd (run_case P n [p]))).
Proof. exact run_case_resume_pause_alternate. Qed.
Print Assumptions C06_run_case_resume_pause_alternate.

(* the invariant *)
Theorem C06_newest_is_resume_iff_active : forall P, pointwise P -> forall p, tree p -> wn [] p -> forall n t cid,
  let h := fst (create [] (FTask p) (st0 P)) in
  let s1 := snd (create [] (FTask p) (st0 P)) in
  no_unwind P n (start h s1) ->
  let s := c_st (run P n (start h s1)) in
  (exists rest, filter (evk t cid) (trace s) = EvResume t cid :: rest) <->
  (exists tk f, get t s = Some (mkFut None (KTask tk)) /\ tk_cact tk = true /\ In (CAsync cid f) (tk_ctxs tk)).
Proof. exact newest_is_resume_iff_active_tree. Qed.
Print Assumptions C06_newest_is_resume_iff_active.

(* A2 *)
Theorem C06_all_paused_at_flush_and_end : forall P, pointwise P -> forall p, tree p -> wn [] p -> forall n t cid,
  let h := fst (create [] (FTask p) (st0 P)) in
  let s1 := snd (create [] (FTask p) (st0 P)) in
  no_unwind P n (start h s1) ->
  (c_mode (run P n (start h s1)) = MAfterExec \/ exists o, c_mode (run P n (start h s1)) = MDone o) ->
  match filter (evk t cid) (trace (c_st (run P n (start h s1)))) with [] => True | e :: _ => e = EvPause t cid end.
Proof. exact all_paused_at_flush_and_end_tree. Qed.
Print Assumptions C06_all_paused_at_flush_and_end.

(* A3 *)
Theorem C06_resumed_while_own_code_runs : forall P, pointwise P -> forall p, tree p -> wn [] p -> forall n t q,
  let h := fst (create [] (FTask p) (st0 P)) in
  let s1 := snd (create [] (FTask p) (st0 P)) in
  no_unwind P n (start h s1) -> c_mode (run P n (start h s1)) = MRun t q ->
  let s := c_st (run P n (start h s1)) in
  forall tk, get t s = Some (mkFut None (KTask tk)) -> forall cid f, In (CAsync cid f) (tk_ctxs tk) ->
    exists rest, filter (evk t cid) (trace s) = EvResume t cid :: rest.
Proof. exact resumed_while_own_code_runs_tree. Qed.
Print Assumptions C06_resumed_while_own_code_runs.

Theorem C06_resumed_only_in_awaiting_tasks : forall P, pointwise P -> forall p, tree p -> wn [] p -> forall n t q u cid,
  let h := fst (create [] (FTask p) (st0 P)) in
  let s1 := snd (create [] (FTask p) (st0 P)) in
  no_unwind P n (start h s1) -> c_mode (run P n (start h s1)) = MRun t q ->
  let s := c_st (run P n (start h s1)) in
  (exists rest, filter (evk u cid) (trace s) = EvResume u cid :: rest) -> reach s u t.
Proof. exact resumed_only_in_awaiting_tasks_tree. Qed.
Print Assumptions C06_resumed_only_in_awaiting_tasks.

(* the programs that refuted the unrestricted alternation statement before the repair now alternate *)
Example C06_former_witnesses_alternate :
  let P := mkP [] 1000 false [] in
  let ev p := let h := fst (create [] (FTask p) (st0 P)) in
              let s1 := snd (create [] (FTask p) (st0 P)) in
              (no_unwind_b P 100 (start h s1), c_mode (run P 100 (start h s1)),
               ctx_events [0] 1 (trace (c_st (run P 100 (start h s1))))) in
  wn [] c06_cx /\
  ev c06_cx = (true, MDone (Err E_NONASYNC), [EvResume [0] 1; EvPause [0] 1]) /\
  ev (c06_cx_one (CAsync 1 (PauseRaises 1 77))) = (true, MDone (Err 77), [EvResume [0] 1; EvPause [0] 1]) /\
  ev (c06_cx_one (CAsync 1 (ResumeRaises 1 77))) =
    (true, MDone (Err 77), [EvResume [0] 1; EvPause [0] 1; EvResume [0] 1; EvPause [0] 1]).
Proof. exact c06_former_witnesses_alternate. Qed.
Print Assumptions C06_former_witnesses_alternate.

(* non-vacuity: the parent's AsyncContext 1 is resumed and paused four times (entry, two suspensions around batch
   flushes, exit and re-entry with the same id, exit), the child's context 1 twice; the run ends with a value *)
Example C06_hypotheses_are_met :
  let P := mkP [] 1000 false [] in
  let h := fst (create [] (FTask c06_demo) (st0 P)) in
  let s1 := snd (create [] (FTask c06_demo) (st0 P)) in
  let tr_at k := trace (c_st (run P k (start h s1))) in
  let R t := EvResume t 1 in let Z t := EvPause t 1 in
  tree c06_demo /\ wn [] c06_demo /\ no_unwind_b P 200 (start h s1) = true /\
  c_mode (run P 200 (start h s1)) = MDone (Ok (VInt 6)) /\
  ctx_events [0] 1 (tr_at 200%nat) = [R [0]; Z [0]; R [0]; Z [0]; R [0]; Z [0]; R [0]; Z [0]] /\
  ctx_events [1] 1 (tr_at 200%nat) = [R [1]; Z [1]; R [1]; Z [1]].
Proof. exact c06_demo_runs. Qed.
Print Assumptions C06_hypotheses_are_met.

(* A context whose pause() RAISES WHEN __exit__ MAKES IT (harness fault {"exit": e}; proofs/MachineC06X.v): for the model
   this is a program whose Exit continuation is the error continuation on every exit path (Exit c (Raise e), or
   Exit c (handler e) under a try) - a tree program with well-nested with-blocks, so (3)-(7) above apply: the pause made
   on exit is the LAST event of the context also when it raised and the task, having caught the error, is suspended for
   further flushes.  Non-vacuity on the minimal instance (block spans a suspension, exit fault 7 caught, one more yield of a
   batch item): two flushes, the caught error is returned, and the context has exactly resume, pause, resume, pause. *)
Example C06_exit_time_pause_fault_is_in_the_proved_class :
  let P := mkP [] 1000 false [] in
  let h := fst (create [] (FTask c06x_demo) (st0 P)) in
  let s1 := snd (create [] (FTask c06x_demo) (st0 P)) in
  let tr := trace (c_st (run P 200 (start h s1))) in
  tree c06x_demo /\ wn [] c06x_demo /\ pointwise P /\ no_unwind_b P 200 (start h s1) = true /\
  c_mode (run P 200 (start h s1)) = MDone (Ok (VTuple [VInt (-999); VInt 7])) /\
  length (filter (fun e => match e with EvFlush _ _ _ => true | _ => false end) tr) = 2%nat /\
  ctx_events [0] 1 tr = [EvResume [0] 1; EvPause [0] 1; EvResume [0] 1; EvPause [0] 1].
Proof. exact c06x_demo_runs. Qed.
Print Assumptions C06_exit_time_pause_fault_is_in_the_proved_class.

(* ------------------------------------------------------------------ tree programs with synchronous calls *)
From Asynq Require Import proofs.MachineC01S proofs.MachineDFSS.

(* F1 *)
Theorem C06_contexts_at_every_flush_stree : forall P, pointwise P -> forall p, stree p -> forall n,
  let h := fst (create [] (FTask p) (st0 P)) in
  let s1 := snd (create [] (FTask p) (st0 P)) in
  no_unwind P n (start h s1) -> c_mode (run P n (start h s1)) = MAfterExec ->
  let c := run P n (start h s1) in
  exists r vs, c_frames c = FWait r :: vs /\ stk (tasks (c_st c)) vs /\
    (forall t, In t (fvals vs) -> exists tk, get t (c_st c) = Some (mkFut None (KTask tk)) /\ tk_cact tk = true) /\
    (forall u tk, get u (c_st c) = Some (mkFut None (KTask tk)) -> tk_cact tk = true \/ tk_ds tk = true ->
       In u (tasks (c_st c)) /\ tk_cact tk = true /\ (In u (fvals vs) \/ tk_ds tk = true)).
Proof. exact flush_stree. Qed.
Print Assumptions C06_contexts_at_every_flush_stree.

Theorem C06_contexts_at_nested_flush_stree : forall P, pointwise P -> forall p, stree p -> forall n r t k fr',
  let h := fst (create [] (FTask p) (st0 P)) in
  let s1 := snd (create [] (FTask p) (st0 P)) in
  no_unwind P n (start h s1) -> c_mode (run P n (start h s1)) = MAfterExec ->
  c_frames (run P n (start h s1)) = FWait r :: FValue t k :: fr' ->
  let s := c_st (run P n (start h s1)) in
  exists old i r' vs rest below,
    fr' = FCont t old :: FExec i :: FWait r' :: vs /\ tasks s = t :: rest ++ below /\ length below = i /\
    stk below vs /\
    (exists tk, get t s = Some (mkFut None (KTask tk)) /\ tk_cact tk = true) /\
    (forall u tk, get u s = Some (mkFut None (KTask tk)) -> tk_cact tk = true \/ tk_ds tk = true ->
       (u = t \/ In u (rest ++ below)) /\ tk_cact tk = true /\ (u = t \/ In u (fvals vs) \/ tk_ds tk = true)).
Proof. exact nested_flush_stree. Qed.
Print Assumptions C06_contexts_at_nested_flush_stree.

(* F3 *)
Theorem C06_contexts_paused_at_outer_flush_stree : forall P, pointwise P -> forall p, stree p -> forall n,
  let h := fst (create [] (FTask p) (st0 P)) in
  let s1 := snd (create [] (FTask p) (st0 P)) in
  no_unwind P n (start h s1) -> c_mode (run P n (start h s1)) = MAfterExec ->
  fvals (c_frames (run P n (start h s1))) = [] ->
  tasks (c_st (run P n (start h s1))) = [] /\
  forall u tk, get u (c_st (run P n (start h s1))) = Some (mkFut None (KTask tk)) ->
    tk_cact tk = false /\ tk_ds tk = false.
Proof. exact outer_flush_stree. Qed.
Print Assumptions C06_contexts_paused_at_outer_flush_stree.

Theorem C06_contexts_paused_at_every_flush_tree_rederived : forall P p n, pointwise P -> tree p ->
  let h := fst (create [] (FTask p) (st0 P)) in
  let s1 := snd (create [] (FTask p) (st0 P)) in
  no_unwind P n (start h s1) -> c_mode (run P n (start h s1)) = MAfterExec ->
  forall u tk, get u (c_st (run P n (start h s1))) = Some (mkFut None (KTask tk)) ->
    tk_cact tk = false /\ tk_ds tk = false.
Proof. exact contexts_paused_at_flush_tree_again. Qed.
Print Assumptions C06_contexts_paused_at_every_flush_tree_rederived.

(* F2 *)
Theorem C06_contexts_active_while_own_code_runs_stree : forall P, pointwise P -> forall p, stree p -> forall n t q,
  let h := fst (create [] (FTask p) (st0 P)) in
  let s1 := snd (create [] (FTask p) (st0 P)) in
  no_unwind P n (start h s1) -> c_mode (run P n (start h s1)) = MRun t q ->
  let c := run P n (start h s1) in
  (exists rest, tasks (c_st c) = t :: rest) /\
  (forall x, x = t \/ In x (fvals (c_frames c)) ->
     exists tk, get x (c_st c) = Some (mkFut None (KTask tk)) /\ tk_cact tk = true) /\
  (forall u tk, get u (c_st c) = Some (mkFut None (KTask tk)) -> tk_cact tk = true ->
     In u (tasks (c_st c)) /\ (u = t \/ In u (fvals (c_frames c)) \/ tk_ds tk = true)).
Proof. exact running_stree. Qed.
Print Assumptions C06_contexts_active_while_own_code_runs_stree.

Theorem C06_callers_stay_resumed_inside_value : forall P, pointwise P -> forall p, stree p -> forall n t,
  let h := fst (create [] (FTask p) (st0 P)) in
  let s1 := snd (create [] (FTask p) (st0 P)) in
  no_unwind P n (start h s1) -> is_final (c_mode (run P n (start h s1))) = false ->
  In t (fvals (c_frames (run P n (start h s1)))) ->
  exists tk, get t (c_st (run P n (start h s1))) = Some (mkFut None (KTask tk)) /\ tk_cact tk = true.
Proof. exact callers_stay_resumed. Qed.
Print Assumptions C06_callers_stay_resumed_inside_value.

Theorem C06_contexts_untouched_inside_value : forall P p n m t, pointwise P -> stree p ->
  let h := fst (create [] (FTask p) (st0 P)) in
  let s1 := snd (create [] (FTask p) (st0 P)) in
  no_unwind P (n + m) (start h s1) ->
  (forall k, (n <= k < n + m)%nat -> In t (fvals (c_frames (run P k (start h s1))))) ->
  cevt t (c_st (run P (n + m) (start h s1))) = cevt t (c_st (run P n (start h s1))).
Proof. exact contexts_untouched_inside_value. Qed.
Print Assumptions C06_contexts_untouched_inside_value.

Theorem C06_all_paused_at_end_stree : forall P, pointwise P -> forall p, stree p -> forall n o,
  let h := fst (create [] (FTask p) (st0 P)) in
  let s1 := snd (create [] (FTask p) (st0 P)) in
  no_unwind P n (start h s1) -> c_mode (run P n (start h s1)) = MDone o ->
  tasks (c_st (run P n (start h s1))) = [] /\
  forall u tk, get u (c_st (run P n (start h s1))) = Some (mkFut None (KTask tk)) ->
    tk_cact tk = false /\ tk_ds tk = false.
Proof. exact end_stree. Qed.
Print Assumptions C06_all_paused_at_end_stree.

(* the naive generalisation of (1) - even with the callers inside value() excepted - is false *)
Theorem C06_paused_at_every_flush_stree_is_false :
  ~ (forall P, pointwise P -> forall p, stree p -> forall n,
     let h := fst (create [] (FTask p) (st0 P)) in
     let s1 := snd (create [] (FTask p) (st0 P)) in
     no_unwind P n (start h s1) -> c_mode (run P n (start h s1)) = MAfterExec ->
     forall u tk, get u (c_st (run P n (start h s1))) = Some (mkFut None (KTask tk)) ->
       ~ In u (fvals (c_frames (run P n (start h s1)))) -> tk_cact tk = false /\ tk_ds tk = false).
Proof. exact contexts_paused_at_every_flush_stree_is_false. Qed.
Print Assumptions C06_paused_at_every_flush_stree_is_false.

(* non-vacuity: root [0] (ctx 0) awaits sibling [1] (ctx 2, blocks on a batch item) and caller [2] (ctx 1), which calls
   callee [4] synchronously; [4] blocks on an item of the same batch; the loop nested below [2] ends its pass at step 31
   and flushes: [2] is inside value() with ctx 1 resumed, [0] is grey with ctx 0 resumed, [1] is paused *)
Example C06_stree_hypotheses_are_met :
  let P := c06s_P in
  let h := fst (create [] (FTask c06s_demo) (st0 P)) in
  let s1 := snd (create [] (FTask c06s_demo) (st0 P)) in
  let c k := run P k (start h s1) in
  no_unwind_b P 100 (start h s1) = true /\
  c_mode (c 100%nat) = MDone (Ok (VTuple [VInt 5; VInt 7])) /\ evals c06s_demo = Ok (VTuple [VInt 5; VInt 7]) /\
  c_mode (c 31%nat) = MAfterExec /\ fvals (c_frames (c 31%nat)) = [[2%Z]] /\ tasks (c_st (c 31%nat)) = [[2%Z]; [0%Z]] /\
  uflags (c_st (c 31%nat)) = [([0%Z], (true, true)); ([1%Z], (false, false)); ([2%Z], (true, false)); ([4%Z], (false, false))] /\
  filter is_rp (rev (trace (c_st (c 32%nat)))) =
    [EvResume [0%Z] 0; EvResume [1%Z] 2; EvPause [1%Z] 2; EvResume [2%Z] 1; EvBefore 0 0; EvAfter 0 0] /\
  rev (trace (c_st (c 100%nat))) =
    [EvStep [0%Z] 0 (Ok VNone); EvResume [0%Z] 0;
     EvStep [1%Z] 0 (Ok VNone); EvResume [1%Z] 2; EvPause [1%Z] 2;
     EvStep [2%Z] 0 (Ok VNone); EvResume [2%Z] 1;
     EvStep [4%Z] 0 (Ok VNone);
     EvBefore 0 0; EvFlush 0 0 [[3%Z]; [5%Z]]; EvItemDone [3%Z] (Ok (VInt 5)); EvItemDone [5%Z] (Ok (VInt 7)); EvAfter 0 0;
     EvStep [4%Z] 1 (Ok (VInt 7)); EvDone [4%Z] (Ok (VInt 7)); EvGot [2%Z] (Ok (VInt 7));
     EvPause [2%Z] 1; EvDone [2%Z] (Ok (VInt 7));
     EvPause [0%Z] 0; EvResume [0%Z] 0; EvResume [1%Z] 2;
     EvStep [1%Z] 1 (Ok (VInt 5)); EvPause [1%Z] 2; EvDone [1%Z] (Ok (VInt 5));
     EvStep [0%Z] 1 (Ok (VTuple [VInt 5; VInt 7])); EvPause [0%Z] 0; EvDone [0%Z] (Ok (VTuple [VInt 5; VInt 7]))].
Proof. exact c06s_demo_runs. Qed.
Print Assumptions C06_stree_hypotheses_are_met.

Example C06_stree_demo_is_stree_and_pointwise : stree c06s_demo /\ pointwise c06s_P.
Proof. exact (conj c06s_demo_stree c06s_P_pointwise). Qed.
Print Assumptions C06_stree_demo_is_stree_and_pointwise.

Example C06_stree_caller_is_quiet :
  let P := c06s_P in
  let h := fst (create [] (FTask c06s_demo) (st0 P)) in
  let s1 := snd (create [] (FTask c06s_demo) (st0 P)) in
  let c k := run P k (start h s1) in
  forallb (fun k => existsb (fid_eqb [2%Z]) (fvals (c_frames (c k)))) (seq 21 20) = true /\
  cevt [2%Z] (c_st (c 21%nat)) = [EvResume [2%Z] 1] /\ cevt [2%Z] (c_st (c 41%nat)) = [EvResume [2%Z] 1] /\
  cevt [2%Z] (c_st (c 42%nat)) = [EvPause [2%Z] 1; EvResume [2%Z] 1].
Proof. exact c06s_demo_quiet. Qed.
Print Assumptions C06_stree_caller_is_quiet.

(* ------------------------------------------------------------------ alternation for tree programs with synchronous calls *)
From Asynq Require Import proofs.MachineC06S.

(* A1 *)
Theorem C06_resume_pause_alternate_stree : forall P, pointwise P -> forall p, stree p -> wns [] p -> forall n t cid,
  let h := fst (create [] (FTask p) (st0 P)) in
  let s1 := snd (create [] (FTask p) (st0 P)) in
  no_unwind P n (start h s1) ->
  alternates t cid true (ctx_events t cid (trace (c_st (run P n (start h s1))))).
Proof. exact resume_pause_alternate_stree. Qed.
Print Assumptions C06_resume_pause_alternate_stree.

Theorem C06_run_case_resume_pause_alternate_stree : forall P p n t cid,
  pointwise P -> stree p -> wns [] p ->
  no_unwind P n (start (fst (create [] (FTask p) (st0 P))) (snd (create [] (FTask p) (st0 P)))) ->
  alternates t cid true (filter (evk t cid) (snd (run_case P n [p]))).
Proof. exact run_case_resume_pause_alternate_stree. Qed.
Print Assumptions C06_run_case_resume_pause_alternate_stree.

(* the invariant *)
Theorem C06_newest_is_resume_iff_active_stree : forall P, pointwise P -> forall p, stree p -> wns [] p -> forall n t cid,
  let h := fst (create [] (FTask p) (st0 P)) in
  let s1 := snd (create [] (FTask p) (st0 P)) in
  no_unwind P n (start h s1) ->
  let s := c_st (run P n (start h s1)) in
  (exists rest, filter (evk t cid) (trace s) = EvResume t cid :: rest) <->
  (exists tk f, get t s = Some (mkFut None (KTask tk)) /\ tk_cact tk = true /\ In (CAsync cid f) (tk_ctxs tk)).
Proof. exact newest_is_resume_iff_active_stree. Qed.
Print Assumptions C06_newest_is_resume_iff_active_stree.

(* A2, end *)
Theorem C06_all_paused_at_end_stree_trace : forall P, pointwise P -> forall p, stree p -> wns [] p -> forall n t cid o,
  let h := fst (create [] (FTask p) (st0 P)) in
  let s1 := snd (create [] (FTask p) (st0 P)) in
  no_unwind P n (start h s1) -> c_mode (run P n (start h s1)) = MDone o ->
  match filter (evk t cid) (trace (c_st (run P n (start h s1)))) with [] => True | e :: _ => e = EvPause t cid end.
Proof. exact all_paused_at_end_stree_events. Qed.
Print Assumptions C06_all_paused_at_end_stree_trace.

(* A2, flush *)
Theorem C06_resumed_at_flush_stree : forall P, pointwise P -> forall p, stree p -> wns [] p -> forall n t cid,
  let h := fst (create [] (FTask p) (st0 P)) in
  let s1 := snd (create [] (FTask p) (st0 P)) in
  no_unwind P n (start h s1) -> c_mode (run P n (start h s1)) = MAfterExec ->
  let c := run P n (start h s1) in
  (exists rest, filter (evk t cid) (trace (c_st c)) = EvResume t cid :: rest) ->
  In t (tasks (c_st c)) /\
  exists tk, get t (c_st c) = Some (mkFut None (KTask tk)) /\ (In t (fvals (c_frames c)) \/ tk_ds tk = true).
Proof. exact resumed_at_flush_stree. Qed.
Print Assumptions C06_resumed_at_flush_stree.

Theorem C06_all_paused_at_outer_flush_stree_trace : forall P, pointwise P -> forall p, stree p -> wns [] p -> forall n t cid,
  let h := fst (create [] (FTask p) (st0 P)) in
  let s1 := snd (create [] (FTask p) (st0 P)) in
  no_unwind P n (start h s1) -> c_mode (run P n (start h s1)) = MAfterExec ->
  fvals (c_frames (run P n (start h s1))) = [] ->
  match filter (evk t cid) (trace (c_st (run P n (start h s1)))) with [] => True | e :: _ => e = EvPause t cid end.
Proof. exact all_paused_at_outer_flush_stree. Qed.
Print Assumptions C06_all_paused_at_outer_flush_stree_trace.

(* A3 *)
Theorem C06_resumed_while_code_runs_stree : forall P, pointwise P -> forall p, stree p -> wns [] p -> forall n t q x,
  let h := fst (create [] (FTask p) (st0 P)) in
  let s1 := snd (create [] (FTask p) (st0 P)) in
  no_unwind P n (start h s1) -> c_mode (run P n (start h s1)) = MRun t q ->
  let c := run P n (start h s1) in
  x = t \/ In x (fvals (c_frames c)) ->
  forall tk, get x (c_st c) = Some (mkFut None (KTask tk)) -> forall cid f, In (CAsync cid f) (tk_ctxs tk) ->
    exists rest, filter (evk x cid) (trace (c_st c)) = EvResume x cid :: rest.
Proof. exact resumed_while_code_runs_stree. Qed.
Print Assumptions C06_resumed_while_code_runs_stree.

Theorem C06_caller_contexts_resumed_stree : forall P, pointwise P -> forall p, stree p -> wns [] p -> forall n x,
  let h := fst (create [] (FTask p) (st0 P)) in
  let s1 := snd (create [] (FTask p) (st0 P)) in
  no_unwind P n (start h s1) -> is_final (c_mode (run P n (start h s1))) = false ->
  let c := run P n (start h s1) in
  In x (fvals (c_frames c)) ->
  exists tk, get x (c_st c) = Some (mkFut None (KTask tk)) /\
    forall cid f, In (CAsync cid f) (tk_ctxs tk) -> exists rest, filter (evk x cid) (trace (c_st c)) = EvResume x cid :: rest.
Proof. exact caller_contexts_resumed_stree. Qed.
Print Assumptions C06_caller_contexts_resumed_stree.

Theorem C06_resumed_only_on_stack_stree : forall P, pointwise P -> forall p, stree p -> wns [] p -> forall n t q u cid,
  let h := fst (create [] (FTask p) (st0 P)) in
  let s1 := snd (create [] (FTask p) (st0 P)) in
  no_unwind P n (start h s1) -> c_mode (run P n (start h s1)) = MRun t q ->
  let c := run P n (start h s1) in
  (exists rest, filter (evk u cid) (trace (c_st c)) = EvResume u cid :: rest) ->
  In u (tasks (c_st c)) /\
  (u = t \/ In u (fvals (c_frames c)) \/ exists tk, get u (c_st c) = Some (mkFut None (KTask tk)) /\ tk_ds tk = true).
Proof. exact resumed_only_on_stack_stree. Qed.
Print Assumptions C06_resumed_only_on_stack_stree.

(* wn versus wns *)
Theorem C06_wn_implies_wns : forall op p, wn op p -> wns op p.
Proof. exact wn_wns. Qed.
Print Assumptions C06_wn_implies_wns.

Theorem C06_wn_stree_is_tree : forall op p, wn op p -> stree p -> tree p.
Proof. exact wn_stree_tree. Qed.
Print Assumptions C06_wn_stree_is_tree.

Theorem C06_resume_pause_alternate_stree_wn : forall P p n t cid,
  pointwise P -> stree p -> wn [] p ->
  no_unwind P n (start (fst (create [] (FTask p) (st0 P))) (snd (create [] (FTask p) (st0 P)))) ->
  alternates t cid true (ctx_events t cid (trace (c_st (run P n (start (fst (create [] (FTask p) (st0 P))) (snd (create [] (FTask p) (st0 P)))))))).
Proof. exact resume_pause_alternate_stree_wn. Qed.
Print Assumptions C06_resume_pause_alternate_stree_wn.

(* A2 for EVERY flush is false once synchronous calls are allowed *)
Theorem C06_all_paused_at_every_flush_stree_trace_is_false :
  ~ (forall P, pointwise P -> forall p, stree p -> wns [] p -> forall n t cid,
     let h := fst (create [] (FTask p) (st0 P)) in
     let s1 := snd (create [] (FTask p) (st0 P)) in
     no_unwind P n (start h s1) -> c_mode (run P n (start h s1)) = MAfterExec ->
     ~ In t (fvals (c_frames (run P n (start h s1)))) ->
     match filter (evk t cid) (trace (c_st (run P n (start h s1)))) with [] => True | e :: _ => e = EvPause t cid end).
Proof. exact all_paused_at_every_flush_stree_is_false. Qed.
Print Assumptions C06_all_paused_at_every_flush_stree_trace_is_false.

(* non-vacuity: root [0] (ctx 0) awaits sibling [1] (ctx 2) and caller [2] (ctx 5); [2] calls mid [4] synchronously; [4]
   (ctx 1, then ctx 1 again) calls leaf [5] and then leaf [7] synchronously (ctx 7 each), which block on batch items *)
Theorem C06_stree_alternation_hypotheses_are_met :
  let P := c06s_P in
  let h := fst (create [] (FTask c06n_demo) (st0 P)) in
  let s1 := snd (create [] (FTask c06n_demo) (st0 P)) in
  let c k := run P k (start h s1) in
  let R t i := EvResume t i in let Z t i := EvPause t i in
  stree c06n_demo /\ wns [] c06n_demo /\ pointwise P /\ no_unwind_b P 300 (start h s1) = true /\
  c_mode (c 300%nat) = MDone (Ok (VTuple [VInt 10; VInt 30])) /\
  filter isctx (rev (trace (c_st (c 300%nat)))) =
    [R [0] 0; R [1] 2; Z [1] 2; R [2] 5; R [4] 1; R [5] 7; Z [5] 7; R [5] 7; Z [5] 7; Z [4] 1; R [4] 1;
     R [7] 7; Z [7] 7; R [7] 7; Z [7] 7; Z [4] 1; Z [2] 5; Z [0] 0; R [0] 0; R [1] 2; Z [1] 2; Z [0] 0] /\
  ctx_events [0] 0 (trace (c_st (c 300%nat))) = [R [0] 0; Z [0] 0; R [0] 0; Z [0] 0] /\
  ctx_events [4] 1 (trace (c_st (c 300%nat))) = [R [4] 1; Z [4] 1; R [4] 1; Z [4] 1] /\
  ctx_events [5] 7 (trace (c_st (c 300%nat))) = [R [5] 7; Z [5] 7; R [5] 7; Z [5] 7] /\
  ctx_events [2] 5 (trace (c_st (c 300%nat))) = [R [2] 5; Z [2] 5] /\
  map (fun k => (k, fvals (c_frames (c k)), tasks (c_st (c k))))
      (filter (fun k => match c_mode (c k) with MAfterExec => true | _ => false end) (seq 0 300)) =
    [(39%nat, [[4]; [2]], [[4]; [2]; [0]]); (48%nat, [[4]; [2]], [[4]; [2]; [0]]); (65%nat, [[4]; [2]], [[4]; [2]; [0]]);
     (74%nat, [[4]; [2]], [[4]; [2]; [0]]); (81%nat, [[2]], [[2]; [0]]); (89%nat, [], []); (105%nat, [], [])]%Z /\
  filter isctx (rev (trace (c_st (c 39%nat)))) = [R [0] 0; R [1] 2; Z [1] 2; R [2] 5; R [4] 1; R [5] 7; Z [5] 7].
Proof. exact c06n_demo_runs. Qed.
Print Assumptions C06_stree_alternation_hypotheses_are_met.

Theorem C06_stree_alternation_demo_is_not_tree : ~ tree c06n_demo /\ ~ wn [] c06n_demo.
Proof. exact c06n_demo_not_tree. Qed.
Print Assumptions C06_stree_alternation_demo_is_not_tree.

(* ==== the same WITHOUT an assumption about exceptions unwinding (proofs/MachineNoUnwind.v, MachineGuardForms.v) ====
   [no_unwind] is replaced by "the MAX_TASK_STACK_SIZE guard has not fired before step n":
   forall k < n, guard_fires P (run P k c0) = false, where guard_fires is the boolean test at the head of the
   _execute loop in Machine.step.  For tree programs under a pointwise service the two say the same:
   FutureIsAlreadyComputed is proved unreachable, so the guard's RuntimeError is the only exception that can
   unwind through asynq's frames. *)
From Asynq Require Import proofs.MachineNoUnwind proofs.MachineGuardForms.
Theorem C06_contexts_paused_at_every_flush_tree_guard : forall P, pointwise P -> forall p, tree p -> forall n,
  let h := fst (create [] (FTask p) (st0 P)) in
  let s1 := snd (create [] (FTask p) (st0 P)) in
  (forall k, (k < n)%nat -> guard_fires P (run P k (start h s1)) = false) ->
  c_mode (run P n (start h s1)) = MAfterExec ->
  forall u tk, get u (c_st (run P n (start h s1))) = Some (mkFut None (KTask tk)) ->
    tk_cact tk = false /\ tk_ds tk = false.
Proof. exact contexts_paused_at_flush_tree_guard. Qed.
Print Assumptions C06_contexts_paused_at_every_flush_tree_guard.

Theorem C06_contexts_active_while_own_code_runs_tree_guard : forall P, pointwise P -> forall p, tree p -> forall n t q,
  let h := fst (create [] (FTask p) (st0 P)) in
  let s1 := snd (create [] (FTask p) (st0 P)) in
  (forall k, (k < n)%nat -> guard_fires P (run P k (start h s1)) = false) ->
  c_mode (run P n (start h s1)) = MRun t q ->
  (exists tk, get t (c_st (run P n (start h s1))) = Some (mkFut None (KTask tk)) /\ tk_cact tk = true) /\
  (forall u tk, get u (c_st (run P n (start h s1))) = Some (mkFut None (KTask tk)) -> tk_cact tk = true ->
     In u (tasks (c_st (run P n (start h s1))))).
Proof. exact contexts_active_while_running_tree_guard. Qed.
Print Assumptions C06_contexts_active_while_own_code_runs_tree_guard.

Theorem C06_resume_pause_alternate_guard : forall P, pointwise P -> forall p, tree p -> wn [] p -> forall n t cid,
  let h := fst (create [] (FTask p) (st0 P)) in
  let s1 := snd (create [] (FTask p) (st0 P)) in
  (forall k, (k < n)%nat -> guard_fires P (run P k (start h s1)) = false) ->
  alternates t cid true (ctx_events t cid (trace (c_st (run P n (start h s1))))).
Proof. exact resume_pause_alternate_tree_guard. Qed.
Print Assumptions C06_resume_pause_alternate_guard.

Theorem C06_run_case_resume_pause_alternate_guard : forall P p n t cid,
  pointwise P -> tree p -> wn [] p ->
  (forall k, (k < n)%nat -> guard_fires P (run P k
     (start (fst (create [] (FTask p) (st0 P))) (snd (create [] (FTask p) (st0 P))))) = false) ->
  alternates t cid true (filter (evk t cid) (snd (run_case P n [p]))).
Proof. exact run_case_resume_pause_alternate_guard. Qed.
Print Assumptions C06_run_case_resume_pause_alternate_guard.

Theorem C06_newest_is_resume_iff_active_guard : forall P, pointwise P -> forall p, tree p -> wn [] p -> forall n t cid,
  let h := fst (create [] (FTask p) (st0 P)) in
  let s1 := snd (create [] (FTask p) (st0 P)) in
  (forall k, (k < n)%nat -> guard_fires P (run P k (start h s1)) = false) ->
  let s := c_st (run P n (start h s1)) in
  (exists rest, filter (evk t cid) (trace s) = EvResume t cid :: rest) <->
  (exists tk f, get t s = Some (mkFut None (KTask tk)) /\ tk_cact tk = true /\ In (CAsync cid f) (tk_ctxs tk)).
Proof. exact newest_is_resume_iff_active_tree_guard. Qed.
Print Assumptions C06_newest_is_resume_iff_active_guard.

Theorem C06_all_paused_at_flush_and_end_guard : forall P, pointwise P -> forall p, tree p -> wn [] p -> forall n t cid,
  let h := fst (create [] (FTask p) (st0 P)) in
  let s1 := snd (create [] (FTask p) (st0 P)) in
  (forall k, (k < n)%nat -> guard_fires P (run P k (start h s1)) = false) ->
  (c_mode (run P n (start h s1)) = MAfterExec \/ exists o, c_mode (run P n (start h s1)) = MDone o) ->
  match filter (evk t cid) (trace (c_st (run P n (start h s1)))) with [] => True | e :: _ => e = EvPause t cid end.
Proof. exact all_paused_at_flush_and_end_tree_guard. Qed.
Print Assumptions C06_all_paused_at_flush_and_end_guard.

Theorem C06_resumed_while_own_code_runs_guard : forall P, pointwise P -> forall p, tree p -> wn [] p -> forall n t q,
  let h := fst (create [] (FTask p) (st0 P)) in
  let s1 := snd (create [] (FTask p) (st0 P)) in
  (forall k, (k < n)%nat -> guard_fires P (run P k (start h s1)) = false) ->
  c_mode (run P n (start h s1)) = MRun t q ->
  let s := c_st (run P n (start h s1)) in
  forall tk, get t s = Some (mkFut None (KTask tk)) -> forall cid f, In (CAsync cid f) (tk_ctxs tk) ->
    exists rest, filter (evk t cid) (trace s) = EvResume t cid :: rest.
Proof. exact resumed_while_own_code_runs_tree_guard. Qed.
Print Assumptions C06_resumed_while_own_code_runs_guard.

Theorem C06_resumed_only_in_awaiting_tasks_guard : forall P, pointwise P -> forall p, tree p -> wn [] p -> forall n t q u cid,
  let h := fst (create [] (FTask p) (st0 P)) in
  let s1 := snd (create [] (FTask p) (st0 P)) in
  (forall k, (k < n)%nat -> guard_fires P (run P k (start h s1)) = false) ->
  c_mode (run P n (start h s1)) = MRun t q ->
  let s := c_st (run P n (start h s1)) in
  (exists rest, filter (evk u cid) (trace s) = EvResume u cid :: rest) -> reach s u t.
Proof. exact resumed_only_in_awaiting_tasks_tree_guard. Qed.
Print Assumptions C06_resumed_only_in_awaiting_tasks_guard.

(* ==== the stree theorems WITHOUT an assumption about exceptions unwinding (proofs/MachineNoUnwind.v, MachineGuardFormsS.v) ====
   [no_unwind P n (start h s1)] is replaced by "the MAX_TASK_STACK_SIZE guard has not fired before step n"; also with
   synchronous calls FutureIsAlreadyComputed is proved unreachable (stree_no_unwind_iff_guard_silent), so the guard's
   RuntimeError is the only exception that can unwind through asynq's frames.  Binders and conclusions are those of
   the theorems of the same name without the suffix _guard. *)
From Asynq Require Import proofs.MachineNoUnwind proofs.MachineGuardFormsS.
Theorem C06_contexts_at_every_flush_stree_guard : forall P, pointwise P -> forall p, stree p -> forall n,
  let h := fst (create [] (FTask p) (st0 P)) in
  let s1 := snd (create [] (FTask p) (st0 P)) in
  (forall k, (k < n)%nat -> guard_fires P (run P k (start h s1)) = false) ->
  c_mode (run P n (start h s1)) = MAfterExec ->
  let c := run P n (start h s1) in
  exists r vs, c_frames c = FWait r :: vs /\ stk (tasks (c_st c)) vs /\
    (forall t, In t (fvals vs) -> exists tk, get t (c_st c) = Some (mkFut None (KTask tk)) /\ tk_cact tk = true) /\
    (forall u tk, get u (c_st c) = Some (mkFut None (KTask tk)) -> tk_cact tk = true \/ tk_ds tk = true ->
       In u (tasks (c_st c)) /\ tk_cact tk = true /\ (In u (fvals vs) \/ tk_ds tk = true)).
Proof. exact flush_stree_guard. Qed.
Print Assumptions C06_contexts_at_every_flush_stree_guard.

Theorem C06_contexts_at_nested_flush_stree_guard : forall P, pointwise P -> forall p, stree p -> forall n r t k fr',
  let h := fst (create [] (FTask p) (st0 P)) in
  let s1 := snd (create [] (FTask p) (st0 P)) in
  (forall j, (j < n)%nat -> guard_fires P (run P j (start h s1)) = false) ->
  c_mode (run P n (start h s1)) = MAfterExec ->
  c_frames (run P n (start h s1)) = FWait r :: FValue t k :: fr' ->
  let s := c_st (run P n (start h s1)) in
  exists old i r' vs rest below,
    fr' = FCont t old :: FExec i :: FWait r' :: vs /\ tasks s = t :: rest ++ below /\ length below = i /\
    stk below vs /\
    (exists tk, get t s = Some (mkFut None (KTask tk)) /\ tk_cact tk = true) /\
    (forall u tk, get u s = Some (mkFut None (KTask tk)) -> tk_cact tk = true \/ tk_ds tk = true ->
       (u = t \/ In u (rest ++ below)) /\ tk_cact tk = true /\ (u = t \/ In u (fvals vs) \/ tk_ds tk = true)).
Proof. exact nested_flush_stree_guard. Qed.
Print Assumptions C06_contexts_at_nested_flush_stree_guard.

Theorem C06_contexts_paused_at_outer_flush_stree_guard : forall P, pointwise P -> forall p, stree p -> forall n,
  let h := fst (create [] (FTask p) (st0 P)) in
  let s1 := snd (create [] (FTask p) (st0 P)) in
  (forall k, (k < n)%nat -> guard_fires P (run P k (start h s1)) = false) ->
  c_mode (run P n (start h s1)) = MAfterExec ->
  fvals (c_frames (run P n (start h s1))) = [] ->
  tasks (c_st (run P n (start h s1))) = [] /\
  forall u tk, get u (c_st (run P n (start h s1))) = Some (mkFut None (KTask tk)) ->
    tk_cact tk = false /\ tk_ds tk = false.
Proof. exact outer_flush_stree_guard. Qed.
Print Assumptions C06_contexts_paused_at_outer_flush_stree_guard.

Theorem C06_contexts_active_while_own_code_runs_stree_guard : forall P, pointwise P -> forall p, stree p -> forall n t q,
  let h := fst (create [] (FTask p) (st0 P)) in
  let s1 := snd (create [] (FTask p) (st0 P)) in
  (forall k, (k < n)%nat -> guard_fires P (run P k (start h s1)) = false) -> c_mode (run P n (start h s1)) = MRun t q ->
  let c := run P n (start h s1) in
  (exists rest, tasks (c_st c) = t :: rest) /\
  (forall x, x = t \/ In x (fvals (c_frames c)) ->
     exists tk, get x (c_st c) = Some (mkFut None (KTask tk)) /\ tk_cact tk = true) /\
  (forall u tk, get u (c_st c) = Some (mkFut None (KTask tk)) -> tk_cact tk = true ->
     In u (tasks (c_st c)) /\ (u = t \/ In u (fvals (c_frames c)) \/ tk_ds tk = true)).
Proof. exact running_stree_guard. Qed.
Print Assumptions C06_contexts_active_while_own_code_runs_stree_guard.

Theorem C06_callers_stay_resumed_inside_value_guard : forall P, pointwise P -> forall p, stree p -> forall n t,
  let h := fst (create [] (FTask p) (st0 P)) in
  let s1 := snd (create [] (FTask p) (st0 P)) in
  (forall k, (k < n)%nat -> guard_fires P (run P k (start h s1)) = false) ->
  is_final (c_mode (run P n (start h s1))) = false ->
  In t (fvals (c_frames (run P n (start h s1)))) ->
  exists tk, get t (c_st (run P n (start h s1))) = Some (mkFut None (KTask tk)) /\ tk_cact tk = true.
Proof. exact callers_stay_resumed_guard. Qed.
Print Assumptions C06_callers_stay_resumed_inside_value_guard.

Theorem C06_contexts_untouched_inside_value_guard : forall P p n m t, pointwise P -> stree p ->
  let h := fst (create [] (FTask p) (st0 P)) in
  let s1 := snd (create [] (FTask p) (st0 P)) in
  (forall j, (j < n + m)%nat -> guard_fires P (run P j (start h s1)) = false) ->
  (forall k, (n <= k < n + m)%nat -> In t (fvals (c_frames (run P k (start h s1))))) ->
  cevt t (c_st (run P (n + m) (start h s1))) = cevt t (c_st (run P n (start h s1))).
Proof. exact contexts_untouched_inside_value_guard. Qed.
Print Assumptions C06_contexts_untouched_inside_value_guard.

Theorem C06_all_paused_at_end_stree_guard : forall P, pointwise P -> forall p, stree p -> forall n o,
  let h := fst (create [] (FTask p) (st0 P)) in
  let s1 := snd (create [] (FTask p) (st0 P)) in
  (forall k, (k < n)%nat -> guard_fires P (run P k (start h s1)) = false) -> c_mode (run P n (start h s1)) = MDone o ->
  tasks (c_st (run P n (start h s1))) = [] /\
  forall u tk, get u (c_st (run P n (start h s1))) = Some (mkFut None (KTask tk)) ->
    tk_cact tk = false /\ tk_ds tk = false.
Proof. exact end_stree_guard. Qed.
Print Assumptions C06_all_paused_at_end_stree_guard.

Theorem C06_resume_pause_alternate_stree_guard : forall P, pointwise P -> forall p, stree p -> wns [] p -> forall n t cid,
  let h := fst (create [] (FTask p) (st0 P)) in
  let s1 := snd (create [] (FTask p) (st0 P)) in
  (forall k, (k < n)%nat -> guard_fires P (run P k (start h s1)) = false) ->
  alternates t cid true (ctx_events t cid (trace (c_st (run P n (start h s1))))).
Proof. exact resume_pause_alternate_stree_guard. Qed.
Print Assumptions C06_resume_pause_alternate_stree_guard.

Theorem C06_run_case_resume_pause_alternate_stree_guard : forall P p n t cid,
  pointwise P -> stree p -> wns [] p ->
  (forall k, (k < n)%nat -> guard_fires P (run P k
     (start (fst (create [] (FTask p) (st0 P))) (snd (create [] (FTask p) (st0 P))))) = false) ->
  alternates t cid true (filter (evk t cid) (snd (run_case P n [p]))).
Proof. exact run_case_resume_pause_alternate_stree_guard. Qed.
Print Assumptions C06_run_case_resume_pause_alternate_stree_guard.

Theorem C06_newest_is_resume_iff_active_stree_guard : forall P, pointwise P -> forall p, stree p -> wns [] p -> forall n t cid,
  let h := fst (create [] (FTask p) (st0 P)) in
  let s1 := snd (create [] (FTask p) (st0 P)) in
  (forall k, (k < n)%nat -> guard_fires P (run P k (start h s1)) = false) ->
  let s := c_st (run P n (start h s1)) in
  (exists rest, filter (evk t cid) (trace s) = EvResume t cid :: rest) <->
  (exists tk f, get t s = Some (mkFut None (KTask tk)) /\ tk_cact tk = true /\ In (CAsync cid f) (tk_ctxs tk)).
Proof. exact newest_is_resume_iff_active_stree_guard. Qed.
Print Assumptions C06_newest_is_resume_iff_active_stree_guard.

Theorem C06_all_paused_at_end_stree_trace_guard : forall P, pointwise P -> forall p, stree p -> wns [] p -> forall n t cid o,
  let h := fst (create [] (FTask p) (st0 P)) in
  let s1 := snd (create [] (FTask p) (st0 P)) in
  (forall k, (k < n)%nat -> guard_fires P (run P k (start h s1)) = false) -> c_mode (run P n (start h s1)) = MDone o ->
  match filter (evk t cid) (trace (c_st (run P n (start h s1)))) with [] => True | e :: _ => e = EvPause t cid end.
Proof. exact all_paused_at_end_stree_events_guard. Qed.
Print Assumptions C06_all_paused_at_end_stree_trace_guard.

Theorem C06_resumed_at_flush_stree_guard : forall P, pointwise P -> forall p, stree p -> wns [] p -> forall n t cid,
  let h := fst (create [] (FTask p) (st0 P)) in
  let s1 := snd (create [] (FTask p) (st0 P)) in
  (forall k, (k < n)%nat -> guard_fires P (run P k (start h s1)) = false) ->
  c_mode (run P n (start h s1)) = MAfterExec ->
  let c := run P n (start h s1) in
  (exists rest, filter (evk t cid) (trace (c_st c)) = EvResume t cid :: rest) ->
  In t (tasks (c_st c)) /\
  exists tk, get t (c_st c) = Some (mkFut None (KTask tk)) /\ (In t (fvals (c_frames c)) \/ tk_ds tk = true).
Proof. exact resumed_at_flush_stree_guard. Qed.
Print Assumptions C06_resumed_at_flush_stree_guard.

Theorem C06_all_paused_at_outer_flush_stree_trace_guard : forall P, pointwise P -> forall p, stree p -> wns [] p -> forall n t cid,
  let h := fst (create [] (FTask p) (st0 P)) in
  let s1 := snd (create [] (FTask p) (st0 P)) in
  (forall k, (k < n)%nat -> guard_fires P (run P k (start h s1)) = false) ->
  c_mode (run P n (start h s1)) = MAfterExec ->
  fvals (c_frames (run P n (start h s1))) = [] ->
  match filter (evk t cid) (trace (c_st (run P n (start h s1)))) with [] => True | e :: _ => e = EvPause t cid end.
Proof. exact all_paused_at_outer_flush_stree_guard. Qed.
Print Assumptions C06_all_paused_at_outer_flush_stree_trace_guard.

Theorem C06_resumed_while_code_runs_stree_guard : forall P, pointwise P -> forall p, stree p -> wns [] p -> forall n t q x,
  let h := fst (create [] (FTask p) (st0 P)) in
  let s1 := snd (create [] (FTask p) (st0 P)) in
  (forall k, (k < n)%nat -> guard_fires P (run P k (start h s1)) = false) -> c_mode (run P n (start h s1)) = MRun t q ->
  let c := run P n (start h s1) in
  x = t \/ In x (fvals (c_frames c)) ->
  forall tk, get x (c_st c) = Some (mkFut None (KTask tk)) -> forall cid f, In (CAsync cid f) (tk_ctxs tk) ->
    exists rest, filter (evk x cid) (trace (c_st c)) = EvResume x cid :: rest.
Proof. exact resumed_while_code_runs_stree_guard. Qed.
Print Assumptions C06_resumed_while_code_runs_stree_guard.

Theorem C06_caller_contexts_resumed_stree_guard : forall P, pointwise P -> forall p, stree p -> wns [] p -> forall n x,
  let h := fst (create [] (FTask p) (st0 P)) in
  let s1 := snd (create [] (FTask p) (st0 P)) in
  (forall k, (k < n)%nat -> guard_fires P (run P k (start h s1)) = false) ->
  is_final (c_mode (run P n (start h s1))) = false ->
  let c := run P n (start h s1) in
  In x (fvals (c_frames c)) ->
  exists tk, get x (c_st c) = Some (mkFut None (KTask tk)) /\
    forall cid f, In (CAsync cid f) (tk_ctxs tk) -> exists rest, filter (evk x cid) (trace (c_st c)) = EvResume x cid :: rest.
Proof. exact caller_contexts_resumed_stree_guard. Qed.
Print Assumptions C06_caller_contexts_resumed_stree_guard.

Theorem C06_resumed_only_on_stack_stree_guard : forall P, pointwise P -> forall p, stree p -> wns [] p -> forall n t q u cid,
  let h := fst (create [] (FTask p) (st0 P)) in
  let s1 := snd (create [] (FTask p) (st0 P)) in
  (forall k, (k < n)%nat -> guard_fires P (run P k (start h s1)) = false) -> c_mode (run P n (start h s1)) = MRun t q ->
  let c := run P n (start h s1) in
  (exists rest, filter (evk u cid) (trace (c_st c)) = EvResume u cid :: rest) ->
  In u (tasks (c_st c)) /\
  (u = t \/ In u (fvals (c_frames c)) \/ exists tk, get u (c_st c) = Some (mkFut None (KTask tk)) /\ tk_ds tk = true).
Proof. exact resumed_only_on_stack_stree_guard. Qed.
Print Assumptions C06_resumed_only_on_stack_stree_guard.

Theorem C06_resume_pause_alternate_stree_wn_guard : forall P p n t cid,
  pointwise P -> stree p -> wn [] p ->
  (forall k, (k < n)%nat -> guard_fires P (run P k
     (start (fst (create [] (FTask p) (st0 P))) (snd (create [] (FTask p) (st0 P))))) = false) ->
  alternates t cid true (ctx_events t cid (trace (c_st (run P n (start (fst (create [] (FTask p) (st0 P))) (snd (create [] (FTask p) (st0 P)))))))).
Proof. exact resume_pause_alternate_stree_wn_guard. Qed.
Print Assumptions C06_resume_pause_alternate_stree_wn_guard.
