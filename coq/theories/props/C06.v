(* C06 — an AsyncContext is active exactly while its task, or work it awaits, runs.
   Statements only; proofs in proofs/MachineDFS.v.  The model keeps, per task, the flag
   _contexts_active; _resume_contexts/_pause_contexts flip it and call resume()/pause() on every open
   context of the task, so the flag IS the state of the task's contexts between enter and exit.
   Proved for yield-only tree programs (plain AsyncContexts and scoped overrides, every flush order):
   (1) at the end of every _execute pass, hence at every scheduler flush, no uncompleted task has active
       contexts; (2) while a task's body runs its contexts are active and any other uncompleted task with
       active contexts is still on the scheduler's stack.
   NOT proved: per-context resume/pause alternation as a trace property, the awaiting-ancestors
   characterisation, NonAsyncContext, synchronous re-entry - correspondence + monitors. *)
From Asynq Require Import Machine Seq proofs.MachineC08 proofs.MachineC01 proofs.MachineDFS.

Theorem C06_contexts_paused_at_every_flush_tree : forall P, pointwise P -> forall p, tree p -> forall n,
  let h := fst (create [] (FTask p) (st0 P)) in
  let s1 := snd (create [] (FTask p) (st0 P)) in
  no_unwind P n (start h s1) -> c_mode (run P n (start h s1)) = MAfterExec ->
  forall u tk, get u (c_st (run P n (start h s1))) = Some (mkFut None (KTask tk)) ->
    tk_cact tk = false /\ tk_ds tk = false.
Proof. exact contexts_paused_at_flush_tree. Qed.
Print Assumptions C06_contexts_paused_at_every_flush_tree.

Theorem C06_contexts_active_while_own_code_runs_tree : forall P, pointwise P -> forall p, tree p -> forall n t q,
  let h := fst (create [] (FTask p) (st0 P)) in
  let s1 := snd (create [] (FTask p) (st0 P)) in
  no_unwind P n (start h s1) -> c_mode (run P n (start h s1)) = MRun t q ->
  (exists tk, get t (c_st (run P n (start h s1))) = Some (mkFut None (KTask tk)) /\ tk_cact tk = true) /\
  (forall u tk, get u (c_st (run P n (start h s1))) = Some (mkFut None (KTask tk)) -> tk_cact tk = true ->
     In u (tasks (c_st (run P n (start h s1))))).
Proof. exact contexts_active_while_running_tree. Qed.
Print Assumptions C06_contexts_active_while_own_code_runs_tree.
