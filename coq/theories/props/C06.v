From Asynq Require Import Machine.
Theorem C06_placeholder : True. Proof. exact I. Qed.
Print Assumptions C06_placeholder.
