(* C06 — an AsyncContext is active exactly while its task, or work it awaits, runs.
   Statements only; proofs in proofs/MachineDFS.v (flags) and proofs/MachineC06T.v (resume/pause trace).
   The model keeps, per task, the flag _contexts_active; _resume_contexts/_pause_contexts flip it and call
   resume()/pause() on every open context of the task, so the flag IS the state of the task's contexts between
   enter and exit.  An AsyncContext with id cid in task t logs EvResume t cid at every resume() (on entry:
   enter_ctx; by the scheduler: resume1) and EvPause t cid at every pause() (on exit: pause_plain in exit_ctx;
   by the scheduler: pause1).  [ctx_events t cid tr] is the list of these two events of the key (t, cid) in the
   newest-first trace tr, OLDEST first; [alternates t cid true l] says l is resume, pause, resume, ... starting
   with a resume; [filter (evk t cid) tr] is the same list newest first.

   PROVED, for every pointwise service P (no flush body raises half way), every flush order/priorities/fuel n, as long
   as no exception unwound through asynq's frames (no_unwind: the MAX_TASK_STACK_SIZE guard did not fire):
   for yield-only tree programs (tree p: plain AsyncContexts whose resume/pause do not raise, and scoped overrides):
   (1) C06_contexts_paused_at_every_flush_tree: at the end of every _execute pass, hence at every scheduler flush,
       no uncompleted task has active contexts;
   (2) C06_contexts_active_while_own_code_runs_tree: while a task's body runs its contexts are active and any other
       uncompleted task with active contexts is still on the scheduler's stack;
   and for tree programs whose with-blocks are well nested (wn [] p: every with-block is closed on every exit path -
   normal end, exception, early result - innermost first; contexts open at the same time in one task have distinct
   ids; an id may be re-used after its block was left):
   (3) C06_resume_pause_alternate (A1), also as C06_run_case_resume_pause_alternate on the chronological trace of
       Machine.run_case: for every task t and context id cid the resume/pause events of (t, cid) strictly alternate,
       starting with a resume - at every point of the run, across suspensions, batch flushes and re-use of the id;
   (4) C06_newest_is_resume_iff_active: at every reachable configuration the newest event of (t, cid) is a resume
       exactly when t is an uncompleted task with _contexts_active set and an AsyncContext cid open (the invariant
       from which the others follow);
   (5) C06_all_paused_at_flush_and_end (A2): at every flush point (MAfterExec) and when the outermost call has returned
       (MDone o, value or error) the newest event of every (t, cid) that has any event is a pause;
   (6) C06_resumed_while_own_code_runs (A3): while the body of t runs, the newest event of every AsyncContext that t
       has open is a resume;
   (7) C06_resumed_only_in_awaiting_tasks: while the body of t runs, a context of a task u whose newest event is a
       resume belongs to u = t or to a task that awaits t (t is reachable from u through the dependency lists of
       uncompleted tasks, MachineC04.reach): a context is paused whenever a task its owner is not awaiting runs.
   FIRST REFUTED, THEN REPAIRED: statement (3) for ALL programs with well-nested with-blocks, i.e. also for
   NonAsyncContext and contexts whose pause()/resume() raise (MachineC06T.alternation_all_contexts_statement), was
   refuted in the first version of the model: with a NonAsyncContext nested inside an AsyncContext in a task that
   blocks, _pause_contexts paused the AsyncContext, the NonAsyncContext's assertion error was delivered through
   _accept_error, generator.close() ran the with-blocks' __exit__, and the AsyncContext was paused a second time:
   resume, pause, pause (a single AsyncContext whose scheduler-driven pause() raises gave the same).  The witness
   reproduced on the implementation (known finding C06:alternation / double-pause) and was repaired in /repo
   ("fix: AsyncContext.__exit__ does not pause a context twice"); Machine.exit_ctx follows the repaired code and
   C06_former_witnesses_alternate shows by vm_compute that the former witnesses now alternate.  The general statement
   beyond tree programs is now neither proved nor refuted.
   NOT PROVED: programs outside tree/wn - Let/Sync (synchronous re-entry through .value(), "including synchronous
   calls it makes"), ReadVar/Probe branching, shared futures (DAGs), with-blocks left open when a task ends, contexts
   whose resume()/pause() raise, NonAsyncContext (three runs computed in C06_former_witnesses_alternate; nothing proved), non-pointwise services, runs in which
   the task-stack guard fired; the converse of (7) (every awaiting task's contexts ARE resumed while t runs) is only
   proved for t itself (6) - for ancestors it follows from MachineC07's layer structure but is not stated here.
   These are covered by the correspondence harness + monitors. *)
From Asynq Require Import Machine Seq proofs.MachineC08 proofs.MachineC01 proofs.MachineDFS proofs.MachineC04
     proofs.MachineC07 proofs.MachineC06T.

Theorem C06_contexts_paused_at_every_flush_tree : forall P, pointwise P -> forall p, tree p -> forall n,
  let h := fst (create [] (FTask p) (st0 P)) in
  let s1 := snd (create [] (FTask p) (st0 P)) in
  no_unwind P n (start h s1) -> c_mode (run P n (start h s1)) = MAfterExec ->
  forall u tk, get u (c_st (run P n (start h s1))) = Some (mkFut None (KTask tk)) ->
    tk_cact tk = false /\ tk_ds tk = false.
Proof. exact contexts_paused_at_flush_tree. Qed.
Print Assumptions C06_contexts_paused_at_every_flush_tree.

Theorem C06_contexts_active_while_own_code_runs_tree : forall P, pointwise P -> forall p, tree p -> forall n t q,
  let h := fst (create [] (FTask p) (st0 P)) in
  let s1 := snd (create [] (FTask p) (st0 P)) in
  no_unwind P n (start h s1) -> c_mode (run P n (start h s1)) = MRun t q ->
  (exists tk, get t (c_st (run P n (start h s1))) = Some (mkFut None (KTask tk)) /\ tk_cact tk = true) /\
  (forall u tk, get u (c_st (run P n (start h s1))) = Some (mkFut None (KTask tk)) -> tk_cact tk = true ->
     In u (tasks (c_st (run P n (start h s1))))).
Proof. exact contexts_active_while_running_tree. Qed.
Print Assumptions C06_contexts_active_while_own_code_runs_tree.

(* A1 *)
Theorem C06_resume_pause_alternate : forall P, pointwise P -> forall p, tree p -> wn [] p -> forall n t cid,
  let h := fst (create [] (FTask p) (st0 P)) in
  let s1 := snd (create [] (FTask p) (st0 P)) in
  no_unwind P n (start h s1) ->
  alternates t cid true (ctx_events t cid (trace (c_st (run P n (start h s1))))).
Proof. exact resume_pause_alternate_tree. Qed.
Print Assumptions C06_resume_pause_alternate.

Theorem C06_run_case_resume_pause_alternate : forall P p n t cid,
  pointwise P -> tree p -> wn [] p ->
  no_unwind P n (start (fst (create [] (FTask p) (st0 P))) (snd (create [] (FTask p) (st0 P)))) ->
  alternates t cid true (filter (evk t cid) (snd (run_case P n [p]))).
Proof. exact run_case_resume_pause_alternate. Qed.
Print Assumptions C06_run_case_resume_pause_alternate.

(* the invariant *)
Theorem C06_newest_is_resume_iff_active : forall P, pointwise P -> forall p, tree p -> wn [] p -> forall n t cid,
  let h := fst (create [] (FTask p) (st0 P)) in
  let s1 := snd (create [] (FTask p) (st0 P)) in
  no_unwind P n (start h s1) ->
  let s := c_st (run P n (start h s1)) in
  (exists rest, filter (evk t cid) (trace s) = EvResume t cid :: rest) <->
  (exists tk f, get t s = Some (mkFut None (KTask tk)) /\ tk_cact tk = true /\ In (CAsync cid f) (tk_ctxs tk)).
Proof. exact newest_is_resume_iff_active_tree. Qed.
Print Assumptions C06_newest_is_resume_iff_active.

(* A2 *)
Theorem C06_all_paused_at_flush_and_end : forall P, pointwise P -> forall p, tree p -> wn [] p -> forall n t cid,
  let h := fst (create [] (FTask p) (st0 P)) in
  let s1 := snd (create [] (FTask p) (st0 P)) in
  no_unwind P n (start h s1) ->
  (c_mode (run P n (start h s1)) = MAfterExec \/ exists o, c_mode (run P n (start h s1)) = MDone o) ->
  match filter (evk t cid) (trace (c_st (run P n (start h s1)))) with [] => True | e :: _ => e = EvPause t cid end.
Proof. exact all_paused_at_flush_and_end_tree. Qed.
Print Assumptions C06_all_paused_at_flush_and_end.

(* A3 *)
Theorem C06_resumed_while_own_code_runs : forall P, pointwise P -> forall p, tree p -> wn [] p -> forall n t q,
  let h := fst (create [] (FTask p) (st0 P)) in
  let s1 := snd (create [] (FTask p) (st0 P)) in
  no_unwind P n (start h s1) -> c_mode (run P n (start h s1)) = MRun t q ->
  let s := c_st (run P n (start h s1)) in
  forall tk, get t s = Some (mkFut None (KTask tk)) -> forall cid f, In (CAsync cid f) (tk_ctxs tk) ->
    exists rest, filter (evk t cid) (trace s) = EvResume t cid :: rest.
Proof. exact resumed_while_own_code_runs_tree. Qed.
Print Assumptions C06_resumed_while_own_code_runs.

Theorem C06_resumed_only_in_awaiting_tasks : forall P, pointwise P -> forall p, tree p -> wn [] p -> forall n t q u cid,
  let h := fst (create [] (FTask p) (st0 P)) in
  let s1 := snd (create [] (FTask p) (st0 P)) in
  no_unwind P n (start h s1) -> c_mode (run P n (start h s1)) = MRun t q ->
  let s := c_st (run P n (start h s1)) in
  (exists rest, filter (evk u cid) (trace s) = EvResume u cid :: rest) -> reach s u t.
Proof. exact resumed_only_in_awaiting_tasks_tree. Qed.
Print Assumptions C06_resumed_only_in_awaiting_tasks.

(* the programs that refuted the unrestricted alternation statement before the repair now alternate *)
Example C06_former_witnesses_alternate :
  let P := mkP [] 1000 false [] in
  let ev p := let h := fst (create [] (FTask p) (st0 P)) in
              let s1 := snd (create [] (FTask p) (st0 P)) in
              (no_unwind_b P 100 (start h s1), c_mode (run P 100 (start h s1)),
               ctx_events [0] 1 (trace (c_st (run P 100 (start h s1))))) in
  wn [] c06_cx /\
  ev c06_cx = (true, MDone (Err E_NONASYNC), [EvResume [0] 1; EvPause [0] 1]) /\
  ev (c06_cx_one (CAsync 1 (PauseRaises 1 77))) = (true, MDone (Err 77), [EvResume [0] 1; EvPause [0] 1]) /\
  ev (c06_cx_one (CAsync 1 (ResumeRaises 1 77))) =
    (true, MDone (Err 77), [EvResume [0] 1; EvPause [0] 1; EvResume [0] 1; EvPause [0] 1]).
Proof. exact c06_former_witnesses_alternate. Qed.
Print Assumptions C06_former_witnesses_alternate.

(* non-vacuity: the parent's AsyncContext 1 is resumed and paused four times (entry, two suspensions around batch
   flushes, exit and re-entry with the same id, exit), the child's context 1 twice; the run ends with a value *)
Example C06_hypotheses_are_met :
  let P := mkP [] 1000 false [] in
  let h := fst (create [] (FTask c06_demo) (st0 P)) in
  let s1 := snd (create [] (FTask c06_demo) (st0 P)) in
  let tr_at k := trace (c_st (run P k (start h s1))) in
  let R t := EvResume t 1 in let Z t := EvPause t 1 in
  tree c06_demo /\ wn [] c06_demo /\ no_unwind_b P 200 (start h s1) = true /\
  c_mode (run P 200 (start h s1)) = MDone (Ok (VInt 6)) /\
  ctx_events [0] 1 (tr_at 200%nat) = [R [0]; Z [0]; R [0]; Z [0]; R [0]; Z [0]; R [0]; Z [0]] /\
  ctx_events [1] 1 (tr_at 200%nat) = [R [1]; Z [1]; R [1]; Z [1]].
Proof. exact c06_demo_runs. Qed.
Print Assumptions C06_hypotheses_are_met.
