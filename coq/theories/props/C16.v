(* C16 — computations on different threads never interfere.
   Only statements; every proof is `exact <lemma>`.
   Machine (Threads.v, Part 1): options (read-only) x (thread id -> thread-local slot) x the one shared
   deduplicate dict; a thread's code is ANY (next_request, advance); `step i` = thread i runs up to and
   including its next access to the shared dict, made with a key that contains the current thread
   (tools.py:351-352); a schedule is ANY list of thread ids. *)
From Asynq Require Import Base Threads proofs.ThreadsProofs.

(* frame: a step of thread i changes only slot i and dict entries whose key names i *)
Theorem C16_frame : forall RO local (nr : RO -> local -> request) (adv : RO -> local -> response -> local)
  i (g : @global RO local),
  g_ro (step nr adv i g) = g_ro g /\
  (forall j, j <> i -> g_loc (step nr adv i g) j = g_loc g j) /\
  others i (g_dedup (step nr adv i g)) = others i (g_dedup g) /\
  (forall j, j <> i -> owned j (g_dedup (step nr adv i g)) = owned j (g_dedup g)) /\
  (forall k, dk_thread k <> i -> d_get k (g_dedup (step nr adv i g)) = d_get k (g_dedup g)).
Proof. exact frame. Qed.
Print Assumptions C16_frame.

(* solo = interleaved: for every thread code, every starting state, EVERY interleaving, the slot of
   thread i and its entries of the shared dict end as when i makes the same number of steps alone *)
Theorem C16_solo_equals_interleaved : forall RO local (nr : RO -> local -> request)
  (adv : RO -> local -> response -> local) (g : @global RO local) sch i,
  g_loc (run nr adv sch g) i = g_loc (solo nr adv i (count i sch) g) i /\
  owned i (g_dedup (run nr adv sch g)) = owned i (g_dedup (solo nr adv i (count i sch) g)) /\
  g_ro (run nr adv sch g) = g_ro g.
Proof. exact solo_equals_interleaved. Qed.
Print Assumptions C16_solo_equals_interleaved.

(* the same from two starting states that agree on the options, on slot i and on i's dict entries:
   whatever the other threads had done before does not matter either *)
Theorem C16_solo_equals_interleaved_from_similar_states : forall RO local (nr : RO -> local -> request)
  (adv : RO -> local -> response -> local) (g1 g2 : @global RO local) sch i,
  sim RO local i g1 g2 -> sim RO local i (run nr adv sch g1) (solo nr adv i (count i sch) g2).
Proof. exact solo_equals_interleaved_sim. Qed.
Print Assumptions C16_solo_equals_interleaved_from_similar_states.

Theorem C16_interleaving_irrelevant : forall RO local (nr : RO -> local -> request)
  (adv : RO -> local -> response -> local) (g : @global RO local) s1 s2 i,
  count i s1 = count i s2 -> g_loc (run nr adv s1 g) i = g_loc (run nr adv s2 g) i.
Proof. exact interleaving_irrelevant. Qed.
Print Assumptions C16_interleaving_irrelevant.

(* the asynq instance (Threads.v, Part 2: scheduler slot, active task, debug-batch registry, profiler
   buffer and counter, asyncio-mode flag, deduplicated calls; any op programs, any number of threads):
   whole thread-local state, and the per-op event traces the harness compares *)
Theorem C16_asynq_local_state : forall (g : proc) sch i,
  g_loc (trun sch g) i = g_loc (trun (repeat i (count i sch)) g) i.
Proof. exact local_state_solo_equals_interleaved. Qed.
Print Assumptions C16_asynq_local_state.

Theorem C16_asynq_traces : forall perf progs sch i,
  l_trace (g_loc (trun sch (init_global perf progs)) i) =
  l_trace (g_loc (trun (repeat i (count i sch)) (init_global perf progs)) i).
Proof. exact traces_solo_equals_interleaved. Qed.
Print Assumptions C16_asynq_traces.

(* the thread component of the key is necessary: without it a two-thread schedule changes what
   thread 0 reads, with it the same schedule does not *)
Theorem C16_without_thread_in_key_threads_interfere :
  g_loc (run_nokey w_next w_adv [1%nat; 0%nat] w_init) 0%nat <> g_loc (run_nokey w_next w_adv [0%nat] w_init) 0%nat
  /\ g_loc (run w_next w_adv [1%nat; 0%nat] w_init) 0%nat = g_loc (run w_next w_adv [0%nat] w_init) 0%nat.
Proof. exact without_thread_in_key_threads_interfere. Qed.
Print Assumptions C16_without_thread_in_key_threads_interfere.

(* thread generations: threads that ran and finished before thread i made its first step — whatever they
   did, including the entries (un-awaited deduplicated tasks) they left in the shared dict when they
   exited — do not change what i does: slot i and i's entries end as when i runs alone from the start *)
Theorem C16_later_generation_unaffected : forall RO local (nr : RO -> local -> request)
  (adv : RO -> local -> response -> local) (g : @global RO local) dead sch i,
  count i dead = O ->
  g_loc (run nr adv (dead ++ sch) g) i = g_loc (solo nr adv i (count i sch) g) i /\
  owned i (g_dedup (run nr adv (dead ++ sch) g)) = owned i (g_dedup (solo nr adv i (count i sch) g)).
Proof. exact later_generation_unaffected. Qed.
Print Assumptions C16_later_generation_unaffected.

(* the entries of a thread that makes no more steps (a dead thread) stay in the dict untouched *)
Theorem C16_entries_of_dead_threads_stay : forall RO local (nr : RO -> local -> request)
  (adv : RO -> local -> response -> local) (g : @global RO local) sch j,
  count j sch = O -> owned j (g_dedup (run nr adv sch g)) = owned j (g_dedup g).
Proof. exact entries_of_dead_threads_stay. Qed.
Print Assumptions C16_entries_of_dead_threads_stay.

(* what the thread component of the key has to be: ANY function of the thread that is injective over all
   threads the process ever has (the Thread object is: `run` is `run_by (fun i => i)`) *)
Theorem C16_any_injective_thread_component : forall RO local (nr : RO -> local -> request)
  (adv : RO -> local -> response -> local) (ident : tid -> nat),
  (forall a b, ident a = ident b -> a = b) ->
  forall (g : @global RO local) sch i,
  g_loc (run_by nr adv ident sch g) i = g_loc (run_by nr adv ident (repeat i (count i sch)) g) i /\
  owned (ident i) (g_dedup (run_by nr adv ident sch g)) =
  owned (ident i) (g_dedup (run_by nr adv ident (repeat i (count i sch)) g)).
Proof. exact solo_equals_interleaved_by_injective_ident. Qed.
Print Assumptions C16_any_injective_thread_component.

Theorem C16_thread_object_is_the_identity_component : forall RO local (nr : RO -> local -> request)
  (adv : RO -> local -> response -> local) sch (g : @global RO local),
  run_by nr adv (fun i => i) sch g = run nr adv sch g.
Proof. exact run_by_id. Qed.
Print Assumptions C16_thread_object_is_the_identity_component.

(* injectivity among the threads alive at the same time is not enough: a number that a later thread
   inherits from a dead one (threads 0 and 1 are distinguished, thread 2 gets thread 1's number) hands the
   dead thread's entry to the new thread; with the thread itself in the key the same schedule does not *)
Theorem C16_reused_ident_in_key_leaks_across_lifetimes :
  g_loc (run_by w_next w_adv reused_ident [1%nat; 2%nat] w_init) 2%nat
    <> g_loc (run_by w_next w_adv reused_ident [2%nat] w_init) 2%nat
  /\ g_loc (run w_next w_adv [1%nat; 2%nat] w_init) 2%nat = g_loc (run w_next w_adv [2%nat] w_init) 2%nat
  /\ (forall a b, (a < 2)%nat -> (b < 2)%nat -> reused_ident a = reused_ident b -> a = b).
Proof. exact reused_ident_in_key_leaks_across_lifetimes. Qed.
Print Assumptions C16_reused_ident_in_key_leaks_across_lifetimes.

(* the asynq instance (now with un-awaited deduplicated calls `Spec` / `OSpec` and profiler.reset()):
   a thread started after the threads in `dead` have run and exited produces the traces it produces alone *)
Theorem C16_asynq_traces_after_dead_threads : forall perf progs dead sch i, count i dead = O ->
  l_trace (g_loc (trun (dead ++ sch) (init_global perf progs)) i) =
  l_trace (g_loc (trun (repeat i (count i sch)) (init_global perf progs)) i).
Proof. exact traces_after_dead_threads. Qed.
Print Assumptions C16_asynq_traces_after_dead_threads.

(* the generation-wise schedules evaluated by the correspondence (Threads.run_case) *)
Theorem C16_asynq_generation_traces : forall perf progs sizes schs i,
  l_trace (g_loc (trun (gen_schedule progs 0 sizes schs) (init_global perf progs)) i) =
  l_trace (g_loc (trun (repeat i (count i (gen_schedule progs 0 sizes schs))) (init_global perf progs)) i).
Proof. exact generation_traces. Qed.
Print Assumptions C16_asynq_generation_traces.
