(* C11 — batch lifecycle: pending -> flushed | cancelled exactly once; no item left pending; items
   complete before the batch is announced; the registry is switched before the flush body runs.
   Only statements; every proof is `exact <lemma>`.  `good w` is the invariant (BatchProofs.good)
   that C11_reachable_good establishes for every world reachable from Batch.init by ANY op history
   under ANY list of flush scripts. *)
From Asynq Require Import Base Batch proofs.BatchProofs.
Local Open Scope nat_scope.

Theorem C11_reachable_good : forall sc ops, good (fst (run sc init ops)).
Proof. exact reachable_good. Qed.
Print Assumptions C11_reachable_good.

Theorem C11_good_preserved : forall sc ops w,
  good w -> good (fst (run sc w ops)) /\ mono w (fst (run sc w ops)).
Proof. exact good_run. Qed.
Print Assumptions C11_good_preserved.

Theorem C11_lifecycle_once : forall w, good w ->
  (forall b, b < nb w ->
     batch_evs b (log w) = obs_batch w b /\
     length (body_evs b (log w)) = bruns (bat w b) /\ bruns (bat w b) <= 1 /\
     (bout (bat w b) = None -> bruns (bat w b) = 0)) /\
  (forall i, i < ni w -> item_evs i (log w) = obs_item w i).
Proof. exact lifecycle_once. Qed.
Print Assumptions C11_lifecycle_once.

Theorem C11_outcomes_stable : forall sc ops w, good w -> mono w (fst (run sc w ops)).
Proof. exact outcomes_stable. Qed.
Print Assumptions C11_outcomes_stable.

Theorem C11_flush_pending : forall sc w b, good w -> b < nb w -> bout (bat w b) = None ->
  exists w', step sc w (OFlush b) = (w', RUnit) /\ bout (bat w' b) <> None /\
             bruns (bat w' b) = 1 /\ bitems (bat w' b) = [] /\ good w'.
Proof. exact flush_pending. Qed.
Print Assumptions C11_flush_pending.

Theorem C11_second_flush : forall sc w b o, b < nb w -> bout (bat w b) = Some o ->
  step sc w (OFlush b) = (w, RRaise E_BATCHING).
Proof. exact second_flush. Qed.
Print Assumptions C11_second_flush.

Theorem C11_cancel : forall sc w b oe, b < nb w ->
  snd (step sc w (OCancel b oe)) = RUnit /\
  (forall o, bout (bat w b) = Some o -> fst (step sc w (OCancel b oe)) = w) /\
  (good w -> bout (bat w b) = None ->
   let w' := fst (step sc w (OCancel b oe)) in
   bout (bat w' b) = Some (Err (match oe with Some e => e | None => E_CANCELLED end)) /\
   bruns (bat w' b) = 0 /\ good w').
Proof. exact cancel_spec. Qed.
Print Assumptions C11_cancel.

Theorem C11_no_add_to_finished : forall sc w b v o, b < nb w -> bout (bat w b) = Some o ->
  step sc w (OAddTo b v) = (w, RRaise E_ADDFLUSHED).
Proof. exact no_add_to_finished. Qed.
Print Assumptions C11_no_add_to_finished.

Theorem C11_add_joins_active : forall sc w v, good w ->
  let w' := fst (step sc w (OAdd v)) in
  snd (step sc w (OAdd v)) = RItem (ni w) (active w) /\
  bout (bat w (active w)) = None /\ active w < nb w /\
  ibatch (itm w' (ni w)) = active w /\ In (ni w) (bitems (bat w' (active w))) /\ ni w' = S (ni w).
Proof. exact add_joins_active. Qed.
Print Assumptions C11_add_joins_active.

Theorem C11_no_item_left_pending : forall w i, good w -> i < ni w ->
  bout (bat w (ibatch (itm w i))) <> None -> iout (itm w i) <> None.
Proof. exact no_item_left_pending. Qed.
Print Assumptions C11_no_item_left_pending.

Theorem C11_items_before_announce : forall w l1 l2 b o i, good w ->
  log w = l1 ++ EBatch b o :: l2 -> i < ni w -> ibatch (itm w i) = b ->
  exists oi, In (EItem i oi) l1.
Proof. exact items_before_announce. Qed.
Print Assumptions C11_items_before_announce.

Theorem C11_completion_priority : forall sc w b w3 r,
  exec (enter w b) b (script_of sc b) = (w3, r) -> bout (bat w3 b) = None -> b < nb w3 ->
  let w' := compute sc w b in
  bout (bat w' b) = Some (match r with None => Ok VNone | Some e => Err e end) /\
  forall i, In i (bitems (bat w3 b)) ->
    iout (itm w' i) = match iout (itm w3 i) with
                      | Some x => Some x
                      | None => Some (Err (match r with None => E_NOTSET | Some e => e end))
                      end.
Proof. exact compute_priority. Qed.
Print Assumptions C11_completion_priority.

Theorem C11_computed_items : forall w b o, b < nb w ->
  let w' := batch_computed w b o in
  (forall i x, iout (itm w i) = Some x -> iout (itm w' i) = Some x) /\
  (forall i, iout (itm w i) = None -> In i (bitems (bat w b)) -> iout (itm w' i) = Some (leftover o)) /\
  (forall i, iout (itm w i) = None -> ~ In i (bitems (bat w b)) -> iout (itm w' i) = None).
Proof. exact batch_computed_items. Qed.
Print Assumptions C11_computed_items.

Theorem C11_item_value_flushes : forall sc w i, good w -> i < ni w -> iout (itm w i) = None ->
  let b := ibatch (itm w i) in
  let w' := fst (step sc w (OItemValue i)) in
  bout (bat w b) = None /\ bout (bat w' b) <> None /\ bruns (bat w' b) = 1 /\
  exists o, iout (itm w' i) = Some o /\ snd (step sc w (OItemValue i)) = report_value (Some o).
Proof. exact item_value_flushes. Qed.
Print Assumptions C11_item_value_flushes.

Theorem C11_single_assignment : forall sc w,
  (forall i o v, i < ni w -> iout (itm w i) = Some o -> step sc w (OItemSet i v) = (w, RRaise E_ALREADY)) /\
  (forall i o e, i < ni w -> iout (itm w i) = Some o -> step sc w (OItemSetErr i e) = (w, RRaise E_ALREADY)) /\
  (forall b o v, b < nb w -> bout (bat w b) = Some o -> step sc w (OBatchSet b v) = (w, RRaise E_ALREADY)) /\
  (forall b o e, b < nb w -> bout (bat w b) = Some o -> step sc w (OBatchSetErr b e) = (w, RRaise E_ALREADY)).
Proof. exact single_assignment. Qed.
Print Assumptions C11_single_assignment.

Theorem C11_fresh_batch : forall w b, good w -> b < nb w ->
  let w1 := enter w b in
  active w1 <> b /\ bout (bat w1 (active w1)) = None /\
  (exists l, log w1 = l ++ [EBody b (active w1)]) /\
  (forall acts, active (fst (exec w1 b acts)) = active w1) /\
  (forall w' v, active w' <> b -> good w' ->
     let w'' := fst (exec1 w' b (ANew v)) in
     ni w'' = S (ni w') /\ ibatch (itm w'' (ni w')) = active w' /\ ibatch (itm w'' (ni w')) <> b).
Proof. exact fresh_batch. Qed.
Print Assumptions C11_fresh_batch.

Theorem C11_registry_ok : forall w, good w ->
  active w < nb w /\ bout (bat w (active w)) = None /\
  forall b, b < nb w -> Forall (fun a => a <> b) (body_evs b (log w)).
Proof. exact registry_ok. Qed.
Print Assumptions C11_registry_ok.

(* ---- re-entrant requests while the flush body of a batch runs (flush scripts with ARead / AReflush /
   ASetRead; all theorems above quantify over these scripts too, so "body entered at most once" holds for them) *)

Theorem C11_body_worlds_inv : forall w b acts, good w -> b < nb w ->
  inv None (fst (exec (enter w b) b acts)) /\ b < nb (fst (exec (enter w b) b acts)).
Proof. exact body_worlds_inv. Qed.
Print Assumptions C11_body_worlds_inv.

Theorem C11_reentrant_read : forall w b k kd c i,
  inv None w -> b < nb w -> nth_error (bitems (bat w b)) k = Some i ->
  let r := sibling_read w b i kd in
  let w' := fst (exec1 w b (ARead k kd c)) in
  exec1 w b (ARead k kd c) = (emit w (ERead b i r), if c then None else raised r) /\
  bat w' = bat w /\ itm w' = itm w /\ nb w' = nb w /\ ni w' = ni w /\ active w' = active w /\
  r <> RNotComputed /\ r <> RSkip /\
  (iout (itm w i) = None -> bout (bat w b) = None /\ r = RRaise E_BATCHING) /\
  (forall o, iout (itm w i) = Some o -> r = rep_of kd (Some o)).
Proof. exact reentrant_read. Qed.
Print Assumptions C11_reentrant_read.

Theorem C11_reflush_refused : forall w b c,
  exec1 w b (AReflush c) = (emit w (EReflush b (RRaise E_BATCHING)), if c then None else Some E_BATCHING).
Proof. exact reflush_refused. Qed.
Print Assumptions C11_reflush_refused.

Theorem C11_batch_reread_refused : forall w b kd c,
  let r := batch_reread w b kd in
  exec1 w b (AReadBatch kd c) = (emit w (EBRead b r), if c then None else raised r) /\
  (bout (bat w b) = None -> r = RRaise E_BATCHING) /\
  (forall o, bout (bat w b) = Some o -> r = rep_of kd (Some o)).
Proof. exact batch_reread_refused. Qed.
Print Assumptions C11_batch_reread_refused.

Theorem C11_subscriber_read : forall w b k v j kd i i2,
  inv None w -> b < nb w -> nth_error (bitems (bat w b)) k = Some i -> iout (itm w i) = None ->
  nth_error (bitems (bat w b)) j = Some i2 ->
  let w1 := complete_item w i (Ok v) in
  let r := sibling_read w1 b i2 kd in
  exec1 w b (ASetRead k v j kd) = (emit w1 (ERead b i2 r), None) /\
  (i2 = i -> r = rep_of kd (Some (Ok v))) /\
  (i2 <> i -> iout (itm w i2) = None ->
     r = RRaise E_BATCHING /\ iout (itm (emit w1 (ERead b i2 r)) i2) = None) /\
  bat (emit w1 (ERead b i2 r)) = bat w.
Proof. exact set_read_spec. Qed.
Print Assumptions C11_subscriber_read.

Theorem C11_reentrant_requests_refused : forall sc ops,
  Forall read_ok (log (fst (run sc init ops))) /\
  forall b, b < nb (fst (run sc init ops)) -> bruns (bat (fst (run sc init ops)) b) <= 1.
Proof. exact reads_refused_run. Qed.
Print Assumptions C11_reentrant_requests_refused.
