(* C05 — each batch is flushed once, highest priority first; every item is answered.
   Statements only; proofs in proofs/MachineC05.v (function level), proofs/MachineTrace.v and
   proofs/MachineC05T.v (trace level).

   PROVED, function level (every scheduler state, priority assignment and oracle = set iteration
   order): _select_batch_to_flush picks a scheduled, pending, non-empty batch of maximal priority
   (C05_select_greatest_priority, C05_selected_batch_nonempty_pending) or none iff nothing is
   eligible; a done batch is never flushed again; a flush answers every item; one scheduler flush is
   before / body / item completions / after.

   PROVED, trace level, for EVERY program (stored handles, synchronous re-entry), parameter record
   (priorities, raising flush bodies, oracle), history and fuel, about snd (run_case P fuel ps):
   - C05_each_batch_flushed_at_most_once: at most one EvFlush per batch (kind, index);
   - C05_item_completed_at_most_once (T1): at most one EvItemDone per item;
   - C05_scheduler_flush_only_while_waiting_step / _run (T2): an EvBefore (or EvAfter) is emitted only
     by the transition from mode MAfterExec with innermost frame FWait root and root NOT computed -
     for every configuration, and along a run with the index k < n of the emitting step.  Nested
     synchronous calls have their own FWait frame, so this covers them;
   - C05_trace_is_blocks (T3+T4): the chronological trace is a concatenation of tame events (no
     EvBefore/EvAfter/EvFlush/EvItemDone), unbracketed flushes forced by item.value()
     (EvFlush k i items; dones) and scheduler flushes
     (EvBefore k i; EvFlush k i items; dones; EvAfter k i) with items <> [], where
     served items dones: dones are completions of members of items only and every member has one;
     corollaries C05_before_flush_after (every EvBefore is immediately followed by the EvFlush of
     the same batch, non-empty, then exactly the completions of its items, then its EvAfter - also
     when the flush body raises, see C05_after_fires_when_flush_raises), C05_after_closes_block,
     C05_flush_serves_its_items, C05_item_completed_exactly_once_by_its_flush (an item of a flushed
     batch has exactly one EvItemDone in the whole trace, among the completions of that flush),
     C05_item_done_by_its_flush (every EvItemDone h lies in a flush whose item list contains h),
     C05_brackets_at_most_once (EvBefore k i and EvAfter k i occur equally often and at most once);
   - step-level invariants C05_blocks_invariant_step, C05_batch_items_invariant_step.
   No generic statement had to be refuted.

   NOT proved here: that the outcome carried by EvItemDone is the one the flush body set / the one
   stored in the heap afterwards (function level only: MachineC05T.fx, by the definition of
   flush_body), the greatest-priority choice as a trace property (the trace does not show the set of
   pending batches; function level only, C05_select_greatest_priority), and a purely trace-level
   form of T2 for run_case (T2 is stated on the configurations of [run]). *)
From Asynq Require Import Machine proofs.MachineC05 proofs.MachineTrace proofs.MachineC05T proofs.MachineC05P.

Theorem C05_select_greatest_priority : forall P s k s',
  select P s = (Some k, s') ->
  In k (sb s) /\ eligible k s = true /\
  (forall k', In k' (sb s) -> eligible k' s = true -> prio_lt (prio_of P k s) (prio_of P k' s) = false) /\
  sb s' = filter (fun k => eligible k s) (sb s).
Proof. exact select_spec. Qed.
Print Assumptions C05_select_greatest_priority.

Theorem C05_select_none_iff_nothing_eligible : forall P s s',
  select P s = (None, s') -> forall k, In k (sb s) -> eligible k s = false.
Proof. exact select_none. Qed.
Print Assumptions C05_select_none_iff_nothing_eligible.

Theorem C05_flushed_batch_never_flushed_again : forall P k s,
  b_done (get_batch k s) = true -> flush_batch P k s = s.
Proof. exact flush_done_is_noop. Qed.
Print Assumptions C05_flushed_batch_never_flushed_again.

Theorem C05_flush_answers_every_item : forall P k s,
  b_done (get_batch k s) = false ->
  let s' := flush_batch P k s in
  (exists evs, trace s' = evs ++ EvFlush (fst k) (snd k) (b_items (get_batch k s)) :: trace s /\
               Forall flush_event evs) /\
  b_done (get_batch k s') = true /\
  (forall h, In h (b_items (get_batch k s)) -> get h s <> None -> computed h s' = true) /\
  (forall h, computed h s = true -> computed h s' = true).
Proof. exact flush_pending. Qed.
Print Assumptions C05_flush_answers_every_item.

Theorem C05_events_bracket_one_flush : forall P s,
  match select P s with
  | (None, s1) => continue_with_batch P s = s1
  | (Some k, s1) =>
    let s' := continue_with_batch P s in
    (exists evs, trace s' = EvAfter (fst k) (snd k) :: evs ++
                            EvFlush (fst k) (snd k) (b_items (get_batch k s)) :: EvBefore (fst k) (snd k) :: trace s1 /\
                 Forall flush_event evs) /\
    b_done (get_batch k s') = true /\
    ~ In k (sb s') /\
    (forall h, In h (b_items (get_batch k s)) -> get h s <> None -> computed h s' = true)
  end.
Proof. exact continue_with_batch_spec. Qed.
Print Assumptions C05_events_bracket_one_flush.

(* trace level, every program: in the event trace of any history of computations run by the machine,
   the flush body of each batch (kind, index) occurs at most once *)
Theorem C05_each_batch_flushed_at_most_once : forall P fuel ps k,
  (count_flush k (snd (run_case P fuel ps)) <= 1)%nat.
Proof. exact run_case_flush_at_most_once. Qed.
Print Assumptions C05_each_batch_flushed_at_most_once.

Theorem C05_flush_once_invariant_step : forall P c, FInv (c_st c) -> FInv (c_st (step P c)).
Proof. exact FInv_step. Qed.
Print Assumptions C05_flush_once_invariant_step.

(* ------------------------------------------------------------------ trace level (proofs/MachineC05T.v) *)
(* T1: every batch item is completed at most once *)
Theorem C05_item_completed_at_most_once : forall P fuel ps h,
  (cnt h (snd (run_case P fuel ps)) <= 1)%nat.
Proof. exact run_case_item_done_at_most_once. Qed.
Print Assumptions C05_item_completed_at_most_once.

(* T2, step level, every configuration: a transition that emits EvBefore is the scheduler's flush
   transition, taken only while the awaited computation is not complete *)
Theorem C05_scheduler_flush_only_while_waiting_step : forall P c evs kind idx,
  trace (c_st (step P c)) = evs ++ trace (c_st c) -> In (EvBefore kind idx) evs ->
  c_mode c = MAfterExec /\ exists root fr, c_frames c = FWait root :: fr /\ computed root (c_st c) = false.
Proof. exact step_before_only_when_waiting. Qed.
Print Assumptions C05_scheduler_flush_only_while_waiting_step.

(* the same for any bracket event (EvBefore or EvAfter) *)
Theorem C05_bracket_events_only_from_scheduler_flush : forall P c evs e,
  trace (c_st (step P c)) = evs ++ trace (c_st c) -> In e evs -> ~ plain e ->
  c_mode c = MAfterExec /\ exists root fr, c_frames c = FWait root :: fr /\ computed root (c_st c) = false.
Proof. exact step_bracket_origin. Qed.
Print Assumptions C05_bracket_events_only_from_scheduler_flush.

(* T2, run level: every EvBefore in the trace after n steps was already there or was emitted by step
   number k < n from such a configuration *)
Theorem C05_scheduler_flush_only_while_waiting_run : forall P n c0 kind idx,
  In (EvBefore kind idx) (trace (c_st (run P n c0))) ->
  In (EvBefore kind idx) (trace (c_st c0)) \/
  exists k root fr evs,
    (k < n)%nat /\ c_mode (run P k c0) = MAfterExec /\ c_frames (run P k c0) = FWait root :: fr /\
    computed root (c_st (run P k c0)) = false /\
    trace (c_st (run P (S k) c0)) = evs ++ trace (c_st (run P k c0)) /\ In (EvBefore kind idx) evs.
Proof. exact run_before_origin. Qed.
Print Assumptions C05_scheduler_flush_only_while_waiting_run.

(* [greatest P k s] (proofs/MachineC05P.v) unfolds to:  In k (sb s) /\ eligible k s = true /\
   forall k', In k' (sb s) -> eligible k' s = true -> prio_lt (prio_of P k s) (prio_of P k' s) = false *)
(* priority at trace level, every program / history / oracle / fuel: a transition that announces a scheduler
   flush (EvBefore kind idx) starts from a state in which that batch is in the scheduler's set, pending, non-empty
   and no other scheduled pending non-empty batch has a strictly greater priority; afterwards the batch is done
   and no longer scheduled *)
Theorem C05_scheduler_flush_is_greatest_priority_step : forall P c evs kind idx,
  trace (c_st (step P c)) = evs ++ trace (c_st c) -> In (EvBefore kind idx) evs ->
  greatest P (kind, idx) (c_st c) /\
  b_done (get_batch (kind, idx) (c_st (step P c))) = true /\ ~ In (kind, idx) (sb (c_st (step P c))).
Proof. exact step_before_is_greatest. Qed.
Print Assumptions C05_scheduler_flush_is_greatest_priority_step.

(* run level: every EvBefore in the trace after n steps was there before or was emitted by step number k < n from
   a configuration in whose state the batch was a greatest-priority scheduled pending batch *)
Theorem C05_scheduler_flush_is_greatest_priority_run : forall P n c0 kind idx,
  In (EvBefore kind idx) (trace (c_st (run P n c0))) ->
  In (EvBefore kind idx) (trace (c_st c0)) \/
  exists k, (k < n)%nat /\ greatest P (kind, idx) (c_st (run P k c0)) /\
            b_done (get_batch (kind, idx) (c_st (run P (S k) c0))) = true.
Proof. exact run_before_is_greatest. Qed.
Print Assumptions C05_scheduler_flush_is_greatest_priority_run.

(* T3: the batch the scheduler picks is non-empty and neither flushed nor cancelled *)
Theorem C05_selected_batch_nonempty_pending : forall P s k s1,
  select P s = (Some k, s1) -> b_items (get_batch k s) <> [] /\ b_done (get_batch k s) = false.
Proof. exact select_nonempty_pending. Qed.
Print Assumptions C05_selected_batch_nonempty_pending.

(* T3 + T4: the whole chronological trace is made of tame events, unbracketed flush blocks and
   bracketed, non-empty scheduler flush blocks *)
Theorem C05_trace_is_blocks : forall P fuel ps, blocks (snd (run_case P fuel ps)).
Proof. exact run_case_blocks. Qed.
Print Assumptions C05_trace_is_blocks.

Theorem C05_before_flush_after : forall P fuel ps l1 l2 kind idx,
  snd (run_case P fuel ps) = l1 ++ EvBefore kind idx :: l2 ->
  exists items dones l3, l2 = EvFlush kind idx items :: dones ++ EvAfter kind idx :: l3 /\
                         items <> [] /\ served items dones.
Proof. exact run_case_before_flush_after. Qed.
Print Assumptions C05_before_flush_after.

Theorem C05_after_closes_block : forall P fuel ps l1 l2 kind idx,
  snd (run_case P fuel ps) = l1 ++ EvAfter kind idx :: l2 ->
  exists items dones l0, l1 = l0 ++ EvBefore kind idx :: EvFlush kind idx items :: dones /\
                         items <> [] /\ served items dones.
Proof. exact run_case_after_closes_block. Qed.
Print Assumptions C05_after_closes_block.

(* every flush body, bracketed or not, is followed by the completions of exactly its items
   (served items dones = only completions of members of items, and every member has one) *)
Theorem C05_flush_serves_its_items : forall P fuel ps l1 l2 kind idx items,
  snd (run_case P fuel ps) = l1 ++ EvFlush kind idx items :: l2 ->
  exists dones l3, l2 = dones ++ l3 /\ served items dones.
Proof. exact run_case_flush_serves_its_items. Qed.
Print Assumptions C05_flush_serves_its_items.

(* every item of a flushed batch is completed exactly once in the whole trace, by that flush *)
Theorem C05_item_completed_exactly_once_by_its_flush : forall P fuel ps l1 l2 kind idx items h,
  snd (run_case P fuel ps) = l1 ++ EvFlush kind idx items :: l2 -> In h items ->
  cnt h (snd (run_case P fuel ps)) = 1%nat /\
  exists dones l3 o, l2 = dones ++ l3 /\ served items dones /\ In (EvItemDone h o) dones.
Proof. exact run_case_item_exactly_once. Qed.
Print Assumptions C05_item_completed_exactly_once_by_its_flush.

Theorem C05_item_done_by_its_flush : forall P fuel ps l1 l2 h o,
  snd (run_case P fuel ps) = l1 ++ EvItemDone h o :: l2 ->
  exists kind idx items l0 dones, l1 = l0 ++ EvFlush kind idx items :: dones /\
                                  In h items /\ Forall (done_in items) dones.
Proof. exact run_case_item_done_by_its_flush. Qed.
Print Assumptions C05_item_done_by_its_flush.

Theorem C05_brackets_at_most_once : forall P fuel ps k,
  (count_before k (snd (run_case P fuel ps)) <= 1)%nat /\
  count_after k (snd (run_case P fuel ps)) = count_before k (snd (run_case P fuel ps)).
Proof. exact run_case_brackets_at_most_once. Qed.
Print Assumptions C05_brackets_at_most_once.

(* the invariant behind T1/T3/T4 is preserved by every transition of the machine *)
Theorem C05_blocks_invariant_step : forall P c, Inv (c_st c) -> Inv (c_st (step P c)).
Proof. exact Inv_step. Qed.
Print Assumptions C05_blocks_invariant_step.

(* the heap invariant behind "every item is served": every member of a batch is a heap entry recording
   that batch, without outcome while the batch is pending *)
Theorem C05_batch_items_invariant_step : forall P c, dom (c_st c) -> BI (c_st c) -> BI (c_st (step P c)).
Proof. exact BI_step. Qed.
Print Assumptions C05_batch_items_invariant_step.

(* non-vacuity: a scheduler flush, and one inside a synchronous call nested in a task *)
Theorem C05_trace_example :
  run_case (mkP [] 1000 false []) 100%nat [c05_demo1; c05_demo2] =
  ([Some (Ok (VTuple [VInt 5; VInt 6])); Some (Ok (VInt 7))],
   [EvStep [0] 0 (Ok VNone); EvBefore 0 0; EvFlush 0 0 [[1]; [2]];
    EvItemDone [1] (Ok (VInt 5)); EvItemDone [2] (Ok (VInt 6)); EvAfter 0 0;
    EvStep [0] 1 (Ok (VTuple [VInt 5; VInt 6])); EvDone [0] (Ok (VTuple [VInt 5; VInt 6])); EvSched 0 0 None;
    EvStep [3] 0 (Ok VNone); EvStep [4] 0 (Ok VNone); EvBefore 0 1; EvFlush 0 1 [[5]];
    EvItemDone [5] (Ok (VInt 7)); EvAfter 0 1; EvStep [4] 1 (Ok (VInt 7)); EvDone [4] (Ok (VInt 7));
    EvGot [3] (Ok (VInt 7)); EvDone [3] (Ok (VInt 7)); EvSched 0 0 None]).
Proof. exact c05_demo_trace. Qed.
Print Assumptions C05_trace_example.

(* the after event fires even when the flush body raises *)
Theorem C05_after_fires_when_flush_raises :
  snd (run_case (mkP [(0, mkK PDefault (Some (1, 77)))] 1000 false []) 100%nat [c05_demo1]) =
  [EvStep [0] 0 (Ok VNone); EvBefore 0 0; EvFlush 0 0 [[1]; [2]];
   EvItemDone [1] (Ok (VInt 5)); EvItemDone [2] (Err 77); EvAfter 0 0;
   EvStep [0] 1 (Err 77); EvDone [0] (Err 77); EvSched 0 0 None].
Proof. exact c05_demo_raise. Qed.
Print Assumptions C05_after_fires_when_flush_raises.
