(* C05 — each batch is flushed once, highest priority first; every item is answered.
   Statements only; proofs in proofs/MachineC05.v (function level), proofs/MachineTrace.v,
   proofs/MachineC05T.v (trace level), proofs/MachineC05P.v (priority), proofs/MachineC05O.v (outcomes).

   PROVED, function level (every scheduler state, priority assignment and oracle = set iteration
   order): _select_batch_to_flush picks a scheduled, pending, non-empty batch of maximal priority
   (C05_select_greatest_priority, C05_selected_batch_nonempty_pending) or none iff nothing is
   eligible; a done batch is never flushed again; a flush answers every item; one scheduler flush is
   before / body / item completions / after.

   PROVED, trace level, for EVERY program (stored handles, synchronous re-entry), parameter record
   (priorities, raising flush bodies, oracle), history and fuel, about snd (run_case P fuel ps):
   - C05_each_batch_flushed_at_most_once: at most one EvFlush per batch (kind, index);
   - C05_item_completed_at_most_once (T1): at most one EvItemDone per item;
   - C05_scheduler_flush_only_while_waiting_step / _run (T2): an EvBefore (or EvAfter) is emitted only
     by the transition from mode MAfterExec with innermost frame FWait root and root NOT computed -
     for every configuration, and along a run with the index k < n of the emitting step.  Nested
     synchronous calls have their own FWait frame, so this covers them;
   - C05_trace_is_blocks (T3+T4): the chronological trace is a concatenation of tame events (no
     EvBefore/EvAfter/EvFlush/EvItemDone), unbracketed flushes forced by item.value()
     (EvFlush k i items; dones) and scheduler flushes
     (EvBefore k i; EvFlush k i items; dones; EvAfter k i) with items <> [], where
     served items dones: dones are completions of members of items only and every member has one;
     corollaries C05_before_flush_after (every EvBefore is immediately followed by the EvFlush of
     the same batch, non-empty, then exactly the completions of its items, then its EvAfter - also
     when the flush body raises, see C05_after_fires_when_flush_raises), C05_after_closes_block,
     C05_flush_serves_its_items, C05_item_completed_exactly_once_by_its_flush (an item of a flushed
     batch has exactly one EvItemDone in the whole trace, among the completions of that flush),
     C05_item_done_by_its_flush (every EvItemDone h lies in a flush whose item list contains h),
     C05_brackets_at_most_once (EvBefore k i and EvAfter k i occur equally often and at most once);
   - C05_scheduler_flush_is_greatest_priority_step / _run (proofs/MachineC05P.v): a transition that emits
     EvBefore k i starts from a state in which batch (k, i) is scheduled, pending, non-empty and of a
     priority not strictly below that of any other scheduled pending non-empty batch;
   - step-level invariants C05_blocks_invariant_step, C05_batch_items_invariant_step.
   No generic statement of this group had to be refuted.

   PROVED, WHICH outcome a completion carries (proofs/MachineC05O.v), same generality (every program,
   record of knobs, history, fuel):
   - O1, stable outcome: no transition touches a batch-item entry that has an outcome
     (C05_item_outcome_never_overwritten_step / _run), and no transition changes the outcome of ANY
     computed future - task, item, lazy or constant future (C05_computed_outcome_never_changes_step /
     _run); every EvItemDone h o in the trace is recorded in
     the heap: the entry of h is mkFut (Some o) (KItem ...) in the state reached by the emitting
     transition (C05_announced_outcome_is_stored_step), after any number of further transitions
     (C05_announced_outcome_stays_stored_run) and in the final state of run_case
     (C05_announced_outcome_is_final_outcome: outcome_of h = o);
   - O2, which outcome.  Vocabulary (C05_raise_position, C05_reached_is_position_before_raise,
     C05_reached_when_no_raise, C05_expected_outcome_cases): the body of a batch of n items raises iff the
     scripted position k is in 0..n, before item number k (k = n: after the last item);
     [reached ra items h] = h occurs at a position before the raise position (anywhere when the body does
     not raise); [flush_err ra items] = the error raised, if any;
     expected_outcome a rch ferr = Ok v / Err e when rch = true and a = ASet v / AErr e; otherwise Err e'
     when ferr = Some e' (the flush error) and Err E_NOTSET when ferr = None (the "was not set"
     AssertionError).
     Function level, every state (C05_flush_outcomes_function_level, and with the heap invariant BI
     C05_flush_expected_outcome_function_level): every EvItemDone h o emitted by flush_batch of a
     pending batch is for a member of the batch whose entry had no outcome, the entry afterwards holds
     exactly o, and o is the expected outcome of h's scripted action.  Step level, every configuration
     (C05_item_done_expected_step): a completion event gained by a transition is the work of one flush of
     a pending batch of the source state containing h, whose EvFlush is among the gained events, with
     the expected outcome; run level with the index of the emitting step (C05_item_done_expected_run);
     invariant C05_outcome_invariant_step.  Trace level, about snd (run_case P fuel ps) and the final
     heap: C05_flush_block_outcomes (every EvFlush k i items is followed by completions dones with
     oserved: served, and each completion is recorded in the final heap as an item of batch (k, i) with
     the expected outcome), C05_item_completed_once_with_expected_outcome (an item of a flushed batch
     has exactly one EvItemDone in the whole trace, in that block, carrying the expected outcome, which
     is its final outcome), C05_item_done_carries_expected_outcome (the same read from any EvItemDone
     of the trace); C05_flush_block_outcomes_run is the block statement for one run from any
     configuration satisfying the invariant.  Examples C05_outcome_example_no_raise / _raise_at_1 /
     _raise_at_end / _sync_flush / _instance (value, error, flush error, not-set; scheduler flush and
     item.value() flush).
   REFUTED (C05_action_alone_is_false): "an item whose scripted action is ASet v completes with Ok v" -
     false when the body raises before reaching the item; the position relative to the raise is needed.

   NOT proved here: a purely trace-level form of T2 for run_case (T2 is stated on the configurations of
   [run]); cancellation of batches (the machine has no cancel transition: b_done is only set by
   flush_batch, so there is no via-cancel outcome to state); the scripted action of an item is visible
   in the heap entry (KItem kind idx key a), not in the trace, so the O2 trace theorems speak about
   the trace together with the final heap (final_state P fuel ps = snd (run_history P fuel ps (st0 P)),
   whose reversed trace is snd (run_case P fuel ps)). *)
From Asynq Require Import Machine proofs.MachineC05 proofs.MachineTrace proofs.MachineC05T proofs.MachineC05P
  proofs.MachineC05O.

Theorem C05_select_greatest_priority : forall P s k s',
  select P s = (Some k, s') ->
  In k (sb s) /\ eligible k s = true /\
  (forall k', In k' (sb s) -> eligible k' s = true -> prio_lt (prio_of P k s) (prio_of P k' s) = false) /\
  sb s' = filter (fun k => eligible k s) (sb s).
Proof. exact select_spec. Qed.
Print Assumptions C05_select_greatest_priority.

Theorem C05_select_none_iff_nothing_eligible : forall P s s',
  select P s = (None, s') -> forall k, In k (sb s) -> eligible k s = false.
Proof. exact select_none. Qed.
Print Assumptions C05_select_none_iff_nothing_eligible.

Theorem C05_flushed_batch_never_flushed_again : forall P k s,
  b_done (get_batch k s) = true -> flush_batch P k s = s.
Proof. exact flush_done_is_noop. Qed.
Print Assumptions C05_flushed_batch_never_flushed_again.

Theorem C05_flush_answers_every_item : forall P k s,
  b_done (get_batch k s) = false ->
  let s' := flush_batch P k s in
  (exists evs, trace s' = evs ++ EvFlush (fst k) (snd k) (b_items (get_batch k s)) :: trace s /\
               Forall flush_event evs) /\
  b_done (get_batch k s') = true /\
  (forall h, In h (b_items (get_batch k s)) -> get h s <> None -> computed h s' = true) /\
  (forall h, computed h s = true -> computed h s' = true).
Proof. exact flush_pending. Qed.
Print Assumptions C05_flush_answers_every_item.

Theorem C05_events_bracket_one_flush : forall P s,
  match select P s with
  | (None, s1) => continue_with_batch P s = s1
  | (Some k, s1) =>
    let s' := continue_with_batch P s in
    (exists evs, trace s' = EvAfter (fst k) (snd k) :: evs ++
                            EvFlush (fst k) (snd k) (b_items (get_batch k s)) :: EvBefore (fst k) (snd k) :: trace s1 /\
                 Forall flush_event evs) /\
    b_done (get_batch k s') = true /\
    ~ In k (sb s') /\
    (forall h, In h (b_items (get_batch k s)) -> get h s <> None -> computed h s' = true)
  end.
Proof. exact continue_with_batch_spec. Qed.
Print Assumptions C05_events_bracket_one_flush.

(* trace level, every program: in the event trace of any history of computations run by the machine,
   the flush body of each batch (kind, index) occurs at most once *)
Theorem C05_each_batch_flushed_at_most_once : forall P fuel ps k,
  (count_flush k (snd (run_case P fuel ps)) <= 1)%nat.
Proof. exact run_case_flush_at_most_once. Qed.
Print Assumptions C05_each_batch_flushed_at_most_once.

Theorem C05_flush_once_invariant_step : forall P c, FInv (c_st c) -> FInv (c_st (step P c)).
Proof. exact FInv_step. Qed.
Print Assumptions C05_flush_once_invariant_step.

(* ------------------------------------------------------------------ trace level (proofs/MachineC05T.v) *)
(* T1: every batch item is completed at most once *)
Theorem C05_item_completed_at_most_once : forall P fuel ps h,
  (cnt h (snd (run_case P fuel ps)) <= 1)%nat.
Proof. exact run_case_item_done_at_most_once. Qed.
Print Assumptions C05_item_completed_at_most_once.

(* T2, step level, every configuration: a transition that emits EvBefore is the scheduler's flush
   transition, taken only while the awaited computation is not complete *)
Theorem C05_scheduler_flush_only_while_waiting_step : forall P c evs kind idx,
  trace (c_st (step P c)) = evs ++ trace (c_st c) -> In (EvBefore kind idx) evs ->
  c_mode c = MAfterExec /\ exists root fr, c_frames c = FWait root :: fr /\ computed root (c_st c) = false.
Proof. exact step_before_only_when_waiting. Qed.
Print Assumptions C05_scheduler_flush_only_while_waiting_step.

(* the same for any bracket event (EvBefore or EvAfter) *)
Theorem C05_bracket_events_only_from_scheduler_flush : forall P c evs e,
  trace (c_st (step P c)) = evs ++ trace (c_st c) -> In e evs -> ~ plain e ->
  c_mode c = MAfterExec /\ exists root fr, c_frames c = FWait root :: fr /\ computed root (c_st c) = false.
Proof. exact step_bracket_origin. Qed.
Print Assumptions C05_bracket_events_only_from_scheduler_flush.

(* T2, run level: every EvBefore in the trace after n steps was already there or was emitted by step
   number k < n from such a configuration *)
Theorem C05_scheduler_flush_only_while_waiting_run : forall P n c0 kind idx,
  In (EvBefore kind idx) (trace (c_st (run P n c0))) ->
  In (EvBefore kind idx) (trace (c_st c0)) \/
  exists k root fr evs,
    (k < n)%nat /\ c_mode (run P k c0) = MAfterExec /\ c_frames (run P k c0) = FWait root :: fr /\
    computed root (c_st (run P k c0)) = false /\
    trace (c_st (run P (S k) c0)) = evs ++ trace (c_st (run P k c0)) /\ In (EvBefore kind idx) evs.
Proof. exact run_before_origin. Qed.
Print Assumptions C05_scheduler_flush_only_while_waiting_run.

(* [greatest P k s] (proofs/MachineC05P.v) unfolds to:  In k (sb s) /\ eligible k s = true /\
   forall k', In k' (sb s) -> eligible k' s = true -> prio_lt (prio_of P k s) (prio_of P k' s) = false *)
(* priority at trace level, every program / history / oracle / fuel: a transition that announces a scheduler
   flush (EvBefore kind idx) starts from a state in which that batch is in the scheduler's set, pending, non-empty
   and no other scheduled pending non-empty batch has a strictly greater priority; afterwards the batch is done
   and no longer scheduled *)
Theorem C05_scheduler_flush_is_greatest_priority_step : forall P c evs kind idx,
  trace (c_st (step P c)) = evs ++ trace (c_st c) -> In (EvBefore kind idx) evs ->
  greatest P (kind, idx) (c_st c) /\
  b_done (get_batch (kind, idx) (c_st (step P c))) = true /\ ~ In (kind, idx) (sb (c_st (step P c))).
Proof. exact step_before_is_greatest. Qed.
Print Assumptions C05_scheduler_flush_is_greatest_priority_step.

(* run level: every EvBefore in the trace after n steps was there before or was emitted by step number k < n from
   a configuration in whose state the batch was a greatest-priority scheduled pending batch *)
Theorem C05_scheduler_flush_is_greatest_priority_run : forall P n c0 kind idx,
  In (EvBefore kind idx) (trace (c_st (run P n c0))) ->
  In (EvBefore kind idx) (trace (c_st c0)) \/
  exists k, (k < n)%nat /\ greatest P (kind, idx) (c_st (run P k c0)) /\
            b_done (get_batch (kind, idx) (c_st (run P (S k) c0))) = true.
Proof. exact run_before_is_greatest. Qed.
Print Assumptions C05_scheduler_flush_is_greatest_priority_run.

(* T3: the batch the scheduler picks is non-empty and neither flushed nor cancelled *)
Theorem C05_selected_batch_nonempty_pending : forall P s k s1,
  select P s = (Some k, s1) -> b_items (get_batch k s) <> [] /\ b_done (get_batch k s) = false.
Proof. exact select_nonempty_pending. Qed.
Print Assumptions C05_selected_batch_nonempty_pending.

(* T3 + T4: the whole chronological trace is made of tame events, unbracketed flush blocks and
   bracketed, non-empty scheduler flush blocks *)
Theorem C05_trace_is_blocks : forall P fuel ps, blocks (snd (run_case P fuel ps)).
Proof. exact run_case_blocks. Qed.
Print Assumptions C05_trace_is_blocks.

Theorem C05_before_flush_after : forall P fuel ps l1 l2 kind idx,
  snd (run_case P fuel ps) = l1 ++ EvBefore kind idx :: l2 ->
  exists items dones l3, l2 = EvFlush kind idx items :: dones ++ EvAfter kind idx :: l3 /\
                         items <> [] /\ served items dones.
Proof. exact run_case_before_flush_after. Qed.
Print Assumptions C05_before_flush_after.

Theorem C05_after_closes_block : forall P fuel ps l1 l2 kind idx,
  snd (run_case P fuel ps) = l1 ++ EvAfter kind idx :: l2 ->
  exists items dones l0, l1 = l0 ++ EvBefore kind idx :: EvFlush kind idx items :: dones /\
                         items <> [] /\ served items dones.
Proof. exact run_case_after_closes_block. Qed.
Print Assumptions C05_after_closes_block.

(* every flush body, bracketed or not, is followed by the completions of exactly its items
   (served items dones = only completions of members of items, and every member has one) *)
Theorem C05_flush_serves_its_items : forall P fuel ps l1 l2 kind idx items,
  snd (run_case P fuel ps) = l1 ++ EvFlush kind idx items :: l2 ->
  exists dones l3, l2 = dones ++ l3 /\ served items dones.
Proof. exact run_case_flush_serves_its_items. Qed.
Print Assumptions C05_flush_serves_its_items.

(* every item of a flushed batch is completed exactly once in the whole trace, by that flush *)
Theorem C05_item_completed_exactly_once_by_its_flush : forall P fuel ps l1 l2 kind idx items h,
  snd (run_case P fuel ps) = l1 ++ EvFlush kind idx items :: l2 -> In h items ->
  cnt h (snd (run_case P fuel ps)) = 1%nat /\
  exists dones l3 o, l2 = dones ++ l3 /\ served items dones /\ In (EvItemDone h o) dones.
Proof. exact run_case_item_exactly_once. Qed.
Print Assumptions C05_item_completed_exactly_once_by_its_flush.

Theorem C05_item_done_by_its_flush : forall P fuel ps l1 l2 h o,
  snd (run_case P fuel ps) = l1 ++ EvItemDone h o :: l2 ->
  exists kind idx items l0 dones, l1 = l0 ++ EvFlush kind idx items :: dones /\
                                  In h items /\ Forall (done_in items) dones.
Proof. exact run_case_item_done_by_its_flush. Qed.
Print Assumptions C05_item_done_by_its_flush.

Theorem C05_brackets_at_most_once : forall P fuel ps k,
  (count_before k (snd (run_case P fuel ps)) <= 1)%nat /\
  count_after k (snd (run_case P fuel ps)) = count_before k (snd (run_case P fuel ps)).
Proof. exact run_case_brackets_at_most_once. Qed.
Print Assumptions C05_brackets_at_most_once.

(* the invariant behind T1/T3/T4 is preserved by every transition of the machine *)
Theorem C05_blocks_invariant_step : forall P c, Inv (c_st c) -> Inv (c_st (step P c)).
Proof. exact Inv_step. Qed.
Print Assumptions C05_blocks_invariant_step.

(* the heap invariant behind "every item is served": every member of a batch is a heap entry recording
   that batch, without outcome while the batch is pending *)
Theorem C05_batch_items_invariant_step : forall P c, dom (c_st c) -> BI (c_st c) -> BI (c_st (step P c)).
Proof. exact BI_step. Qed.
Print Assumptions C05_batch_items_invariant_step.

(* non-vacuity: a scheduler flush, and one inside a synchronous call nested in a task *)
Theorem C05_trace_example :
  run_case (mkP [] 1000 false []) 100%nat [c05_demo1; c05_demo2] =
  ([Some (Ok (VTuple [VInt 5; VInt 6])); Some (Ok (VInt 7))],
   [EvStep [0] 0 (Ok VNone); EvBefore 0 0; EvFlush 0 0 [[1]; [2]];
    EvItemDone [1] (Ok (VInt 5)); EvItemDone [2] (Ok (VInt 6)); EvAfter 0 0;
    EvStep [0] 1 (Ok (VTuple [VInt 5; VInt 6])); EvDone [0] (Ok (VTuple [VInt 5; VInt 6])); EvSched 0 0 None;
    EvStep [3] 0 (Ok VNone); EvStep [4] 0 (Ok VNone); EvBefore 0 1; EvFlush 0 1 [[5]];
    EvItemDone [5] (Ok (VInt 7)); EvAfter 0 1; EvStep [4] 1 (Ok (VInt 7)); EvDone [4] (Ok (VInt 7));
    EvGot [3] (Ok (VInt 7)); EvDone [3] (Ok (VInt 7)); EvSched 0 0 None]).
Proof. exact c05_demo_trace. Qed.
Print Assumptions C05_trace_example.

(* the after event fires even when the flush body raises *)
Theorem C05_after_fires_when_flush_raises :
  snd (run_case (mkP [(0, mkK PDefault (Some (1, 77)))] 1000 false []) 100%nat [c05_demo1]) =
  [EvStep [0] 0 (Ok VNone); EvBefore 0 0; EvFlush 0 0 [[1]; [2]];
   EvItemDone [1] (Ok (VInt 5)); EvItemDone [2] (Err 77); EvAfter 0 0;
   EvStep [0] 1 (Err 77); EvDone [0] (Err 77); EvSched 0 0 None].
Proof. exact c05_demo_raise. Qed.
Print Assumptions C05_after_fires_when_flush_raises.

(* ------------------------------------------------------------------ outcomes (proofs/MachineC05O.v) *)
(* O2 vocabulary.  raise_pos ra n: where the flush body of a batch of n items raises (before item number p) *)
Theorem C05_raise_position : forall k e n,
  raise_pos (Some (k, e)) n = if (0 <=? k) && (k <=? Z.of_nat n) then Some (Z.to_nat k, e) else None.
Proof. exact raise_pos_spec. Qed.
Print Assumptions C05_raise_position.

Theorem C05_flush_error : forall ra items,
  flush_err ra items = match raise_pos ra (length items) with Some (_, e) => Some e | None => None end.
Proof. exact flush_err_spec. Qed.
Print Assumptions C05_flush_error.

(* when the body raises before item number p, the reached items are those at a position j < p *)
Theorem C05_reached_is_position_before_raise : forall ra items h p e,
  raise_pos ra (length items) = Some (p, e) ->
  (reached ra items h = true <-> exists j, (j < p)%nat /\ nth_error items j = Some h).
Proof. exact reached_position. Qed.
Print Assumptions C05_reached_is_position_before_raise.

Theorem C05_reached_when_no_raise : forall ra items h,
  raise_pos ra (length items) = None -> (reached ra items h = true <-> In h items).
Proof. exact reached_no_raise. Qed.
Print Assumptions C05_reached_when_no_raise.

Theorem C05_expected_outcome_cases : forall v e e',
  (forall ferr, expected_outcome (ASet v) true ferr = Ok v) /\
  (forall ferr, expected_outcome (AErr e) true ferr = Err e) /\
  (forall ferr, expected_outcome ASkip true ferr = fill_of ferr) /\
  (forall a ferr, expected_outcome a false ferr = fill_of ferr) /\
  fill_of (Some e') = Err e' /\ fill_of None = Err E_NOTSET.
Proof. exact expected_outcome_cases. Qed.
Print Assumptions C05_expected_outcome_cases.

(* O1: no transition of the machine touches a batch-item entry that has an outcome *)
Theorem C05_item_outcome_never_overwritten_step : forall P c, dom (c_st c) ->
  forall h f, get h (c_st c) = Some f -> is_itemk f -> f_out f <> None -> get h (c_st (step P c)) = Some f.
Proof. exact stab_step. Qed.
Print Assumptions C05_item_outcome_never_overwritten_step.

Theorem C05_item_outcome_never_overwritten_run : forall P n c, Inv (c_st c) ->
  forall h f, get h (c_st c) = Some f -> is_itemk f -> f_out f <> None -> get h (c_st (run P n c)) = Some f.
Proof. exact stab_run. Qed.
Print Assumptions C05_item_outcome_never_overwritten_run.

(* every future: a transition never changes the outcome of a computed future (its kind field may change:
   a task's bookkeeping is updated) *)
Theorem C05_computed_outcome_never_changes_step : forall P c, dom (c_st c) ->
  forall h f, get h (c_st c) = Some f -> f_out f <> None ->
  exists f', get h (c_st (step P c)) = Some f' /\ f_out f' = f_out f.
Proof. exact pres_step. Qed.
Print Assumptions C05_computed_outcome_never_changes_step.

Theorem C05_computed_outcome_never_changes_run : forall P n c h,
  Inv (c_st c) -> computed h (c_st c) = true ->
  computed h (c_st (run P n c)) = true /\ outcome_of h (c_st (run P n c)) = outcome_of h (c_st c).
Proof. exact run_outcome_never_changes. Qed.
Print Assumptions C05_computed_outcome_never_changes_run.

(* [OutInv s] (proofs/MachineC05O.v) unfolds to:  forall h o, In (EvItemDone h o) (trace s) ->
   exists kind idx key a, get h s = Some (mkFut (Some o) (KItem kind idx key a)) *)
Theorem C05_announced_outcome_is_stored_step : forall P c,
  dom (c_st c) -> BI (c_st c) -> OutInv (c_st c) -> OutInv (c_st (step P c)).
Proof. exact OutInv_step. Qed.
Print Assumptions C05_announced_outcome_is_stored_step.

(* [OInv P s] = Inv s /\ OutInv s /\ gblocksR (oserved P s) (trace s); it holds for st0 P and is preserved by
   every transition (C05_outcome_invariant_step below).  The outcome announced by a completion event after
   n transitions is the outcome of the item after n + m transitions, for every m *)
Theorem C05_announced_outcome_stays_stored_run : forall P n m c h o,
  OInv P (c_st c) -> In (EvItemDone h o) (trace (c_st (run P n c))) ->
  (exists kind idx key a, get h (c_st (run P (n + m) c)) = Some (mkFut (Some o) (KItem kind idx key a))) /\
  computed h (c_st (run P (n + m) c)) = true /\ outcome_of h (c_st (run P (n + m) c)) = o.
Proof. exact run_outcome_stable. Qed.
Print Assumptions C05_announced_outcome_stays_stored_run.

(* final_state P fuel ps = snd (run_history P fuel ps (st0 P)) *)
Theorem C05_final_state_trace : forall P fuel ps,
  snd (run_case P fuel ps) = rev (trace (final_state P fuel ps)).
Proof. exact run_case_trace. Qed.
Print Assumptions C05_final_state_trace.

Theorem C05_announced_outcome_is_final_outcome : forall P fuel ps h o,
  In (EvItemDone h o) (snd (run_case P fuel ps)) ->
  (exists kind idx key a, get h (final_state P fuel ps) = Some (mkFut (Some o) (KItem kind idx key a))) /\
  computed h (final_state P fuel ps) = true /\ outcome_of h (final_state P fuel ps) = o.
Proof. exact run_case_outcome_stored. Qed.
Print Assumptions C05_announced_outcome_is_final_outcome.

(* O2, function level, EVERY state s and pending batch k (no invariant needed): the EvFlush is emitted,
   entries with an outcome are untouched, and every completion event is for a member of the batch whose
   entry had no outcome, stores exactly the announced outcome, which is what the member's scripted
   action sets (act_of h s) if the body reaches it, else the flush error / not-set outcome *)
Theorem C05_flush_outcomes_function_level : forall P k s evs,
  b_done (get_batch k s) = false ->
  trace (flush_batch P k s) = evs ++ trace s ->
  let items := b_items (get_batch k s) in
  let ra := ks_raise (kspec_of P (fst k)) in
  In (EvFlush (fst k) (snd k) items) evs /\
  (forall h f, get h s = Some f -> f_out f <> None -> get h (flush_batch P k s) = Some f) /\
  (forall h o, In (EvItemDone h o) evs ->
     In h items /\
     exists f, get h s = Some f /\ f_out f = None /\
               get h (flush_batch P k s) = Some (mkFut (Some o) (f_kind f)) /\
               o = match (if reached ra items h then act_of h s else None) with
                   | Some o' => o' | None => fill_of (flush_err ra items) end).
Proof. exact flush_batch_events. Qed.
Print Assumptions C05_flush_outcomes_function_level.

(* with the heap invariant BI: the expected outcome of the scripted action a recorded in the item entry *)
Theorem C05_flush_expected_outcome_function_level : forall P k s evs h o,
  BI s -> b_done (get_batch k s) = false ->
  trace (flush_batch P k s) = evs ++ trace s -> In (EvItemDone h o) evs ->
  let items := b_items (get_batch k s) in
  let ra := ks_raise (kspec_of P (fst k)) in
  In h items /\
  exists key a, get h s = Some (mkFut None (KItem (fst k) (snd k) key a)) /\
                get h (flush_batch P k s) = Some (mkFut (Some o) (KItem (fst k) (snd k) key a)) /\
                o = expected_outcome a (reached ra items h) (flush_err ra items).
Proof. exact flush_batch_item_done. Qed.
Print Assumptions C05_flush_expected_outcome_function_level.

(* O2, step level, every configuration whose heap satisfies BI: a completion event gained by one transition
   is the work of one flush of a pending batch k of the source state that contains h *)
Theorem C05_item_done_expected_step : forall P c evs h o,
  BI (c_st c) ->
  trace (c_st (step P c)) = evs ++ trace (c_st c) -> In (EvItemDone h o) evs ->
  exists k key a,
    let items := b_items (get_batch k (c_st c)) in
    let ra := ks_raise (kspec_of P (fst k)) in
    b_done (get_batch k (c_st c)) = false /\ In h items /\
    In (EvFlush (fst k) (snd k) items) evs /\
    get h (c_st c) = Some (mkFut None (KItem (fst k) (snd k) key a)) /\
    get h (c_st (step P c)) = Some (mkFut (Some o) (KItem (fst k) (snd k) key a)) /\
    o = expected_outcome a (reached ra items h) (flush_err ra items).
Proof. exact step_item_done. Qed.
Print Assumptions C05_item_done_expected_step.

(* run level: [item_done_by P s s' evs h o] is the conclusion of the previous theorem with s, s' for the
   source and target states *)
Theorem C05_item_done_expected_run : forall P n c0 h o,
  OInv P (c_st c0) -> In (EvItemDone h o) (trace (c_st (run P n c0))) ->
  In (EvItemDone h o) (trace (c_st c0)) \/
  exists k evs, (k < n)%nat /\
    trace (c_st (run P (S k) c0)) = evs ++ trace (c_st (run P k c0)) /\ In (EvItemDone h o) evs /\
    item_done_by P (c_st (run P k c0)) (c_st (run P (S k) c0)) evs h o.
Proof. exact run_item_done_origin. Qed.
Print Assumptions C05_item_done_expected_run.

Theorem C05_outcome_invariant_initial : forall P, OInv P (st0 P).
Proof. exact OInv_st0. Qed.
Print Assumptions C05_outcome_invariant_initial.

Theorem C05_outcome_invariant_step : forall P c, OInv P (c_st c) -> OInv P (c_st (step P c)).
Proof. exact OInv_step. Qed.
Print Assumptions C05_outcome_invariant_step.

(* O2, trace level.  [oserved P s kind idx items dones] (proofs/MachineC05O.v) unfolds to
     served items dones /\
     forall h o, In (EvItemDone h o) dones ->
       exists key a, get h s = Some (mkFut (Some o) (KItem kind idx key a)) /\
         o = expected_outcome a (reached (ks_raise (kspec_of P kind)) items h)
                                (flush_err (ks_raise (kspec_of P kind)) items) *)
Theorem C05_flush_block_outcomes : forall P fuel ps l1 l2 kind idx items,
  snd (run_case P fuel ps) = l1 ++ EvFlush kind idx items :: l2 ->
  exists dones l3, l2 = dones ++ l3 /\ oserved P (final_state P fuel ps) kind idx items dones.
Proof. exact run_case_flush_outcomes. Qed.
Print Assumptions C05_flush_block_outcomes.

Theorem C05_flush_block_outcomes_run : forall P n c l1 l2 kind idx items,
  OInv P (c_st c) ->
  rev (trace (c_st (run P n c))) = l1 ++ EvFlush kind idx items :: l2 ->
  exists dones l3, l2 = dones ++ l3 /\ oserved P (c_st (run P n c)) kind idx items dones.
Proof. exact run_flush_outcomes. Qed.
Print Assumptions C05_flush_block_outcomes_run.

(* the clause, item by item: exactly once, by that flush, with the expected outcome, which is its final one *)
Theorem C05_item_completed_once_with_expected_outcome : forall P fuel ps l1 l2 kind idx items h,
  snd (run_case P fuel ps) = l1 ++ EvFlush kind idx items :: l2 -> In h items ->
  exists key a,
    let ra := ks_raise (kspec_of P kind) in
    let o := expected_outcome a (reached ra items h) (flush_err ra items) in
    get h (final_state P fuel ps) = Some (mkFut (Some o) (KItem kind idx key a)) /\
    cnt h (snd (run_case P fuel ps)) = 1%nat /\
    exists dones l3, l2 = dones ++ l3 /\ served items dones /\ In (EvItemDone h o) dones.
Proof. exact run_case_item_outcome. Qed.
Print Assumptions C05_item_completed_once_with_expected_outcome.

(* read from the completion event *)
Theorem C05_item_done_carries_expected_outcome : forall P fuel ps l1 l2 h o,
  snd (run_case P fuel ps) = l1 ++ EvItemDone h o :: l2 ->
  exists kind idx items l0 pre key a,
    l1 = l0 ++ EvFlush kind idx items :: pre /\ In h items /\ Forall (done_in items) pre /\
    get h (final_state P fuel ps) = Some (mkFut (Some o) (KItem kind idx key a)) /\
    o = expected_outcome a (reached (ks_raise (kspec_of P kind)) items h)
                           (flush_err (ks_raise (kspec_of P kind)) items).
Proof. exact run_case_item_done_expected. Qed.
Print Assumptions C05_item_done_carries_expected_outcome.

(* non-vacuity: one batch of three items (ASet 5, AErr 9, ASkip).  The body does not raise *)
Theorem C05_outcome_example_no_raise :
  snd (run_case (c05o_P None) 100%nat [c05o_demo3]) =
  [EvStep [0] 0 (Ok VNone); EvBefore 0 0; EvFlush 0 0 [[1]; [2]; [3]];
   EvItemDone [1] (Ok (VInt 5)); EvItemDone [2] (Err 9); EvItemDone [3] (Err E_NOTSET); EvAfter 0 0;
   EvStep [0] 1 (Err 9); EvDone [0] (Err 9); EvSched 0 0 None].
Proof. exact c05o_demo_no_raise. Qed.
Print Assumptions C05_outcome_example_no_raise.

(* the body raises 77 before item number 1 *)
Theorem C05_outcome_example_raise_at_1 :
  snd (run_case (c05o_P (Some (1, 77))) 100%nat [c05o_demo3]) =
  [EvStep [0] 0 (Ok VNone); EvBefore 0 0; EvFlush 0 0 [[1]; [2]; [3]];
   EvItemDone [1] (Ok (VInt 5)); EvItemDone [2] (Err 77); EvItemDone [3] (Err 77); EvAfter 0 0;
   EvStep [0] 1 (Err 77); EvDone [0] (Err 77); EvSched 0 0 None].
Proof. exact c05o_demo_raise_at_1. Qed.
Print Assumptions C05_outcome_example_raise_at_1.

(* the body raises 77 after the last item *)
Theorem C05_outcome_example_raise_at_end :
  snd (run_case (c05o_P (Some (3, 77))) 100%nat [c05o_demo3]) =
  [EvStep [0] 0 (Ok VNone); EvBefore 0 0; EvFlush 0 0 [[1]; [2]; [3]];
   EvItemDone [1] (Ok (VInt 5)); EvItemDone [2] (Err 9); EvItemDone [3] (Err 77); EvAfter 0 0;
   EvStep [0] 1 (Err 9); EvDone [0] (Err 9); EvSched 0 0 None].
Proof. exact c05o_demo_raise_at_end. Qed.
Print Assumptions C05_outcome_example_raise_at_end.

(* a flush forced by item.value() *)
Theorem C05_outcome_example_sync_flush :
  snd (run_case (c05o_P None) 100%nat [c05o_demo_sync]) =
  [EvStep [0] 0 (Ok VNone); EvFlush 0 0 [[1]]; EvItemDone [1] (Err E_NOTSET); EvGot [0] (Err E_NOTSET);
   EvDone [0] (Err E_NOTSET); EvSched 0 0 None].
Proof. exact c05o_demo_sync_flush. Qed.
Print Assumptions C05_outcome_example_sync_flush.

(* the hypotheses of C05_item_completed_once_with_expected_outcome are satisfiable *)
Theorem C05_outcome_example_instance :
  let P := c05o_P (Some (1, 77)) in
  snd (run_case P 100%nat [c05o_demo3]) =
    [EvStep [0] 0 (Ok VNone); EvBefore 0 0] ++ EvFlush 0 0 [[1]; [2]; [3]] ::
    [EvItemDone [1] (Ok (VInt 5)); EvItemDone [2] (Err 77); EvItemDone [3] (Err 77); EvAfter 0 0;
     EvStep [0] 1 (Err 77); EvDone [0] (Err 77); EvSched 0 0 None] /\
  In [2] [[1]; [2]; [3]] /\
  get [2] (final_state P 100%nat [c05o_demo3]) = Some (mkFut (Some (Err 77)) (KItem 0 0 2 (AErr 9))).
Proof. exact c05o_demo_instance. Qed.
Print Assumptions C05_outcome_example_instance.

(* REFUTED: [action_alone_statement] =  forall P fuel ps h o kind idx key v,
     In (EvItemDone h o) (snd (run_case P fuel ps)) ->
     get h (final_state P fuel ps) = Some (mkFut (Some o) (KItem kind idx key (ASet v))) -> o = Ok v *)
Theorem C05_action_alone_is_false : ~ action_alone_statement.
Proof. exact action_alone_is_false. Qed.
Print Assumptions C05_action_alone_is_false.
