(* C05 — each batch is flushed once, highest priority first; every item is answered.
   Statements only; proofs in proofs/MachineC05.v.  These are function-level theorems about the
   model's _select_batch_to_flush / _continue_with_batch / BatchBase.flush for EVERY scheduler
   state, priority assignment and oracle (set iteration order), plus the trace-level theorem
   C05_each_batch_flushed_at_most_once for EVERY program (stored handles and synchronous re-entry
   included), service behaviour, oracle and fuel. *)
From Asynq Require Import Machine proofs.MachineC05 proofs.MachineTrace.

Theorem C05_select_greatest_priority : forall P s k s',
  select P s = (Some k, s') ->
  In k (sb s) /\ eligible k s = true /\
  (forall k', In k' (sb s) -> eligible k' s = true -> prio_lt (prio_of P k s) (prio_of P k' s) = false) /\
  sb s' = filter (fun k => eligible k s) (sb s).
Proof. exact select_spec. Qed.
Print Assumptions C05_select_greatest_priority.

Theorem C05_select_none_iff_nothing_eligible : forall P s s',
  select P s = (None, s') -> forall k, In k (sb s) -> eligible k s = false.
Proof. exact select_none. Qed.
Print Assumptions C05_select_none_iff_nothing_eligible.

Theorem C05_flushed_batch_never_flushed_again : forall P k s,
  b_done (get_batch k s) = true -> flush_batch P k s = s.
Proof. exact flush_done_is_noop. Qed.
Print Assumptions C05_flushed_batch_never_flushed_again.

Theorem C05_flush_answers_every_item : forall P k s,
  b_done (get_batch k s) = false ->
  let s' := flush_batch P k s in
  (exists evs, trace s' = evs ++ EvFlush (fst k) (snd k) (b_items (get_batch k s)) :: trace s /\
               Forall flush_event evs) /\
  b_done (get_batch k s') = true /\
  (forall h, In h (b_items (get_batch k s)) -> get h s <> None -> computed h s' = true) /\
  (forall h, computed h s = true -> computed h s' = true).
Proof. exact flush_pending. Qed.
Print Assumptions C05_flush_answers_every_item.

Theorem C05_events_bracket_one_flush : forall P s,
  match select P s with
  | (None, s1) => continue_with_batch P s = s1
  | (Some k, s1) =>
    let s' := continue_with_batch P s in
    (exists evs, trace s' = EvAfter (fst k) (snd k) :: evs ++
                            EvFlush (fst k) (snd k) (b_items (get_batch k s)) :: EvBefore (fst k) (snd k) :: trace s1 /\
                 Forall flush_event evs) /\
    b_done (get_batch k s') = true /\
    ~ In k (sb s') /\
    (forall h, In h (b_items (get_batch k s)) -> get h s <> None -> computed h s' = true)
  end.
Proof. exact continue_with_batch_spec. Qed.
Print Assumptions C05_events_bracket_one_flush.

(* trace level, every program: in the event trace of any history of computations run by the machine,
   the flush body of each batch (kind, index) occurs at most once *)
Theorem C05_each_batch_flushed_at_most_once : forall P fuel ps k,
  (count_flush k (snd (run_case P fuel ps)) <= 1)%nat.
Proof. exact run_case_flush_at_most_once. Qed.
Print Assumptions C05_each_batch_flushed_at_most_once.

Theorem C05_flush_once_invariant_step : forall P c, FInv (c_st c) -> FInv (c_st (step P c)).
Proof. exact FInv_step. Qed.
Print Assumptions C05_flush_once_invariant_step.
