From Asynq Require Import Machine.
Theorem C05_placeholder : True. Proof. exact I. Qed.
Print Assumptions C05_placeholder.
