(* C08 — active task is always the running one; scheduler is clean after any outcome.
   Statements only; proofs in proofs/MachineC08.v (first five theorems), proofs/MachineC08U.v (the next block) and
   proofs/MachineNoUnwind.v (the last block, tree / stree programs only).
   All theorems are about the executable machine of Machine.v and, except for the last block, hold for EVERY
   program (nested synchronous calls `Let`/`Sync` included; no tree restriction), every parameter record, flush
   oracle and fuel.

   Exceptions unwind through asynq's own frames from two places only (C08_unwind_sources): the
   MAX_TASK_STACK_SIZE guard (RuntimeError, E_RUNTIME) and _queue_exit (FutureIsAlreadyComputed, E_ALREADY).
     [no_unwind P n c]          no unwinding at all during the first n steps          (MachineC08.v)
     [guard_unwind_only P n c]  the only exception that unwinds is the guard's        (MachineC08U.v)
   no_unwind implies guard_unwind_only (C08_no_unwind_is_guard_only), so the first two theorems below are
   special cases of C08_active_is_running_U / C08_clean_after_outcome_U.

   PROVED (under guard_unwind_only, from `start h s` with an empty task stack):
   * C08_active_is_running_U: at every `MRun t p` reached, active_task = Some t - also in a task that caught
     the guard's RuntimeError after its nested synchronous call tripped the guard (C08_guard_caught gives that
     episode step by step; C08_guard_frames: between the guard and the catching value() call there are only
     one _execute and one wait_for frame, never a _continue_with_task frame).
   * C08_clean_after_outcome_U: at `MDone o` (value, exception delivered through value(), or the guard's
     RuntimeError - caught by some task or escaped to the top): tasks = [], active_task as before the call,
     and the set of scheduled batches is [] or exactly what it was before the call.
   * C08_fresh_after_outcome: if additionally sb = [] and active = None before (sched_fresh), the scheduler is
     sched_fresh again.  C08_clean_after_task_outcome: if the root is a task that is not computed yet, sb = []
     afterwards whatever it was before (the call enters wait_for, whose end drops the scheduled batches).
   * The hypothesis cannot be dropped: C08_clean_sb_any_root_is_false refutes "sb = [] afterwards for any
     root and any initial sb" (value() on a computed / non-task future never enters wait_for and never
     touches the scheduler, so batches scheduled before stay).  This is not a defect of asynq: by the theorems
     above no computation that ends leaves a scheduled batch, so no top-level call starts with one.
   * C08_run_root_fresh / C08_run_history_fresh: run_root on a fresh scheduler that ends yields a fresh
     scheduler and the event `EvSched 0 0 None`; so does every history whose computations all end and unwind
     only through the guard (history_ok).
   * Non-vacuity: C08_guard_caught_run (corpus _GUARD_CAUGHT: guard_unwind_only holds, no_unwind does NOT,
     the probes in the catching task show Some [1]) and C08_guard_escapes_run (_GUARD_BATCH: the RuntimeError
     escapes with a batch scheduled; the next computation flushes only its own batch).

   * C08_paused_task_completes_without_pause (proofs/MachineC08P.v): completing a task whose contexts are already
     paused (_contexts_active = False, which _pause_contexts establishes BEFORE it calls any pause()) emits the task's
     EvDone and nothing else - closing its generator runs every open block's __exit__, and none of them calls pause()
     again.  So a context whose pause() fails PERSISTENTLY (on every call from the k-th on) is asked exactly once and
     the model's one-shot fault `PauseRaises k e` stands for it; on the implementation the harness's persistent
     contexts ("sticky") make a second call fail visibly (escaping generator.close()), the monitors judge the rest.

   TREE PROGRAMS (proofs/MachineNoUnwind.v; [tree], [pointwise] of proofs/MachineC01.v; one root computation on st0):
   * C08_tree_step_never_raises_already_computed: from a configuration satisfying the C01 invariant CInv no
     step raises FutureIsAlreadyComputed (a returning body's task is not computed; a resumed task has a live
     generator).  C08_tree_never_raises_already_computed: the FIRST unwinding of a run is E_RUNTIME, and the
     configuration before it is the head of the _execute loop with len(tasks) > MAX_TASK_STACK_SIZE
     ([guard_fires], the boolean test of Machine.step; C08_guard_fires_step: where it holds the step raises).
     So guard_unwind_only - the hypothesis of the theorems above - holds up to and including the first unwinding,
     and no_unwind is equivalent to "the guard is silent" (C08_tree_no_unwind_if_guard_silent, converse for
     every program: C08_no_unwind_guard_silent).
   * C08_tree_stack_bound: in every configuration reached without unwinding the task stack has no duplicates
     and len(tasks) <= number of futures created (top_next).  C08_tree_guard_silent_while_few_futures: hence
     no_unwind holds outright as long as top_next <= MAX_TASK_STACK_SIZE.
   * C08_stree_step_never_raises_already_computed / C08_stree_never_raises_already_computed /
     C08_stree_no_unwind_if_guard_silent: the first two points for [stree] programs (invariant CI of
     proofs/MachineC01S.v); no stack bound there.
   Not covered there: what happens AFTER the guard fired in a tree program (the RuntimeError escapes to the top:
   tree programs have no Sync frame to catch it; C08_clean_after_outcome_U applies once guard_unwind_only is
   known for the rest of the run, which is not proved here).

   NOT proved:
   * anything about a context whose pause() raises when a with block's __exit__ calls it (model: pause_plain never
     raises; `Exit` has no failing continuation);
   * anything about runs in which FutureIsAlreadyComputed (E_ALREADY, raised by _queue_exit in
     MResume / MRun) unwinds: MUnwind pops _continue_with_task frames without restoring active_task and
     leaves the task stack as it is, the invariant says nothing there.  For TREE programs, and for STREE
     programs (tree + synchronous calls of fresh tasks), under a pointwise service this case is now shown
     UNREACHABLE before the first firing of the guard (see the block above); for programs with stored handles,
     and for stree runs after a caught guard error, it stays open;
   * runs that do not reach MDone within the fuel;
   * "the next computation behaves as on a fresh scheduler" as an equality of traces between the second
     computation of a history and the same computation on st0 (here: the scheduler-owned fields tasks / sb /
     active are those of st0; heap, batch registry, scoped values and the id counter are user state). *)
From Asynq Require Import Machine Seq proofs.MachineC08 proofs.MachineC08U proofs.MachineC01 proofs.MachineC01S
     proofs.MachineNoUnwind proofs.MachineC08P.

Theorem C08_active_is_running : forall P h s n t p,
  tasks s = [] -> no_unwind P n (start h s) ->
  c_mode (run P n (start h s)) = MRun t p -> active (c_st (run P n (start h s))) = Some t.
Proof. exact active_is_running. Qed.
Print Assumptions C08_active_is_running.

Theorem C08_clean_after_outcome : forall P h s n o,
  tasks s = [] -> no_unwind P n (start h s) ->
  c_mode (run P n (start h s)) = MDone o ->
  active (c_st (run P n (start h s))) = active s /\ tasks (c_st (run P n (start h s))) = [].
Proof. exact clean_after_outcome. Qed.
Print Assumptions C08_clean_after_outcome.

Theorem C08_step_preserves_frame_discipline : forall a0 P c,
  is_unwind (c_mode c) = false -> Inv a0 c -> Inv a0 (step P c).
Proof. exact step_inv. Qed.
Print Assumptions C08_step_preserves_frame_discipline.

Theorem C08_guard_resets : forall P init fr s,
  (init < length (tasks s))%nat -> (p_maxstack P < Z.of_nat (length (tasks s)))%Z ->
  let c' := step P (mkC MExecLoop (FExec init :: fr) s) in
  c_mode c' = MUnwind E_RUNTIME /\ tasks (c_st c') = [] /\ sb (c_st c') = [] /\ active (c_st c') = active s.
Proof. exact guard_resets. Qed.
Print Assumptions C08_guard_resets.

Theorem C08_hypotheses_satisfiable :
  no_unwind_b demo_P 200 demo_start = true /\
  c_mode (run demo_P 200 demo_start) = MDone (Ok (VInt 5)).
Proof. exact demo_runs_clean. Qed.
Print Assumptions C08_hypotheses_satisfiable.

(* ------------------------------------------------------------------ proofs/MachineC08U.v *)
Theorem C08_no_unwind_is_guard_only : forall P n c, no_unwind P n c -> guard_unwind_only P n c.
Proof. exact no_unwind_guard_only. Qed.
Print Assumptions C08_no_unwind_is_guard_only.

Theorem C08_unwind_sources : forall P c e,
  is_unwind (c_mode c) = false -> c_mode (step P c) = MUnwind e ->
  (e = E_RUNTIME /\ c_mode c = MExecLoop) \/
  (e = E_ALREADY /\ exists t, c_mode c = MResume t \/ exists p, c_mode c = MRun t p).
Proof. exact unwind_sources. Qed.
Print Assumptions C08_unwind_sources.

Theorem C08_guard_frames : forall fr, shape TE fr ->
  exists i r fr', fr = FExec i :: FWait r :: fr' /\
    (fr' = [FTop] \/ exists t k old fr'', fr' = FValue t k :: FCont t old :: fr'' /\ shape TE fr'').
Proof. exact guard_frames. Qed.
Print Assumptions C08_guard_frames.

Theorem C08_step_preserves_Inv2 : forall a0 sb0 P c,
  (forall e, c_mode c = MUnwind e -> e = E_RUNTIME) -> Inv2 a0 sb0 c -> Inv2 a0 sb0 (step P c).
Proof. exact step_inv2. Qed.
Print Assumptions C08_step_preserves_Inv2.

Theorem C08_active_is_running_U : forall P h s n t p,
  tasks s = [] -> guard_unwind_only P n (start h s) ->
  c_mode (run P n (start h s)) = MRun t p -> active (c_st (run P n (start h s))) = Some t.
Proof. exact active_is_running_U. Qed.
Print Assumptions C08_active_is_running_U.

Theorem C08_clean_after_outcome_U : forall P h s n o,
  tasks s = [] -> guard_unwind_only P n (start h s) ->
  c_mode (run P n (start h s)) = MDone o ->
  active (c_st (run P n (start h s))) = active s /\ tasks (c_st (run P n (start h s))) = [] /\
  (sb (c_st (run P n (start h s))) = [] \/ sb (c_st (run P n (start h s))) = sb s).
Proof. exact clean_after_outcome_U. Qed.
Print Assumptions C08_clean_after_outcome_U.

Theorem C08_fresh_after_outcome : forall P h s n o,
  sched_fresh s -> guard_unwind_only P n (start h s) ->
  c_mode (run P n (start h s)) = MDone o -> sched_fresh (c_st (run P n (start h s))).
Proof. exact fresh_after_outcome. Qed.
Print Assumptions C08_fresh_after_outcome.

Theorem C08_clean_after_task_outcome : forall P h s n o out tk,
  tasks s = [] -> get h s = Some (mkFut out (KTask tk)) -> computed h s = false ->
  guard_unwind_only P n (start h s) ->
  c_mode (run P n (start h s)) = MDone o ->
  active (c_st (run P n (start h s))) = active s /\ tasks (c_st (run P n (start h s))) = [] /\
  sb (c_st (run P n (start h s))) = [].
Proof. exact clean_after_task_outcome. Qed.
Print Assumptions C08_clean_after_task_outcome.

Theorem C08_clean_sb_any_root_is_false : ~ clean_sb_any_root_statement.
Proof. exact clean_sb_any_root_is_false. Qed.
Print Assumptions C08_clean_sb_any_root_is_false.

Theorem C08_guard_caught : forall P a0 i r t k fr s,
  Inv a0 (mkC MExecLoop (FExec i :: FWait r :: FValue t k :: fr) s) ->
  (i < length (tasks s))%nat -> (p_maxstack P < Z.of_nat (length (tasks s)))%Z ->
  let c' := run P 4 (mkC MExecLoop (FExec i :: FWait r :: FValue t k :: fr) s) in
  c_mode c' = MRun t (k (Err E_RUNTIME)) /\ c_frames c' = fr /\
  active (c_st c') = Some t /\ tasks (c_st c') = [] /\ sb (c_st c') = [].
Proof. exact guard_caught. Qed.
Print Assumptions C08_guard_caught.

Theorem C08_run_root_fresh : forall P fuel p s o s',
  sched_fresh s -> guard_unwind_only P fuel (root_start p s) ->
  run_root P fuel p s = (Some o, s') ->
  sched_fresh s' /\ exists tr, trace s' = EvSched 0 0 None :: tr.
Proof. exact run_root_fresh. Qed.
Print Assumptions C08_run_root_fresh.

Theorem C08_run_history_fresh : forall P fuel ps s,
  sched_fresh s -> history_ok P fuel ps s -> sched_fresh (snd (run_history P fuel ps s)).
Proof. exact run_history_fresh. Qed.
Print Assumptions C08_run_history_fresh.

Theorem C08_guard_caught_run :
  guard_unwind_only caught_P 200 caught_start /\
  ~ no_unwind caught_P 200 caught_start /\
  c_mode (run caught_P 200 caught_start) = MDone (Ok (VInt 7)) /\
  probes (c_st (run caught_P 200 caught_start)) =
    [EvGot [1] (Err E_RUNTIME); EvProbe [1] (Some [1]); EvProbe [1] (Some [1]);
     EvGot [0] (Ok (VInt 7)); EvProbe [0] (Some [0])] /\
  sched_fresh (c_st (run caught_P 200 caught_start)).
Proof. exact guard_caught_run. Qed.
Print Assumptions C08_guard_caught_run.

Theorem C08_guard_escapes_run :
  history_ok caught_P 200 [escape_prog; next_prog] (st0 caught_P) /\
  fst (run_history caught_P 200 [escape_prog; next_prog] (st0 caught_P)) = [Some (Err E_RUNTIME); Some (Ok (VInt 6))] /\
  filter (fun e => match e with EvSched _ _ _ | EvFlush _ _ _ => true | _ => false end)
         (snd (run_case caught_P 200 [escape_prog; next_prog])) =
    [EvSched 0 0 None; EvFlush 1 0 [[7]]; EvSched 0 0 None].
Proof. exact guard_escapes_run. Qed.
Print Assumptions C08_guard_escapes_run.

(* ------------------------------------------------------------------ proofs/MachineNoUnwind.v (tree programs) *)
Theorem C08_guard_fires_step : forall P c, guard_fires P c = true -> c_mode (step P c) = MUnwind E_RUNTIME.
Proof. exact guard_fires_step. Qed.
Print Assumptions C08_guard_fires_step.

Theorem C08_tree_step_never_raises_already_computed : forall P root res spec c,
  CInv root res spec c -> is_unwind (c_mode c) = false -> c_mode (step P c) <> MUnwind E_ALREADY.
Proof. exact tree_step_not_already. Qed.
Print Assumptions C08_tree_step_never_raises_already_computed.

Theorem C08_tree_never_raises_already_computed : forall P p n e,
  pointwise P -> tree p ->
  let h := fst (create [] (FTask p) (st0 P)) in
  let s1 := snd (create [] (FTask p) (st0 P)) in
  (forall k, (k < n)%nat -> is_unwind (c_mode (run P k (start h s1))) = false) ->
  c_mode (run P n (start h s1)) = MUnwind e ->
  e = E_RUNTIME /\
  exists m, n = S m /\ c_mode (run P m (start h s1)) = MExecLoop /\
            (p_maxstack P < Z.of_nat (length (tasks (c_st (run P m (start h s1))))))%Z /\
            guard_fires P (run P m (start h s1)) = true.
Proof. exact (fun P p n e HP Ht => tree_unwind_is_guard P HP p Ht n e). Qed.
Print Assumptions C08_tree_never_raises_already_computed.

Theorem C08_tree_no_unwind_if_guard_silent : forall P p n,
  pointwise P -> tree p ->
  let h := fst (create [] (FTask p) (st0 P)) in
  let s1 := snd (create [] (FTask p) (st0 P)) in
  (forall k, (k < n)%nat -> guard_fires P (run P k (start h s1)) = false) -> no_unwind P n (start h s1).
Proof. exact (fun P p n HP Ht => tree_no_unwind_iff_guard_silent P HP p Ht n). Qed.
Print Assumptions C08_tree_no_unwind_if_guard_silent.

Theorem C08_no_unwind_guard_silent : forall P n c,
  no_unwind P n c -> forall k, (k < n)%nat -> guard_fires P (run P k c) = false.
Proof. exact no_unwind_guard_silent. Qed.
Print Assumptions C08_no_unwind_guard_silent.

Theorem C08_tree_stack_bound : forall P p n,
  pointwise P -> tree p ->
  let h := fst (create [] (FTask p) (st0 P)) in
  let s1 := snd (create [] (FTask p) (st0 P)) in
  no_unwind P n (start h s1) -> is_final (c_mode (run P n (start h s1))) = false ->
  NoDup (tasks (c_st (run P n (start h s1)))) /\
  (Z.of_nat (length (tasks (c_st (run P n (start h s1))))) <= top_next (c_st (run P n (start h s1))))%Z.
Proof. exact (fun P p n HP Ht => tree_stack_bound_run P HP p Ht n). Qed.
Print Assumptions C08_tree_stack_bound.

Theorem C08_tree_guard_silent_while_few_futures : forall P p n,
  pointwise P -> tree p ->
  let h := fst (create [] (FTask p) (st0 P)) in
  let s1 := snd (create [] (FTask p) (st0 P)) in
  (forall k, (k <= n)%nat -> (top_next (c_st (run P k (start h s1))) <= p_maxstack P)%Z) ->
  no_unwind P n (start h s1).
Proof. exact (fun P p n HP Ht => tree_guard_silent_while_few_futures P HP p Ht n). Qed.
Print Assumptions C08_tree_guard_silent_while_few_futures.

(* ---- the same for tree programs with synchronous calls ---- *)
Theorem C08_stree_step_never_raises_already_computed : forall P res spec c,
  CI res spec c -> is_unwind (c_mode c) = false -> c_mode (step P c) <> MUnwind E_ALREADY.
Proof. exact stree_step_not_already. Qed.
Print Assumptions C08_stree_step_never_raises_already_computed.

Theorem C08_stree_never_raises_already_computed : forall P p n e,
  pointwise P -> stree p ->
  let h := fst (create [] (FTask p) (st0 P)) in
  let s1 := snd (create [] (FTask p) (st0 P)) in
  (forall k, (k < n)%nat -> is_unwind (c_mode (run P k (start h s1))) = false) ->
  c_mode (run P n (start h s1)) = MUnwind e ->
  e = E_RUNTIME /\
  exists m, n = S m /\ c_mode (run P m (start h s1)) = MExecLoop /\
            (p_maxstack P < Z.of_nat (length (tasks (c_st (run P m (start h s1))))))%Z /\
            guard_fires P (run P m (start h s1)) = true.
Proof. exact (fun P p n e HP Ht => stree_unwind_is_guard P HP p Ht n e). Qed.
Print Assumptions C08_stree_never_raises_already_computed.

Theorem C08_stree_no_unwind_if_guard_silent : forall P p n,
  pointwise P -> stree p ->
  let h := fst (create [] (FTask p) (st0 P)) in
  let s1 := snd (create [] (FTask p) (st0 P)) in
  (forall k, (k < n)%nat -> guard_fires P (run P k (start h s1)) = false) -> no_unwind P n (start h s1).
Proof. exact (fun P p n HP Ht => stree_no_unwind_iff_guard_silent P HP p Ht n). Qed.
Print Assumptions C08_stree_no_unwind_if_guard_silent.

Theorem C08_paused_task_completes_without_pause : forall t o s tk,
  get_task t s = Some tk -> tk_cact tk = false ->
  trace (complete_task t o s) = EvDone t o :: trace s.
Proof. exact complete_paused_task. Qed.
Print Assumptions C08_paused_task_completes_without_pause.

Theorem C08_paused_task_hypotheses_satisfiable :
  let c := CAsync 1%Z (PauseRaises 1 7%Z) in
  let tk := mkTask (Some (fun _ => Ret VNone)) YNone [] [c] false false 0%Z 0%Z in
  let s := put [0%Z] (mkFut None (KTask tk)) (st0 (mkP [] 1000%Z false [])) in
  get_task [0%Z] s = Some tk /\ tk_cact tk = false /\
  trace (complete_task [0%Z] (Err 7%Z) s) = [EvDone [0%Z] (Err 7%Z)].
Proof. exact complete_paused_task_example. Qed.
Print Assumptions C08_paused_task_hypotheses_satisfiable.
