(* C08 — active task is always the running one; scheduler is clean after any outcome.
   Statements only; proofs in proofs/MachineC08.v.  The hypothesis [no_unwind] says that no Python
   exception propagated through asynq's own frames during the run; in the model such unwinding
   starts only at the MAX_TASK_STACK_SIZE guard (covered by C08_guard_resets) or at
   FutureIsAlreadyComputed raised by _queue_exit. *)
From Asynq Require Import Machine proofs.MachineC08.

Theorem C08_active_is_running : forall P h s n t p,
  tasks s = [] -> no_unwind P n (start h s) ->
  c_mode (run P n (start h s)) = MRun t p -> active (c_st (run P n (start h s))) = Some t.
Proof. exact active_is_running. Qed.
Print Assumptions C08_active_is_running.

Theorem C08_clean_after_outcome : forall P h s n o,
  tasks s = [] -> no_unwind P n (start h s) ->
  c_mode (run P n (start h s)) = MDone o ->
  active (c_st (run P n (start h s))) = active s /\ tasks (c_st (run P n (start h s))) = [].
Proof. exact clean_after_outcome. Qed.
Print Assumptions C08_clean_after_outcome.

Theorem C08_step_preserves_frame_discipline : forall a0 P c,
  is_unwind (c_mode c) = false -> Inv a0 c -> Inv a0 (step P c).
Proof. exact step_inv. Qed.
Print Assumptions C08_step_preserves_frame_discipline.

Theorem C08_guard_resets : forall P init fr s,
  (init < length (tasks s))%nat -> (p_maxstack P < Z.of_nat (length (tasks s)))%Z ->
  let c' := step P (mkC MExecLoop (FExec init :: fr) s) in
  c_mode c' = MUnwind E_RUNTIME /\ tasks (c_st c') = [] /\ sb (c_st c') = [] /\ active (c_st c') = active s.
Proof. exact guard_resets. Qed.
Print Assumptions C08_guard_resets.

Theorem C08_hypotheses_satisfiable :
  no_unwind_b demo_P 200 demo_start = true /\
  c_mode (run demo_P 200 demo_start) = MDone (Ok (VInt 5)).
Proof. exact demo_runs_clean. Qed.
Print Assumptions C08_hypotheses_satisfiable.
