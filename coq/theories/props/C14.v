(* C14 — collection helpers equal their builtin counterparts, in one batching round.
   Only statements; every proof is `exact <lemma>`. *)
From Asynq Require Import Base Tools proofs.ToolsProofs.
From Coq Require Import Permutation Sorted.

(* every helper call returns / raises what the builtin does with the synchronous function, for every
   iterable kind, call form, function (blocking or not, raising or not) *)
Theorem C14_helpers_equal_builtins : forall c f, call_ok c f -> call_result c f = call_spec c f.
Proof. exact helpers_equal_builtins. Qed.
Print Assumptions C14_helpers_equal_builtins.

Theorem C14_amap_eq_map : forall (h : elt -> elt) it l, fst (traverse it) = Val l ->
  run (fun x => KVal (h x)) (Body (amap it)) = Val (map h l).
Proof. exact amap_eq_map. Qed.
Print Assumptions C14_amap_eq_map.

Theorem C14_afilter_eq : forall (p : elt -> elt) it l, fst (traverse it) = Val l ->
  run (fun x => KVal (p x)) (Body (afilter true it)) = Val (filter (fun x => truthy (p x)) l).
Proof. exact afilter_eq. Qed.
Print Assumptions C14_afilter_eq.

Theorem C14_afilterfalse_eq : forall (p : elt -> elt) it l, fst (traverse it) = Val l ->
  run (fun x => KVal (p x)) (Body (afilterfalse it)) = Val (filter (fun x => negb (truthy (p x))) l).
Proof. exact afilterfalse_eq. Qed.
Print Assumptions C14_afilterfalse_eq.

(* asorted's sort of (key, value) pairs on the key is sorted(values, key=..., reverse=...); the value
   type A is abstract: values are never compared *)
Theorem C14_asorted_eq_sorted : forall (A : Type) (key : A -> elt) reverse (l : list A),
  rmap (map snd) (sorted_total fst reverse (combine (map key l) l)) = sorted_total key reverse l.
Proof. exact @asorted_eq_sorted. Qed.
Print Assumptions C14_asorted_eq_sorted.

Theorem C14_decorate_sort : forall (A K : Type) (kle : K -> K -> bool) (key : A -> K) reverse l,
  map snd (ssort_by kle fst reverse (combine (map key l) l)) = ssort_by kle key reverse l.
Proof. exact @decorate_sort. Qed.
Print Assumptions C14_decorate_sort.

(* the sort is stable for every total preorder on keys, reverse honoured *)
Theorem C14_sort_stable : forall (A K : Type) (kle : K -> K -> bool) (key : A -> K),
  (forall a b, kle a b = true \/ kle b a = true) ->
  (forall a b c, kle a b = true -> kle b c = true -> kle a c = true) ->
  forall reverse l,
    Permutation (ssort_by kle key reverse l) l /\
    StronglySorted (fun a b => if reverse then le_by kle key b a else le_by kle key a b) (ssort_by kle key reverse l) /\
    (forall k, filter (eqv kle key k) (ssort_by kle key reverse l) = filter (eqv kle key k) l).
Proof. exact @ssort_by_stable. Qed.
Print Assumptions C14_sort_stable.

Theorem C14_sorted_total_spec : forall (A : Type) (key : A -> elt) reverse (l : list A),
  match sorted_total key reverse l with
  | Exc e => e = E_TYPEERROR /\ (2 <= length l)%nat /\ exists x, In x l /\ orderable (key x) = false
  | Val out =>
    ((length l < 2)%nat \/ forall x, In x l -> orderable (key x) = true) /\
    Permutation out l /\
    StronglySorted (fun a b => if reverse then rankz (key b) <= rankz (key a) else rankz (key a) <= rankz (key b)) out /\
    (forall k, filter (fun a => Z.eqb (rankz (key a)) k) out = filter (fun a => Z.eqb (rankz (key a)) k) l)
  end.
Proof. exact @sorted_total_spec. Qed.
Print Assumptions C14_sorted_total_spec.

(* amax / amin: max(enumerate(l), key=lambda p: keys[p[0]])[1] is max(l, key=key) *)
Theorem C14_amax_amin_enumerate : forall (A : Type) is_max (key : A -> elt) (l : list A),
  rmap snd (extreme_total is_max (fun p => nth (fst p) (map key l) ENone) (enumerate l)) = extreme_total is_max key l.
Proof. exact @amax_first. Qed.
Print Assumptions C14_amax_amin_enumerate.

(* first extreme wins *)
Theorem C14_amax_amin_first : forall (A : Type) is_max (key : A -> elt) l x,
  extreme_total is_max key l = Val x ->
  ((length l < 2)%nat \/ forall y, In y l -> orderable (key y) = true) /\
  exists pre post, l = pre ++ x :: post /\ Forall (worse is_max key x) pre /\ Forall (notbetter is_max key x) post.
Proof. exact @extreme_total_first. Qed.
Print Assumptions C14_amax_amin_first.

(* CPython's key-then-compare loop is the all-keys-first form when no key raises *)
Theorem C14_builtin_max_min_total : forall is_max g (key : elt -> elt) l,
  (forall y, In y l -> g y = KVal (key y)) -> py_extreme is_max g l = extreme_total is_max key l.
Proof. exact py_extreme_total. Qed.
Print Assumptions C14_builtin_max_min_total.

Theorem C14_asift_partition : forall (p : elt -> elt) it l, fst (traverse it) = Val l ->
  run (fun x => KVal (p x)) (Body (asift it)) =
  Val (filter (fun x => truthy (p x)) l, filter (fun x => negb (truthy (p x))) l).
Proof. exact asift_partition. Qed.
Print Assumptions C14_asift_partition.

(* tools.py 151-162 as it stands does not have the property (one-shot iterator) *)
Theorem C14_asift_as_written_refuted :
  exists g it, run g (Body (asift_as_written it)) <> bind (fst (traverse it)) (py_partition g).
Proof. exact asift_as_written_refuted. Qed.
Print Assumptions C14_asift_as_written_refuted.

Theorem C14_asift_as_written_oneshot : forall g l rs, collect (map g l) = Val rs ->
  run g (Body (asift_as_written (OneShot l))) = Val ([], []).
Proof. exact asift_as_written_oneshot. Qed.
Print Assumptions C14_asift_as_written_oneshot.

Theorem C14_aretry_runs : forall listed (max_tries : Z) pre a rest,
  0 < max_tries ->
  Forall (fun x => match x with ARaise cls _ => is_listed listed cls = true | ARet _ => False end) pre ->
  match a with ARaise cls _ => is_listed listed cls = false | ARet _ => True end ->
  let o := aretry listed max_tries (pre ++ a :: rest) in
  let k := length pre in
  r_runs o = Nat.min (k + 1) (Z.to_nat max_tries) /\
  r_result o = (if (k <? Z.to_nat max_tries)%nat then attempt_result a
                else attempt_result (nth (Z.to_nat max_tries - 1) pre (ARet ENone))) /\
  r_sleeps o = (r_runs o - 1)%nat.
Proof. exact aretry_runs. Qed.
Print Assumptions C14_aretry_runs.

Theorem C14_aretry_eq_spec : forall listed (max_tries : Z) script, 0 < max_tries ->
  let o := aretry listed max_tries script in
  (r_result o, r_runs o) = aretry_spec listed (Z.to_nat max_tries) script.
Proof. exact aretry_eq_spec. Qed.
Print Assumptions C14_aretry_eq_spec.

(* all per-element calls of one invocation sit in one yielded list *)
Theorem C14_one_round : forall c,
  call_yielded c = match call_items c with
                   | Val l => if call_uses_fn c then [l] else []
                   | Exc _ => []
                   end.
Proof. exact one_round. Qed.
Print Assumptions C14_one_round.

Theorem C14_one_flush : forall c f,
  call_flushes c f = match call_items c with
                     | Val l => if call_uses_fn c && existsb (blocks f) l then 1%nat else 0%nat
                     | Exc _ => 0%nat
                     end.
Proof. exact one_flush. Qed.
Print Assumptions C14_one_flush.
