(* Tools.v — executable model of the collection helpers of asynq/tools.py (C14):
   amap 40-47, afilter 50-63, afilterfalse 66-76, asorted 79-96, amax 99-122, amin 125-148,
   asift 151-162, aretry 286-313 — and of the builtins they are compared with
   (map, filter, itertools.filterfalse, sorted, max, min, a two-way partition).

   Shape of the model.  A helper invocation is a value of type [helper R]: a task body that either
   finishes at once or performs ONE `yield` of ONE list of per-element calls `[fn.asynq(x) for x in xs]`
   (amap, afilter, afilterfalse, asift), or yields ONE child task whose body does that (asorted, amax,
   amin yield `amap.asynq(key, values)`), and then finishes with a pure continuation.  [run] gives the
   result of the invocation for a given asynchronous function; [yielded] / [flushes] give the lists
   of calls that were created together and the number of batch flushes they need.

   Iterables are [Seq kind l] (re-iterable: list, tuple, other collection), [OneShot l] (iterator /
   generator: its first traversal consumes it) or [NotIter] (iter() raises TypeError); [traverse]
   returns the items and the iterable's next state, and every helper is written with exactly the
   traversals the source performs.                                                              *)
From Asynq Require Export Base.

Definition E_VALUEERROR : exn := -11.     (* ValueError: max()/min() of an empty sequence *)
Definition E_ASSERTION : exn := -12.      (* AssertionError: aretry(max_tries <= 0)       *)

(* ------------------------------------------------------------------ values *)
(* elements, keys and predicate results: None, int, bool, and plain objects (identity equality,
   no ordering methods) *)
Inductive elt := ENone | EInt (z : Z) | EBool (b : bool) | EObj (id : Z).

Definition elt_eqb (a b : elt) : bool :=
  match a, b with
  | ENone, ENone => true
  | EInt x, EInt y => Z.eqb x y
  | EBool x, EBool y => Bool.eqb x y
  | EObj x, EObj y => Z.eqb x y
  | _, _ => false
  end.

(* bool(x) *)
Definition truthy (e : elt) : bool :=
  match e with ENone => false | EInt z => negb (Z.eqb z 0) | EBool b => b | EObj _ => true end.

(* `<` is defined between ints and bools (a bool is the int 0/1); any comparison that involves None
   or a plain object raises TypeError *)
Definition rank (e : elt) : option Z :=
  match e with EInt z => Some z | EBool b => Some (if b then 1 else 0) | _ => None end.
Definition orderable (e : elt) : bool := match rank e with Some _ => true | None => false end.
Definition rankz (e : elt) : Z := match rank e with Some z => z | None => 0 end.

Inductive res (A : Type) := Val (a : A) | Exc (e : exn).
Arguments Val {A} a.
Arguments Exc {A} e.
Definition bind {A B} (r : res A) (k : A -> res B) : res B :=
  match r with Val a => k a | Exc e => Exc e end.
Definition rmap {A B} (g : A -> B) (r : res A) : res B := bind r (fun a => Val (g a)).

(* ------------------------------------------------------------------ iterables *)
Inductive seqkind := SList | STuple | SOther.     (* SOther: a re-iterable collection that is neither *)
Inductive iterable := Seq (k : seqkind) (l : list elt) | OneShot (l : list elt) | NotIter.

(* one full traversal (`for x in it`, list(it), zip(it, ..), enumerate(it)) *)
Definition traverse (it : iterable) : res (list elt) * iterable :=
  match it with
  | Seq _ l => (Val l, it)
  | OneShot l => (Val l, OneShot [])
  | NotIter => (Exc E_TYPEERROR, it)
  end.

(* isinstance(it, (list, tuple)) *)
Definition is_list_or_tuple (it : iterable) : bool :=
  match it with Seq SList _ | Seq STuple _ => true | _ => false end.

(* ------------------------------------------------------------------ asynchronous functions *)
(* what one call fn.asynq(x) does: (does it block on a batch item first?, how it ends) *)
Inductive kout := KVal (v : elt) | KRaise (e : exn).
Definition afun := elt -> bool * kout.
Definition sync (f : afun) : elt -> kout := fun x => snd (f x).
Definition blocks (f : afun) : elt -> bool := fun x => fst (f x).

(* results of a list of calls awaited together: the values, or the first error in list order *)
Fixpoint collect (outs : list kout) : res (list elt) :=
  match outs with
  | [] => Val []
  | KRaise e :: _ => Exc e
  | KVal v :: r => match collect r with Val vs => Val (v :: vs) | Exc e => Exc e end
  end.

(* ------------------------------------------------------------------ builtins (reference side) *)
(* list(map(g, l)) *)
Definition py_map (g : elt -> kout) (l : list elt) : res (list elt) := collect (map g l).

(* list(filter(g, l)) for want = true, list(itertools.filterfalse(g, l)) for want = false *)
Fixpoint py_filter_by (want : bool) (g : elt -> kout) (l : list elt) : res (list elt) :=
  match l with
  | [] => Val []
  | x :: r =>
    match g x with
    | KRaise e => Exc e
    | KVal v => match py_filter_by want g r with
                | Val t => Val (if Bool.eqb (truthy v) want then x :: t else t)
                | Exc e => Exc e
                end
    end
  end.

(* two-way partition: ([x for x in l if g(x)], [x for x in l if not g(x)]), g called once per element *)
Fixpoint py_partition (g : elt -> kout) (l : list elt) : res (list elt * list elt) :=
  match l with
  | [] => Val ([], [])
  | x :: r =>
    match g x with
    | KRaise e => Exc e
    | KVal v => match py_partition g r with
                | Val (y, n) => Val (if truthy v then (x :: y, n) else (y, x :: n))
                | Exc e => Exc e
                end
    end
  end.

(* stable insertion sort; the comparison looks at keys only, the element type is abstract *)
Section Sort.
  Context {A K : Type} (kle : K -> K -> bool) (key : A -> K).
  Fixpoint insert (x : A) (l : list A) : list A :=
    match l with
    | [] => [x]
    | y :: t => if kle (key x) (key y) then x :: y :: t else y :: insert x t
    end.
  Fixpoint isort (l : list A) : list A :=
    match l with [] => [] | x :: t => insert x (isort t) end.
  (* list.sort(reverse=True) reverses, sorts, reverses: equal elements keep their original order *)
  Definition ssort_by (reverse : bool) (l : list A) : list A :=
    if reverse then rev (isort (rev l)) else isort l.
End Sort.

(* sorted(l, key=key, reverse=reverse) for a key function that does not raise: no comparison is made
   on fewer than two elements; otherwise every element takes part in some comparison, so one
   unorderable key is a TypeError *)
Definition sorted_total {A} (key : A -> elt) (reverse : bool) (l : list A) : res (list A) :=
  if (2 <=? length l)%nat && existsb (fun x => negb (orderable (key x))) l then Exc E_TYPEERROR
  else Val (ssort_by Z.leb (fun x => rankz (key x)) reverse l).

(* sorted(l, key=g, reverse=reverse): all keys are computed first (first error wins), then the
   (key, value) pairs are sorted on the key *)
Definition py_sorted (g : elt -> kout) (reverse : bool) (l : list elt) : res (list elt) :=
  bind (collect (map g l)) (fun ks => rmap (map snd) (sorted_total fst reverse (combine ks l))).

(* max / min for a key function that does not raise: first extreme wins (max replaces on `>` only,
   min on `<` only) *)
Definition better (is_max : bool) (a b : Z) : bool := if is_max then (b <? a) else (a <? b).
Definition extreme_total {A} (is_max : bool) (key : A -> elt) (l : list A) : res A :=
  match l with
  | [] => Exc E_VALUEERROR
  | [x] => Val x
  | x :: r =>
    if existsb (fun y => negb (orderable (key y))) l then Exc E_TYPEERROR
    else Val (fold_left (fun best y => if better is_max (rankz (key y)) (rankz (key best)) then y else best) r x)
  end.

(* max(l, key=g) / min(l, key=g) as CPython runs it: key of the next item, then one comparison *)
Fixpoint extreme_loop (is_max : bool) (g : elt -> kout) (best bestk : elt) (r : list elt) : res elt :=
  match r with
  | [] => Val best
  | y :: r' =>
    match g y with
    | KRaise e => Exc e
    | KVal ky =>
      if orderable ky && orderable bestk then
        if better is_max (rankz ky) (rankz bestk) then extreme_loop is_max g y ky r'
        else extreme_loop is_max g best bestk r'
      else Exc E_TYPEERROR
    end
  end.
Definition py_extreme (is_max : bool) (g : elt -> kout) (l : list elt) : res elt :=
  match l with
  | [] => Exc E_VALUEERROR
  | x :: r => match g x with KRaise e => Exc e | KVal kx => extreme_loop is_max g x kx r end
  end.

(* ------------------------------------------------------------------ helper invocations *)
Inductive body (R : Type) :=
| Now (r : res R)                                        (* returns / raises without yielding *)
| YieldCalls (xs : list elt) (k : list elt -> res R).    (* rs = yield [fn.asynq(x) for x in xs]; finish with k rs *)
Arguments Now {R} r.
Arguments YieldCalls {R} xs k.

Inductive helper (R : Type) :=
| Body (b : body R)                                              (* the helper's own body *)
| YieldTask (child : body (list elt)) (k : list elt -> res R).   (* rs = yield <one child task>; finish with k rs *)
Arguments Body {R} b.
Arguments YieldTask {R} child k.

Definition run_body {R} (g : elt -> kout) (b : body R) : res R :=
  match b with Now r => r | YieldCalls xs k => bind (collect (map g xs)) k end.
Definition run {R} (g : elt -> kout) (h : helper R) : res R :=
  match h with Body b => run_body g b | YieldTask c k => bind (run_body g c) k end.

(* the lists of per-element calls that are created together (each is one yielded list) *)
Definition yielded_body {R} (b : body R) : list (list elt) :=
  match b with Now _ => [] | YieldCalls xs _ => [xs] end.
Definition yielded {R} (h : helper R) : list (list elt) :=
  match h with Body b => yielded_body b | YieldTask c _ => yielded_body c end.
(* calls that sit in one yielded list are all started before any is awaited, so the requests of
   those that block (one request each, one batch kind) go out in one flush *)
Definition flushes {R} (f : afun) (h : helper R) : nat :=
  length (filter (existsb (blocks f)) (yielded h)).

(* tools.py 40-47 *)
Definition amap (it : iterable) : body (list elt) :=
  match fst (traverse it) with
  | Exc e => Now (Exc e)
  | Val xs => YieldCalls xs (fun rs => Val rs)
  end.

(* itertools.compress(data, selectors) *)
Definition compress {A} (data : list A) (sel : list bool) : list A :=
  map fst (filter snd (combine data sel)).

(* tools.py 50-63 *)
Definition afilter (has_fn : bool) (it : iterable) : body (list elt) :=
  if negb has_fn then Now (rmap (filter truthy) (fst (traverse it)))     (* 57-58 *)
  else match fst (traverse it) with                                       (* 61: sequence = list(sequence) *)
       | Exc e => Now (Exc e)
       | Val s => YieldCalls s (fun inc => Val (compress s (map truthy inc)))   (* 62-63 *)
       end.

(* tools.py 66-76 *)
Definition afilterfalse (it : iterable) : body (list elt) :=
  match fst (traverse it) with                                            (* 73 *)
  | Exc e => Now (Exc e)
  | Val s => YieldCalls s (fun exc => Val (compress s (map (fun r => negb (truthy r)) exc)))  (* 74-76 *)
  end.

(* tools.py 79-96 *)
Definition asorted_finish (reverse : bool) (values keys : list elt) : res (list elt) :=
  rmap (map snd) (sorted_total fst reverse (combine keys values)).        (* 95-96 *)
Definition asorted (it : iterable) (has_key reverse : bool) : helper (list elt) :=
  match fst (traverse it) with                                            (* 88: values = list(iterable) *)
  | Exc e => Body (Now (Exc e))
  | Val values =>
    if negb has_key then Body (Now (asorted_finish reverse values values))        (* 89-90 *)
    else YieldTask (amap (Seq SList values)) (asorted_finish reverse values)      (* 92 *)
  end.

(* amax / amin call forms: one positional argument (an iterable, or not), or n positional elements *)
Inductive callform := Single (it : iterable) | Varargs (es : list elt).

Definition enumerate {A} (l : list A) : list (nat * A) := combine (seq 0 (length l)) l.

(* tools.py 99-122 (is_max = true) and 125-148 (is_max = false) *)
Definition aextreme (is_max : bool) (form : callform) (has_key extra_kw : bool) : helper elt :=
  if extra_kw then Body (Now (Exc E_TYPEERROR))                           (* 103-104 / 129-130 *)
  else
    let args_it :=
      match form with
      | Varargs [] => Exc E_TYPEERROR                                     (* 106-107 / 132-133 *)
      | Varargs [e] => Val NotIter                                        (* 108-109: args[0] is an element *)
      | Single it => Val it                                               (* 108-109 *)
      | Varargs es => Val (Seq STuple es)                                 (* 110-111: the args tuple *)
      end in
    match args_it with
    | Exc e => Body (Now (Exc e))
    | Val it =>
      if negb has_key then                                                (* 113-114: max(iterable) *)
        Body (Now (bind (fst (traverse it)) (extreme_total is_max (fun x => x))))
      else
        let it_r := if is_list_or_tuple it then Val it                    (* 117-118 *)
                    else rmap (Seq SList) (fst (traverse it)) in
        match it_r with
        | Exc e => Body (Now (Exc e))
        | Val it' =>
          YieldTask (amap it')                                            (* 120 *)
            (fun keys =>                                                  (* 121-122 *)
               bind (fst (traverse it')) (fun l =>
               rmap snd (extreme_total is_max (fun p => nth (fst p) keys ENone) (enumerate l))))
        end
    end.
Definition amax := aextreme true.
Definition amin := aextreme false.

(* tools.py 151-162, the body as it stands: `items` is traversed by the comprehension (156) and
   again by zip (157) *)
Definition sift {A} (pairs : list (A * elt)) : list A * list A :=
  (map fst (filter (fun p => truthy (snd p)) pairs), map fst (filter (fun p => negb (truthy (snd p))) pairs)).
Definition asift_as_written (it : iterable) : body (list elt * list elt) :=
  let '(r1, it1) := traverse it in
  match r1 with
  | Exc e => Now (Exc e)
  | Val xs => YieldCalls xs (fun results => rmap (fun items2 => sift (combine items2 results)) (fst (traverse it1)))
  end.
(* repaired (work/fixes/C14-asift-one-shot.diff): `items = list(items)` first *)
Definition asift (it : iterable) : body (list elt * list elt) :=
  match fst (traverse it) with
  | Exc e => Now (Exc e)
  | Val l => asift_as_written (Seq SList l)
  end.

(* ------------------------------------------------------------------ aretry (tools.py 286-313) *)
(* one run of the decorated body: returns v, or raises exception instance id of class cls *)
Inductive attempt := ARet (v : elt) | ARaise (cls : Z) (id : exn).
(* class table of the harness: class 1 is a subclass of class 0; class 99 is Exception *)
Definition subclass (cls c : Z) : bool := Z.eqb cls c || (Z.eqb cls 1 && Z.eqb c 0) || Z.eqb c 99.
Definition is_listed (listed : list Z) (cls : Z) : bool := existsb (subclass cls) listed.

Record retry_out := mkro { r_result : res elt; r_runs : nat; r_sleeps : nat }.

(* `for i in range(max_tries)`: [remaining] = max_tries - i; script = outcomes of the successive runs
   of the body (a body that is run more often than the script is long returns None) *)
Fixpoint aretry_loop (listed : list Z) (max_tries i remaining : nat) (script : list attempt) : retry_out :=
  match remaining with
  | O => mkro (Val ENone) 0 0                      (* range exhausted (only when max_tries = 0) *)
  | S rem =>
    match script with
    | [] => mkro (Val ENone) 1 0                                           (* 302-303 *)
    | ARet v :: _ => mkro (Val v) 1 0                                      (* 302-303 *)
    | ARaise cls e :: rest =>
      if is_listed listed cls then                                         (* 304 *)
        if Nat.eqb (i + 1) max_tries then mkro (Exc e) 1 0                 (* 305-306 *)
        else let o := aretry_loop listed max_tries (S i) rem rest in       (* 307, next iteration *)
             mkro (r_result o) (S (r_runs o)) (S (r_sleeps o))
      else mkro (Exc e) 1 0                                                (* not caught *)
    end
  end.
Definition aretry (listed : list Z) (max_tries : Z) (script : list attempt) : retry_out :=
  if max_tries <=? 0 then mkro (Exc E_ASSERTION) 0 0                       (* 294 *)
  else aretry_loop listed (Z.to_nat max_tries) 0 (Z.to_nat max_tries) script.

(* reference: k = number of leading attempts that raise a listed exception *)
Fixpoint listed_prefix (listed : list Z) (script : list attempt) : nat :=
  match script with
  | ARaise cls _ :: rest => if is_listed listed cls then S (listed_prefix listed rest) else 0
  | _ => 0
  end.
Definition attempt_result (a : attempt) : res elt :=
  match a with ARet v => Val v | ARaise _ e => Exc e end.
Definition aretry_spec (listed : list Z) (max_tries : nat) (script : list attempt) : res elt * nat :=
  let k := listed_prefix listed script in
  (attempt_result (nth (Nat.min k (max_tries - 1)) script (ARet ENone)), Nat.min (k + 1) max_tries).

(* ------------------------------------------------------------------ entry point of the correspondence *)
Definition fn := list (elt * (bool * kout)).
Definition call_fn (f : fn) : afun := fun x =>
  match find (fun p => elt_eqb (fst p) x) f with Some p => snd p | None => (false, KVal ENone) end.

Inductive call :=
| CAmap (it : iterable)
| CAfilter (has_fn : bool) (it : iterable)
| CAfilterfalse (it : iterable)
| CAsorted (it : iterable) (has_key reverse : bool)
| CAmax (form : callform) (has_key extra_kw : bool)
| CAmin (form : callform) (has_key extra_kw : bool)
| CAsift (it : iterable).

Inductive rv := RList (l : list elt) | RElt (e : elt) | RPair (yes no : list elt).

Inductive case :=
| Helper (c : call) (f : fn)
| Retry (listed : list Z) (max_tries : Z) (script : list attempt).

Definition form_items (form : callform) : res (list elt) :=
  match form with
  | Varargs [] => Exc E_TYPEERROR
  | Varargs [e] => Exc E_TYPEERROR
  | Varargs es => Val es
  | Single it => fst (traverse it)
  end.

Definition rpair (p : list elt * list elt) : rv := RPair (fst p) (snd p).

(* what the helper invocation returns / raises *)
Definition call_result (c : call) (f : afun) : res rv :=
  match c with
  | CAmap it => rmap RList (run (sync f) (Body (amap it)))
  | CAfilter b it => rmap RList (run (sync f) (Body (afilter b it)))
  | CAfilterfalse it => rmap RList (run (sync f) (Body (afilterfalse it)))
  | CAsorted it k r => rmap RList (run (sync f) (asorted it k r))
  | CAmax form k x => rmap RElt (run (sync f) (amax form k x))
  | CAmin form k x => rmap RElt (run (sync f) (amin form k x))
  | CAsift it => rmap rpair (run (sync f) (Body (asift it)))
  end.

(* what the builtin returns / raises on the same input with the synchronous function *)
Definition extreme_spec (is_max : bool) (form : callform) (has_key extra_kw : bool) (g : elt -> kout) : res elt :=
  if extra_kw then Exc E_TYPEERROR
  else bind (form_items form) (fun l =>
       if has_key then py_extreme is_max g l else extreme_total is_max (fun x => x) l).
Definition call_spec (c : call) (f : afun) : res rv :=
  match c with
  | CAmap it => rmap RList (bind (fst (traverse it)) (py_map (sync f)))
  | CAfilter true it => rmap RList (bind (fst (traverse it)) (py_filter_by true (sync f)))
  | CAfilter false it => rmap RList (rmap (filter truthy) (fst (traverse it)))
  | CAfilterfalse it => rmap RList (bind (fst (traverse it)) (py_filter_by false (sync f)))
  | CAsorted it true r => rmap RList (bind (fst (traverse it)) (py_sorted (sync f) r))
  | CAsorted it false r => rmap RList (bind (fst (traverse it)) (sorted_total (fun x => x) r))
  | CAmax form k x => rmap RElt (extreme_spec true form k x (sync f))
  | CAmin form k x => rmap RElt (extreme_spec false form k x (sync f))
  | CAsift it => rmap rpair (bind (fst (traverse it)) (py_partition (sync f)))
  end.

Definition call_flushes (c : call) (f : afun) : nat :=
  match c with
  | CAmap it => flushes f (Body (amap it))
  | CAfilter b it => flushes f (Body (afilter b it))
  | CAfilterfalse it => flushes f (Body (afilterfalse it))
  | CAsorted it k r => flushes f (asorted it k r)
  | CAmax form k x => flushes f (amax form k x)
  | CAmin form k x => flushes f (amin form k x)
  | CAsift it => flushes f (Body (asift it))
  end.

(* (helper result, builtin result, [flushes; runs of the retried body; sleeps; runs expected]) *)
Definition run_case (c : case) : res rv * res rv * list Z :=
  match c with
  | Helper c f => (call_result c (call_fn f), call_spec c (call_fn f), [Z.of_nat (call_flushes c (call_fn f)); 0; 0; 0])
  | Retry listed max_tries script =>
    let o := aretry listed max_tries script in
    let s := if max_tries <=? 0 then (Exc E_ASSERTION, O) else aretry_spec listed (Z.to_nat max_tries) script in
    (rmap RElt (r_result o), rmap RElt (fst s),
     [0; Z.of_nat (r_runs o); Z.of_nat (r_sleeps o); Z.of_nat (snd s)])
  end.
