(* Batch.v — executable model of asynq/batching.py (BatchBase, BatchItemBase, DebugBatch as an
   instance) for C11.

   Source anchors (asynq/batching.py):
     BatchBase.__init__ 39-41, is_flushed 43-44, is_cancelled 46-47, is_empty 49-50,
     flush 64-94, cancel 96-107, _compute 109-116, _computed 118-134,
     BatchItemBase.__init__ 208-220, BatchItemBase._compute 222-228,
     DebugBatchItem.__init__ 237-243 (registry lookup), DebugBatch._try_switch_active_batch 254-258,
     DebugBatch._flush 260-268.
   and (asynq/futures.py) value 54-64, set_value 66-75, error 87-99, set_error 101-109,
   is_computed 111-116, _computed 118-140.

   A world holds every batch and item ever created (ids = creation order), the active-batch
   registry (one batch kind), and the event log written by the on_computed subscribers of every
   item and batch, by the _flush / _cancel override points and by the item constructor.
   What the user's `_flush` body does is data: a *flush script* per batch (list of actions).
   DebugBatch is the instance whose every script is [ASetAll].                                   *)
From Asynq Require Export Base.

(* ---------------------------------------------------------------- flush scripts *)
Inductive rkind := KValue | KError.   (* FutureBase.value() / FutureBase.error() *)

Inductive action :=
| ASetAll                        (* for item in self.items: item.set_value(item._result)   (DebugBatch._flush 267-268) *)
| ASet (k : nat) (v : val)       (* self.items[k].set_value(v)       (skipped when k >= len(self.items))            *)
| ASetErr (k : nat) (e : exn)    (* self.items[k].set_error(e)                                                       *)
| ARaise (e : exn)               (* raise an Exception instance                                                      *)
| ABase (e : exn)                (* raise a BaseException instance                                                   *)
| ANew (v : val)                 (* create a request of the same kind through the registry while flushing            *)
| ACancel (oe : option exn)      (* self.cancel(error) from inside the body                                          *)
(* re-entrant requests made while the body runs (self._flushing is set, batching.py 111-122):        *)
| ARead (k : nat) (kd : rkind) (catch : bool)
                                 (* self.items[k].value() / .error() asked by the body itself; the result is logged;
                                    an exception is swallowed (catch) or propagates out of the body                   *)
| AReflush (catch : bool)        (* self.flush() called by the body                                                   *)
| ASetRead (k : nat) (v : val) (j : nat) (kd : rkind)
                                 (* self.items[k].set_value(v) after subscribing to its on_computed a callback that
                                    asks self.items[j] for its value()/error() (a dependent of item k needing its
                                    sibling); the callback logs what it got (exceptions included)                    *)
| AReadBatch (kd : rkind) (catch : bool).
                                 (* self.value() / self.error() asked by the body (REPAIRED behaviour, see batch_reread) *)

(* ---------------------------------------------------------------- state *)
Record item := mkI {
  ibatch : nat;                  (* BatchItemBase.batch (213)                                *)
  iresult : val;                 (* DebugBatchItem._result (243)                             *)
  iout : option outcome          (* FutureBase._value/_error                                 *)
}.

Record batch := mkB {
  bitems : list nat;             (* BatchBase.items (41), item ids in insertion order        *)
  bout : option outcome;         (* FutureBase._value/_error of the batch                    *)
  bruns : nat;                   (* how many times the _flush body was entered               *)
  bcancels : nat                 (* how many times the _cancel hook was called               *)
}.

Inductive res :=
| RVal (v : val)
| RRaise (e : exn)
| RNoError
| RErr (e : exn)
| RBool (b : bool)
| RUnit
| RItem (i b : nat)            (* constructed item i, which joined batch b                              *)
| RBatch (b : nat)
| RNotComputed                 (* value() returned the internal "not computed" marker                   *)
| RSkip.                       (* the op names a batch / item that does not exist                       *)

Definition report_value (o : option outcome) : res :=
  match o with Some (Ok v) => RVal v | Some (Err e) => RRaise e | None => RNotComputed end.
Definition report_error (o : option outcome) : res :=
  match o with Some (Ok _) => RNoError | Some (Err e) => RErr e | None => RNoError end.

Inductive event :=
| ENew (i b : nat)               (* item i constructed on batch b                            *)
| EItem (i : nat) (o : outcome)  (* on_computed of item i fired; it observed outcome o       *)
| EBody (b a : nat)              (* _flush body of batch b entered; registry points at a     *)
| ECancel (b : nat)              (* _cancel hook of batch b called                           *)
| EBatch (b : nat) (o : outcome)  (* on_computed of batch b fired; it observed outcome o      *)
| ERead (b i : nat) (r : res)    (* while the body of b ran, item i of b was asked for its value()/error(): r *)
| EReflush (b : nat) (r : res)   (* while the body of b ran, b.flush() was called: r         *)
| EBRead (b : nat) (r : res).    (* while the body of b ran, b.value()/b.error() was asked: r *)

Record world := mkW {
  bat : nat -> batch;
  itm : nat -> item;
  nb : nat;                      (* number of batches created so far                         *)
  ni : nat;                      (* number of items created so far                           *)
  active : nat;                  (* the registry: id of the active batch                     *)
  log : list event
}.

Definition upd {A} (f : nat -> A) (k : nat) (x : A) : nat -> A :=
  fun j => if Nat.eqb j k then x else f j.

Definition empty_batch : batch := mkB [] None 0 0.

Definition init : world :=
  mkW (fun _ => empty_batch) (fun _ => mkI 0 VNone None) 1 0 0 [].

Definition set_bat (w : world) (b : nat) (x : batch) : world :=
  mkW (upd (bat w) b x) (itm w) (nb w) (ni w) (active w) (log w).
Definition set_itm (w : world) (i : nat) (x : item) : world :=
  mkW (bat w) (upd (itm w) i x) (nb w) (ni w) (active w) (log w).
Definition emit (w : world) (e : event) : world :=
  mkW (bat w) (itm w) (nb w) (ni w) (active w) (log w ++ [e]).

Definition bdone (w : world) (b : nat) : bool :=
  match bout (bat w b) with Some _ => true | None => false end.
Definition idone (w : world) (i : nat) : bool :=
  match iout (itm w i) with Some _ => true | None => false end.

(* ---------------------------------------------------------------- items *)
(* FutureBase.set_value / set_error + _computed on an item (the item's subscriber logs) *)
Definition complete_item (w : world) (i : nat) (o : outcome) : world :=
  let it := itm w i in
  emit (set_itm w i (mkI (ibatch it) (iresult it) (Some o))) (EItem i o).

(* set_value / set_error with the FutureIsAlreadyComputed check (futures.py 71-72, 105-106) *)
Definition item_set (w : world) (i : nat) (o : outcome) : world * option exn :=
  match iout (itm w i) with
  | Some _ => (w, Some E_ALREADY)
  | None => (complete_item w i o, None)
  end.

(* BatchItemBase.__init__ on batch b (208-216): the assertion, then append *)
Definition new_item (w : world) (b : nat) (v : val) : world * option exn :=
  match bout (bat w b) with
  | Some _ => (w, Some E_ADDFLUSHED)
  | None =>
    let i := ni w in
    let B := bat w b in
    (emit (mkW (upd (bat w) b (mkB (bitems B ++ [i]) None (bruns B) (bcancels B)))
               (upd (itm w) i (mkI b v None)) (nb w) (S i) (active w) (log w))
          (ENew i b), None)
  end.

(* ---------------------------------------------------------------- registry *)
(* _try_switch_active_batch (DebugBatch 254-258; the harness batch does the same) *)
Definition switch (w : world) (b : nat) : world :=
  if Nat.eqb (active w) b
  then mkW (upd (bat w) (nb w) empty_batch) (itm w) (S (nb w)) (ni w) (nb w) (log w)
  else w.

(* ---------------------------------------------------------------- BatchBase._computed (118-134) *)
Definition leftover (o : outcome) : outcome :=
  match o with Ok _ => Err E_NOTSET | Err e => Err e end.

Fixpoint finish_items (w : world) (l : list nat) (o : outcome) : world :=
  match l with
  | [] => w
  | i :: rest =>
    finish_items (match iout (itm w i) with Some _ => w | None => complete_item w i o end) rest o
  end.

Definition call_cancel_hook (w : world) (b : nat) : world :=
  let B := bat w b in
  emit (set_bat w b (mkB (bitems B) (bout B) (bruns B) (S (bcancels B)))) (ECancel b).

(* set_value / set_error on an uncomputed batch: store the outcome, then _computed *)
Definition batch_computed (w : world) (b : nat) (o : outcome) : world :=
  let B := bat w b in
  let w1 := set_bat w b (mkB (bitems B) (Some o) (bruns B) (bcancels B)) in
  let w2 := switch w1 b in                                            (* 121 *)
  let w3 := match o with Err _ => call_cancel_hook w2 b | Ok _ => w2 end in   (* 122-125 *)
  let w4 := finish_items w3 (bitems (bat w3 b)) (leftover o) in       (* 126-133 *)
  emit w4 (EBatch b o).                                               (* 134 *)

Definition batch_set (w : world) (b : nat) (o : outcome) : world * option exn :=
  match bout (bat w b) with
  | Some _ => (w, Some E_ALREADY)
  | None => (batch_computed w b o, None)
  end.

(* BatchBase.cancel (96-107) *)
Definition cancel (w : world) (b : nat) (oe : option exn) : world :=
  match bout (bat w b) with
  | Some _ => w
  | None => batch_computed w b (Err (match oe with Some e => e | None => E_CANCELLED end))
  end.

(* ---------------------------------------------------------------- the flush body *)
Fixpoint set_all (w : world) (l : list nat) : world * option exn :=
  match l with
  | [] => (w, None)
  | i :: rest =>
    let '(w1, r) := item_set w i (Ok (iresult (itm w i))) in
    match r with Some e => (w1, Some e) | None => set_all w1 rest end
  end.

(* A request for value()/error() of item i of self.items made while the body of b runs
   (FutureBase.value 54-64 / error 87-99 -> BatchItemBase._compute 222-228 -> BatchBase.flush 82-83):
   a complete item reports its outcome; a pending item of a finished batch is not computed by
   BatchItemBase._compute (value() then returns the internal marker, error() None); a pending item of the
   batch whose body is running reaches flush() while _flushing is set: BatchingError, from value() and
   from error() alike - the body is NOT run again.  self.items only holds items constructed on self
   (213-215; invariant i_listed in BatchProofs), so the item's batch is b; the model still looks at
   ibatch and answers RSkip (outside the model: a nested flush of another batch) otherwise. *)
Definition rep_of (kd : rkind) : option outcome -> res :=
  match kd with KValue => report_value | KError => report_error end.

Definition sibling_read (w : world) (b i : nat) (kd : rkind) : res :=
  match iout (itm w i) with
  | Some o => rep_of kd (Some o)
  | None =>
    let b' := ibatch (itm w i) in
    match bout (bat w b') with
    | Some _ => rep_of kd None
    | None => if Nat.eqb b' b then RRaise E_BATCHING else RSkip
    end
  end.

(* value()/error() of the batch itself asked while its body runs.  A finished batch (the body cancelled it)
   reports its outcome.  For a pending batch this models the REPAIRED code (work/fixes/C11-compute-reentry.diff:
   BatchBase._compute raises BatchingError while _flushing is set).  The unchanged code has no such guard:
   FutureBase.value/error (futures.py 61-62, 96-97) call BatchBase._compute again, which runs the flush body a
   second time nested inside the first - known finding reentrant-body:batch-value/error:body-ran-again. *)
Definition batch_reread (w : world) (b : nat) (kd : rkind) : res :=
  match bout (bat w b) with
  | Some o => rep_of kd (Some o)
  | None => RRaise E_BATCHING
  end.

Definition raised (r : res) : option exn := match r with RRaise e => Some e | _ => None end.

(* one action of the body of batch b; Some e = the body raised e at this action *)
Definition exec1 (w : world) (b : nat) (a : action) : world * option exn :=
  match a with
  | ASetAll => set_all w (bitems (bat w b))
  | ASet k v =>
    match nth_error (bitems (bat w b)) k with
    | Some i => item_set w i (Ok v)
    | None => (w, None)
    end
  | ASetErr k e =>
    match nth_error (bitems (bat w b)) k with
    | Some i => item_set w i (Err e)
    | None => (w, None)
    end
  | ARaise e => (w, Some e)
  | ABase e => (w, Some e)
  | ANew v => new_item w (active w) v
  | ACancel oe => (cancel w b oe, None)
  | ARead k kd c =>
    match nth_error (bitems (bat w b)) k with
    | Some i => let r := sibling_read w b i kd in
                (emit w (ERead b i r), if c then None else raised r)
    | None => (w, None)
    end
  | AReflush c =>                      (* flush() 82: self._flushing (or is_computed()) -> BatchingError *)
    (emit w (EReflush b (RRaise E_BATCHING)), if c then None else Some E_BATCHING)
  | ASetRead k v j kd =>
    match nth_error (bitems (bat w b)) k with
    | Some i =>
      let '(w1, r) := item_set w i (Ok v) in
      match r with
      | Some e => (w1, Some e)         (* already complete: the subscriber never fires *)
      | None =>
        match nth_error (bitems (bat w1 b)) j with
        | Some i2 => (emit w1 (ERead b i2 (sibling_read w1 b i2 kd)), None)
        | None => (w1, None)
        end
      end
    | None => (w, None)
    end
  | AReadBatch kd c =>
    let r := batch_reread w b kd in (emit w (EBRead b r), if c then None else raised r)
  end.

Fixpoint exec (w : world) (b : nat) (acts : list action) : world * option exn :=
  match acts with
  | [] => (w, None)
  | a :: rest =>
    let '(w1, r) := exec1 w b a in
    match r with Some e => (w1, Some e) | None => exec w1 b rest end
  end.

Definition script_of (sc : list (list action)) (b : nat) : list action := nth b sc [ASetAll].

(* entry of _compute: switch the registry (110), then the body starts (the harness _flush logs) *)
Definition enter (w : world) (b : nat) : world :=
  let w1 := switch w b in
  let B := bat w1 b in
  emit (set_bat w1 b (mkB (bitems B) (bout B) (S (bruns B)) (bcancels B))) (EBody b (active w1)).

(* BatchBase._compute (109-116): never raises; set_value(None) after a body that already
   completed the batch raises FutureIsAlreadyComputed, which the handler swallows (115) *)
Definition compute (sc : list (list action)) (w : world) (b : nat) : world :=
  let '(w3, r) := exec (enter w b) b (script_of sc b) in
  match bout (bat w3 b) with
  | Some _ => w3
  | None => batch_computed w3 b (match r with None => Ok VNone | Some e => Err e end)
  end.

(* BatchBase.flush (64-94) *)
Definition clear_items (w : world) (b : nat) : world :=
  let B := bat w b in set_bat w b (mkB [] (bout B) (bruns B) (bcancels B)).

Definition flush (sc : list (list action)) (w : world) (b : nat) : world * option exn :=
  match bout (bat w b) with
  | Some _ => (w, Some E_BATCHING)
  | None => (clear_items (compute sc w b) b, None)
  end.

(* BatchItemBase._compute (222-228) *)
Definition item_compute (sc : list (list action)) (w : world) (i : nat) : world * option exn :=
  let b := ibatch (itm w i) in
  match bout (bat w b) with
  | Some _ => (w, None)
  | None => flush sc w b
  end.

(* ---------------------------------------------------------------- operations *)
Inductive op :=
| OAdd (v : val)                       (* new request through the registry                      *)
| OAddTo (b : nat) (v : val)           (* item constructed directly on batch b                  *)
| OFlush (b : nat)
| OCancel (b : nat) (oe : option exn)
| OItemValue (i : nat) | OItemError (i : nat) | OItemComputed (i : nat)
| OItemSet (i : nat) (v : val) | OItemSetErr (i : nat) (e : exn)
| OBatchValue (b : nat) | OBatchError (b : nat)
| OBatchSet (b : nat) (v : val) | OBatchSetErr (b : nat) (e : exn)
| OIsFlushed (b : nat) | OIsCancelled (b : nat) | OIsEmpty (b : nat)
| OActive.

Definition of_raise (x : world * option exn) (ok : world -> res) : world * res :=
  match snd x with Some e => (fst x, RRaise e) | None => (fst x, ok (fst x)) end.

(* FutureBase.value / error on an item: compute if needed, then report (54-64, 87-99) *)
Definition item_read (sc : list (list action)) (w : world) (i : nat) (rep : option outcome -> res) : world * res :=
  match iout (itm w i) with
  | Some o => (w, rep (Some o))
  | None => of_raise (item_compute sc w i) (fun w' => rep (iout (itm w' i)))
  end.

Definition batch_read (sc : list (list action)) (w : world) (b : nat) (rep : option outcome -> res) : world * res :=
  match bout (bat w b) with
  | Some o => (w, rep (Some o))
  | None => let w' := compute sc w b in (w', rep (bout (bat w' b)))
  end.

Definition step (sc : list (list action)) (w : world) (o : op) : world * res :=
  let onb (b : nat) (x : world * res) := if Nat.ltb b (nb w) then x else (w, RSkip) in
  let oni (i : nat) (x : world * res) := if Nat.ltb i (ni w) then x else (w, RSkip) in
  match o with
  | OAdd v => of_raise (new_item w (active w) v) (fun _ => RItem (ni w) (active w))
  | OAddTo b v => onb b (of_raise (new_item w b v) (fun _ => RItem (ni w) b))
  | OFlush b => onb b (of_raise (flush sc w b) (fun _ => RUnit))
  | OCancel b oe => onb b (cancel w b oe, RUnit)
  | OItemValue i => oni i (item_read sc w i report_value)
  | OItemError i => oni i (item_read sc w i report_error)
  | OItemComputed i => oni i (w, RBool (idone w i))
  | OItemSet i v => oni i (of_raise (item_set w i (Ok v)) (fun _ => RUnit))
  | OItemSetErr i e => oni i (of_raise (item_set w i (Err e)) (fun _ => RUnit))
  | OBatchValue b => onb b (batch_read sc w b report_value)
  | OBatchError b => onb b (batch_read sc w b report_error)
  | OBatchSet b v => onb b (of_raise (batch_set w b (Ok v)) (fun _ => RUnit))
  | OBatchSetErr b e => onb b (of_raise (batch_set w b (Err e)) (fun _ => RUnit))
  | OIsFlushed b => onb b (w, RBool (bdone w b))
  | OIsCancelled b => onb b (w, RBool (match bout (bat w b) with Some (Err _) => true | _ => false end))
  | OIsEmpty b => onb b (w, RBool (match bitems (bat w b) with [] => true | _ => false end))
  | OActive => (w, RBatch (active w))
  end.

Fixpoint run (sc : list (list action)) (w : world) (ops : list op) : world * list res :=
  match ops with
  | [] => (w, [])
  | o :: ops' =>
    let '(w1, r) := step sc w o in
    let '(w2, rs) := run sc w1 ops' in (w2, r :: rs)
  end.

(* ---------------------------------------------------------------- what the correspondence compares *)
Definition batch_summary (w : world) (b : nat) : option outcome * nat * nat * nat :=
  let B := bat w b in (bout B, bruns B, bcancels B, length (bitems B)).
Definition item_summary (w : world) (i : nat) : nat * option outcome :=
  (ibatch (itm w i), iout (itm w i)).

Definition run_case (sc : list (list action)) (ops : list op)
  : list res * list event * list (option outcome * nat * nat * nat) * list (nat * option outcome) * nat :=
  let '(w, rs) := run sc init ops in
  (rs, log w, map (batch_summary w) (seq 0 (nb w)), map (item_summary w) (seq 0 (ni w)), active w).
