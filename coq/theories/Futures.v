(* Futures.v — executable model of asynq/futures.py (FutureBase, Future, ConstFuture, ErrorFuture)
   and of an AsyncTask seen only through the FutureBase interface (C10).

   Source anchors (asynq/futures.py): value 54-65, set_value 66-76, reset_unsafe 77-86,
   error 87-100, set_error 101-110, is_computed 111-117, _computed 118-141,
   Future._compute 197-201, ConstFuture 205-219, ErrorFuture 224-235.                          *)
From Asynq Require Export Base.

(* what one run of the underlying computation does *)
Inductive pout :=
| PRet (v : val)          (* provider returns v / task body returns v           *)
| PRaise (e : exn)        (* raises an Exception instance e                      *)
| PBase (e : exn).        (* raises a BaseException (not caught by _compute)     *)

Inductive kind :=
| KPlain                  (* FutureBase(): _compute raises NotImplementedError   *)
| KLazy                   (* Future(provider)                                    *)
| KTask                   (* AsyncTask of a batch-free body: _compute runs it    *)
| KConst                  (* ConstFuture: sinking on_computed hook               *)
| KError.                 (* ErrorFuture: sinking on_computed hook               *)

Inductive cbkind := CbOk | CbRaise.

Record fstate := mk {
  fkind : kind;
  prov : list pout;            (* remaining script: outcome of the next runs; then [PRet VNone]    *)
  out : option outcome;
  runs : nat;                  (* how many times the underlying computation ran                 *)
  subs : list (Z * cbkind);    (* on_computed subscribers in subscription order                 *)
  log : list (Z * outcome)     (* callback invocations: (subscriber id, outcome it observed)     *)
}.

Inductive op :=
| OValue | OError | OCall | OIsComputed
| OSetValue (v : val) | OSetError (e : exn)
| OReset
| OSubscribe (id : Z) (k : cbkind).

Inductive res :=
| RVal (v : val)            (* returned v                                          *)
| RRaise (e : exn)          (* raised exception instance e                         *)
| RNoError                  (* error() returned None                               *)
| RErr (e : exn)            (* error() returned exception instance e               *)
| RBool (b : bool)
| RUnit.

Definition sinking (k : kind) : bool :=
  match k with KConst | KError => true | _ => false end.

Definition init (k : kind) (p : list pout) (o : outcome) : fstate :=
  match k with
  | KConst => mk KConst p (Some o) 0 [] []
  | KError => mk KError p (Some o) 0 [] []
  | KTask => mk KTask (match p with [] => [PRet VNone] | _ => p end) None 0 [] []   (* a fresh generator is live *)
  | _ => mk k p None 0 [] []
  end.

(* _computed: every subscriber present now is called once and sees the outcome already set;
   an Exception raised by a callback is swallowed (printed).  AsyncTask._computed also closes the
   generator: the rest of the script is dropped, a later run (after reset_unsafe) finds a closed
   generator and completes with None (async_task.py 203-209, 285-297). *)
Definition complete (s : fstate) (o : outcome) : fstate :=
  mk (fkind s) (match fkind s with KTask => [] | _ => prov s end) (Some o) (runs s) (subs s)
     (log s ++ map (fun sb => (fst sb, o)) (subs s)).

Definition report_value (o : outcome) : res :=
  match o with Ok v => RVal v | Err e => RRaise e end.
Definition report_error (o : outcome) : res :=
  match o with Ok _ => RNoError | Err e => RErr e end.

Definition with_run (s : fstate) (rest : list pout) : fstate :=
  mk (fkind s) rest (out s) (S (runs s)) (subs s) (log s).

(* _compute on an uncomputed future: (s', None) = returned normally, (s', Some e) = raised e *)
Definition compute (s : fstate) : fstate * option exn :=
  match fkind s with
  | KPlain | KConst | KError => (s, Some E_NOTIMPL)
  | KLazy =>
    match prov s with
    | [] => (complete (with_run s []) (Ok VNone), None)
    | PRet v :: rest => (complete (with_run s rest) (Ok v), None)
    | PRaise e :: rest => (complete (with_run s rest) (Err e), None)
    | PBase e :: rest => (with_run s rest, Some e)
    end
  | KTask =>
    match prov s with
    | [] => (complete s (Ok VNone), None)                 (* closed generator: no body run *)
    | PRet v :: rest => (complete (with_run s rest) (Ok v), None)
    | PRaise e :: rest | PBase e :: rest => (complete (with_run s rest) (Err e), None)
    end
  end.

Definition read (s : fstate) (rep : outcome -> res) : fstate * res :=
  match out s with
  | Some o => (s, rep o)
  | None =>
    let '(s', r) := compute s in
    match r with
    | Some e => (s', RRaise e)
    | None => match out s' with Some o => (s', rep o) | None => (s', RRaise E_NOTIMPL) end
    end
  end.

Definition step (s : fstate) (o : op) : fstate * res :=
  match o with
  | OValue | OCall => read s report_value
  | OError => read s report_error
  | OIsComputed => (s, RBool (match out s with Some _ => true | None => false end))
  | OSetValue v =>
    match out s with Some _ => (s, RRaise E_ALREADY) | None => (complete s (Ok v), RUnit) end
  | OSetError e =>
    match out s with Some _ => (s, RRaise E_ALREADY) | None => (complete s (Err e), RUnit) end
  | OReset => (mk (fkind s) (prov s) None (runs s) (subs s) (log s), RUnit)
  | OSubscribe id k =>
    if sinking (fkind s) then (s, RUnit)
    else (mk (fkind s) (prov s) (out s) (runs s) (subs s ++ [(id, k)]) (log s), RUnit)
  end.

Fixpoint run (s : fstate) (ops : list op) : fstate * list res :=
  match ops with
  | [] => (s, [])
  | o :: ops' =>
    let '(s1, r) := step s o in
    let '(s2, rs) := run s1 ops' in (s2, r :: rs)
  end.

(* what the correspondence compares: every op result, the callback log, the provider run count *)
Definition run_case (k : kind) (p : list pout) (o : outcome) (ops : list op)
  : list res * list (Z * outcome) * Z :=
  let '(s, rs) := run (init k p o) ops in (rs, log s, Z.of_nat (runs s)).
