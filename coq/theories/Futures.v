(* Futures.v — executable model of asynq/futures.py (FutureBase, Future, ConstFuture, ErrorFuture)
   and of an AsyncTask seen only through the FutureBase interface (C10).

   Source anchors (asynq/futures.py): value 54-65, set_value 66-76, reset_unsafe 77-86,
   error 87-100, set_error 101-110, is_computed 111-117, _computed 118-141,
   Future._compute 197-201, ConstFuture 205-219, ErrorFuture 224-235.
   qcore/events.py: EventHook.subscribe 45-48 (append), unsubscribe 50-52 (list.remove: first
   equal handler, ValueError when absent), safe_trigger 54-74 (iterates over a COPY of the handler
   list taken when the notification starts; every handler of the copy is called, whatever the
   handlers do to the live list or raise).                                                       *)
From Asynq Require Export Base.

Inductive kind :=
| KPlain                  (* FutureBase(): _compute raises NotImplementedError   *)
| KLazy                   (* Future(provider)                                    *)
| KTask                   (* AsyncTask of a batch-free body: _compute runs it    *)
| KConst                  (* ConstFuture: sinking on_computed hook               *)
| KError.                 (* ErrorFuture: sinking on_computed hook               *)

(* the CLASS of the Exception a raising subscriber raises.  FutureBase._computed (futures.py
   136-145) has a single `except Exception` clause around safe_trigger: every Exception subclass is
   printed and swallowed alike, whatever it is - also the classes other parts of asynq give a
   meaning to (AssertionError: "value of this item wasn't set", NonAsyncContext; StopIteration:
   generator protocol; FutureIsAlreadyComputed: single assignment; RuntimeError: generator.close();
   BatchingError / BatchCancelledError).  Every constructor is an Exception subclass; subscribers
   raising a BaseException (KeyboardInterrupt, SystemExit, GeneratorExit, ...) are outside the
   statement and outside the input space.                                                       *)
Inductive xcls :=
| XUser                         (* harness-defined Exception subclass carrying an id              *)
| XAssertion                    (* AssertionError, raised by a failing `assert` statement         *)
| XAssertionSub                 (* user-defined subclass of AssertionError                        *)
| XValue | XKey | XIndex | XType | XAttribute | XZeroDivision | XOSError
| XRuntime                      (* RuntimeError                                                   *)
| XNotImplemented               (* NotImplementedError (what FutureBase._compute raises)          *)
| XStopIteration                (* StopIteration                                                  *)
| XAlreadyComputed              (* asynq.futures.FutureIsAlreadyComputed(fut)                     *)
| XBatching | XBatchCancelled   (* asynq.batching.BatchingError / BatchCancelledError             *)
| XCustom.                      (* user-defined direct subclass of Exception                      *)

(* what one run of the underlying computation does.  A provider / body that raises an Exception
   raises one of some CLASS c: Future._compute (futures.py 197-201) has a single `except Exception as
   error: self.set_error(error)` - whatever the class, the raised instance becomes the future's error,
   also when the class is one asynq itself gives a meaning to (FutureIsAlreadyComputed raised by the
   provider about ANOTHER future, AssertionError, StopIteration, BatchingError, ...).               *)
Inductive pout :=
| PRet (v : val)               (* provider returns v / task body returns v                          *)
| PRaise (c : xcls) (e : exn)  (* raises the Exception instance e, of class c                       *)
| PBase (e : exn)              (* raises a BaseException (not caught by Future._compute)            *)
| PDouble.                     (* the provider is the SECOND resolver of a promise shared with another
                                  resolver: its promise.set_value(v) raises a genuine
                                  FutureIsAlreadyComputed(promise) - about the promise, not about
                                  the future being computed - out of the provider                   *)

(* a generator body that raises StopIteration: Python (PEP 479) turns it into a new RuntimeError
   before AsyncTask sees it; every other class reaches the task as the raised instance            *)
Definition gen_exn (c : xcls) (e : exn) : exn :=
  match c with XStopIteration => E_RUNTIME | _ => e end.

(* what an on_computed subscriber does when it is called (after it recorded the outcome it sees):
   a small script that can re-enter the future's subscription list                             *)
Inductive cbkind :=
| CbOk                          (* returns                                                        *)
| CbRaise (c : xcls)            (* raises an Exception of class c                                 *)
| CbUnsub (target : Z)          (* fut.on_computed.unsubscribe(<subscriber target>): itself, an
                                   earlier or a later one; ValueError if it is not registered     *)
| CbSub (id : Z) (k : cbkind)   (* fut.on_computed.subscribe(<new subscriber id with behaviour k>) *)
| CbSeq (a b : cbkind)          (* a, then b unless a raised                                      *)
| CbSet (target : Z) (o : outcome) (guarded : bool).
                                (* completes ANOTHER future of the case from inside the notification:
                                   <future target>.set_value/set_error(o) - guarded = only `if not
                                   target.is_computed()` (the alias / fallback pattern), unguarded = a
                                   computed target makes the callback raise FutureIsAlreadyComputed.
                                   Families with several futures (BatchFut.v: 0 = the batch, i = item
                                   i) interpret the target; in the single-future families the only
                                   future there is is the one being notified - already computed -, so
                                   the guarded form does nothing and the unguarded form raises          *)

Definition sub := (Z * cbkind)%type.

(* list.remove on the live handler list: drops the first entry of that subscriber *)
Fixpoint remove_first (t : Z) (l : list sub) : option (list sub) :=
  match l with
  | [] => None
  | x :: r => if Z.eqb (fst x) t then Some r
              else match remove_first t r with Some r' => Some (x :: r') | None => None end
  end.

(* one call of a subscriber: the live subscription list afterwards, and whether the call raised *)
Fixpoint run_cb (k : cbkind) (live : list sub) : list sub * bool :=
  match k with
  | CbOk => (live, false)
  | CbRaise _ => (live, true)
  | CbUnsub t => match remove_first t live with Some l => (l, false) | None => (live, true) end
  | CbSub id k' => (live ++ [(id, k')], false)
  | CbSeq a b => let '(l1, r) := run_cb a live in if r then (l1, true) else run_cb b l1
  | CbSet _ _ g => (live, negb g)
  end.

(* EventHook.safe_trigger: the loop runs over [snap] - the copy of the handler list made when the
   notification starts - while the subscribers act on [live]; an exception raised by a subscriber
   is remembered and the loop goes on (FutureBase._computed then swallows and prints it).
   Result: the live list afterwards, and the subscribers that were called, in call order.       *)
Fixpoint notify (snap live : list sub) : list sub * list Z :=
  match snap with
  | [] => (live, [])
  | sb :: rest =>
    let '(live2, called) := notify rest (fst (run_cb (snd sb) live)) in (live2, fst sb :: called)
  end.

Record fstate := mk {
  fkind : kind;
  prov : list pout;            (* remaining script: outcome of the next runs; then [PRet VNone]    *)
  out : option outcome;
  runs : nat;                  (* how many times the underlying computation ran                 *)
  subs : list sub;             (* on_computed handler list (live), in subscription order        *)
  log : list (Z * outcome)     (* callback invocations: (subscriber id, outcome it observed)     *)
}.

Inductive op :=
| OValue | OError | OCall | OIsComputed
| OSetValue (v : val) | OSetError (e : exn)
| OReset
| OSubscribe (id : Z) (k : cbkind).

Inductive res :=
| RVal (v : val)            (* returned v                                          *)
| RRaise (e : exn)          (* raised exception instance e                         *)
| RNoError                  (* error() returned None                               *)
| RErr (e : exn)            (* error() returned exception instance e               *)
| RBool (b : bool)
| RUnit.

Definition sinking (k : kind) : bool :=
  match k with KConst | KError => true | _ => false end.

Definition init (k : kind) (p : list pout) (o : outcome) : fstate :=
  match k with
  | KConst => mk KConst p (Some o) 0 [] []
  | KError => mk KError p (Some o) 0 [] []
  | KTask => mk KTask (match p with [] => [PRet VNone] | _ => p end) None 0 [] []   (* a fresh generator is live *)
  | _ => mk k p None 0 [] []
  end.

(* _computed: the outcome is stored first; then safe_trigger calls the subscribers (each one sees
   the outcome already set and appends its record to the log); an Exception raised by a callback is
   swallowed (printed).  AsyncTask._computed also closes the generator: the rest of the script is
   dropped, a later run (after reset_unsafe) finds a closed generator and completes with None
   (async_task.py 203-209, 285-297). *)
Definition complete (s : fstate) (o : outcome) : fstate :=
  mk (fkind s) (match fkind s with KTask => [] | _ => prov s end) (Some o) (runs s)
     (fst (notify (subs s) (subs s)))
     (log s ++ map (fun id => (id, o)) (snd (notify (subs s) (subs s)))).

Definition report_value (o : outcome) : res :=
  match o with Ok v => RVal v | Err e => RRaise e end.
Definition report_error (o : outcome) : res :=
  match o with Ok _ => RNoError | Err e => RErr e end.

Definition with_run (s : fstate) (rest : list pout) : fstate :=
  mk (fkind s) rest (out s) (S (runs s)) (subs s) (log s).

(* _compute on an uncomputed future: (s', None) = returned normally, (s', Some e) = raised e *)
Definition compute (s : fstate) : fstate * option exn :=
  match fkind s with
  | KPlain | KConst | KError => (s, Some E_NOTIMPL)
  | KLazy =>
    match prov s with
    | [] => (complete (with_run s []) (Ok VNone), None)
    | PRet v :: rest => (complete (with_run s rest) (Ok v), None)
    | PRaise _ e :: rest => (complete (with_run s rest) (Err e), None)
    | PBase e :: rest => (with_run s rest, Some e)
    | PDouble :: rest => (complete (with_run s rest) (Err E_ALREADY), None)
    end
  | KTask =>
    match prov s with
    | [] => (complete s (Ok VNone), None)                 (* closed generator: no body run *)
    | PRet v :: rest => (complete (with_run s rest) (Ok v), None)
    | PRaise c e :: rest => (complete (with_run s rest) (Err (gen_exn c e)), None)
    | PBase e :: rest => (complete (with_run s rest) (Err e), None)
    | PDouble :: rest => (complete (with_run s rest) (Err E_ALREADY), None)
    end
  end.

Definition read (s : fstate) (rep : outcome -> res) : fstate * res :=
  match out s with
  | Some o => (s, rep o)
  | None =>
    let '(s', r) := compute s in
    match r with
    | Some e => (s', RRaise e)
    | None => match out s' with Some o => (s', rep o) | None => (s', RRaise E_NOTIMPL) end
    end
  end.

Definition step (s : fstate) (o : op) : fstate * res :=
  match o with
  | OValue | OCall => read s report_value
  | OError => read s report_error
  | OIsComputed => (s, RBool (match out s with Some _ => true | None => false end))
  | OSetValue v =>
    match out s with Some _ => (s, RRaise E_ALREADY) | None => (complete s (Ok v), RUnit) end
  | OSetError e =>
    match out s with Some _ => (s, RRaise E_ALREADY) | None => (complete s (Err e), RUnit) end
  | OReset => (mk (fkind s) (prov s) None (runs s) (subs s) (log s), RUnit)
  | OSubscribe id k =>
    if sinking (fkind s) then (s, RUnit)
    else (mk (fkind s) (prov s) (out s) (runs s) (subs s ++ [(id, k)]) (log s), RUnit)
  end.

Fixpoint run (s : fstate) (ops : list op) : fstate * list res :=
  match ops with
  | [] => (s, [])
  | o :: ops' =>
    let '(s1, r) := step s o in
    let '(s2, rs) := run s1 ops' in (s2, r :: rs)
  end.

(* what the correspondence compares: every op result, the callback log, the provider run count,
   the subscribers registered at the end (list(fut.on_computed)) *)
Definition run_case (k : kind) (p : list pout) (o : outcome) (ops : list op)
  : list res * list (Z * outcome) * Z * list Z :=
  let '(s, rs) := run (init k p o) ops in (rs, log s, Z.of_nat (runs s), map fst (subs s)).
