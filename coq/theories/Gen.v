(* Gen.v — executable model of asynq/generator.py (C17): @async_generator(), Value,
   _AsyncGenerator.{next, send, _send_inner, _get_one_value}, list_of_generator, take_first,
   END_OF_GENERATOR.

   Source anchors (asynq/generator.py):
     END_OF_GENERATOR 26, async_generator 29-77, Value 80-87, list_of_generator 90-99,
     take_first 102-113, _AsyncGenerator.__init__ 116-120, next 125-129, send 131-150,
     _send_inner 152-164, _get_one_value 166-171.

   What is abstracted: the scheduler only appears as "a yielded task / future is computed before
   the task that yielded it is resumed" (`compute`); a future is its outcome (`tres`), whatever
   kind of future it is (ConstFuture, AsyncTask, a task blocked on a batch item).  A generator
   body is a finite list of steps; the value each `yield` evaluates to is recorded (`sent`). *)
From Asynq Require Export Base.

(* result of a future / of a task produced by the async generator *)
Inductive tres :=
| TVal (v : val)          (* computed with value v                                   *)
| TEnd                    (* computed with the marker END_OF_GENERATOR               *)
| TErr (e : exn).         (* computed with error e                                   *)

(* one step of the body of an @async_generator() function *)
Inductive step :=
| GAwait (o : tres)       (* x = yield <future whose outcome is o>                   *)
| GValue (v : val)        (* x = yield Value(v); v names the payload OBJECT, see below *)
| GRaise (e : exn).       (* raise e   (the body dies)                               *)

(* The payload of a Value.  `Value(obj)` may hold any Python object: None, an int, a tuple / list, or a
   FUTURE the consumer is meant to receive as an object (an unstarted task it wants to batch with
   others, a computed task, a ConstFuture / ErrorFuture, a lazy Future, a batch item).  generator.py
   never looks at it: `Value.__init__` stores it (`self.value = value`, 84), send wraps it into a
   fresh `ConstFuture(first_value.value)` (151 in today's /repo, 147 in the numbering above) and
   _send_inner returns it as the task's result (`return value.value`, 166 / 162); nothing asks
   `isinstance(payload, FutureBase)` and nothing ever yields the payload to the scheduler.  So in
   the model the `v` of `GValue v` is a LABEL of that object: data is its own label, a future is
   labelled by its identity (the correspondence uses VTuple [VInt (-1); VInt id]), never by its
   result.  That the model cannot look inside is a theorem, not a convention:
   GenProofs.run_relabel (relabelling the payloads by any f : val -> val commutes with every
   consumer, for all bodies, states and op lists; what the body receives and what the generator
   waits for do not change).  The payload is never awaited in the model because the only things
   that reach `compute` / `inner_loop` as something to wait for are the `o` of `GAwait o`. *)

(* _AsyncGenerator.last_task: None | a task not yet computed (with the future it will first
   wait for) | a computed task (with its result) *)
Inductive ltask := LNone | LPending (first : tres) | LDone (r : tres).

Record gstate := mkG {
  rest : list step;        (* what the underlying Python generator still has to execute     *)
  pulls : nat;             (* number of generator.send(...) calls made so far               *)
  sent : list tres;        (* the argument of each of those calls, in order                 *)
  last_task : ltask;       (* generator.py:119                                              *)
  is_stopped : bool        (* generator.py:120                                              *)
}.

Definition init (b : list step) : gstate := mkG b 0 [] LNone false.

(* what generator.send(x) does *)
Inductive yielded :=
| YStop                   (* raised StopIteration: body finished                     *)
| YExn (e : exn)          (* the body raised e                                       *)
| YValue (v : val)        (* yielded Value(v)                                        *)
| YFuture (o : tres).     (* yielded a future                                        *)

(* CPython: generator.send(x) resumes the body until its next yield; a finished generator (end
   of body, or killed by an exception) raises StopIteration on every later send *)
Definition gen_send (s : gstate) (x : tres) : gstate * yielded :=
  let upd b := mkG b (S (pulls s)) (sent s ++ [x]) (last_task s) (is_stopped s) in
  match rest s with
  | [] => (upd [], YStop)
  | GAwait o :: b => (upd b, YFuture o)
  | GValue v :: b => (upd b, YValue v)
  | GRaise e :: _ => (upd [], YExn e)
  end.

Definition set_stopped (s : gstate) : gstate :=
  mkG (rest s) (pulls s) (sent s) (last_task s) true.
Definition set_last (s : gstate) (t : ltask) : gstate :=
  mkG (rest s) (pulls s) (sent s) t (is_stopped s).

(* _get_one_value, 166-171 *)
Definition get_one_value (s : gstate) (x : tres) : gstate * yielded :=
  let '(s1, y) := gen_send s x in
  match y with
  | YStop => (set_stopped s1, YStop)
  | _ => (s1, y)
  end.

(* what send / next returns or raises *)
Inductive sres :=
| SRaise (e : exn)        (* RuntimeError (E_RUNTIME), StopIteration (E_STOPITER), or e of the body *)
| SConst (v : val)        (* ConstFuture(v)                                          *)
| STask.                  (* the new task self._send_inner.asynq(first), now last_task *)

(* send(None) = next(), 125-150 *)
Definition send (s : gstate) : gstate * sres :=
  match last_task s with
  | LPending _ => (s, SRaise E_RUNTIME)                        (* 134-138 *)
  | _ =>
    if is_stopped s then (s, SRaise E_STOPITER)                (* 139-140 *)
    else
      let '(s1, y) := get_one_value s (TVal VNone) in          (* 145 *)
      match y with
      | YStop => (s1, SRaise E_STOPITER)
      | YExn e => (s1, SRaise e)
      | YValue v => (s1, SConst v)                             (* 146-147: last_task untouched *)
      | YFuture o => (set_last s1 (LPending o), STask)         (* 148-150 *)
      end
  end.

(* marker for "the model's loop bound ran out"; GenProofs.inner_loop_fuel shows the bound used by
   `compute` is never reached *)
Definition E_FUEL : exn := -99.

(* the `while True` loop of _send_inner, 156-164.  yr = yield_result.  fuel bounds the number of
   iterations; S (length (rest s)) is always enough. *)
Fixpoint inner_loop (fuel : nat) (s : gstate) (yr : tres) : gstate * tres :=
  match fuel with
  | O => (s, TErr E_FUEL)
  | S f =>
    let '(s1, y) := get_one_value s yr in                      (* 158 *)
    match y with
    | YStop => (s1, TEnd)                                      (* 159-160 *)
    | YExn e => (s1, TErr e)                                   (* propagates out of the task *)
    | YValue v => (s1, TVal v)                                 (* 161-162 *)
    | YFuture (TErr e) => (s1, TErr e)                         (* 164: the yield raises e in _send_inner *)
    | YFuture o => inner_loop f s1 o                           (* 164 *)
    end
  end.

(* the scheduler computes last_task (a _send_inner task); a computed task just reports *)
Definition compute (s : gstate) : gstate * tres :=
  match last_task s with
  | LPending (TErr e) => (set_last s (LDone (TErr e)), TErr e) (* 155 raises *)
  | LPending first =>
    let '(s1, r) := inner_loop (S (length (rest s))) s first in
    (set_last s1 (LDone r), r)
  | LDone r => (s, r)
  | LNone => (s, TErr E_NOTIMPL)                               (* no task: never called *)
  end.

(* `for task in generator: value = yield task` — one iteration *)
Inductive nv := NVStop | NVRaise (e : exn) | NVItem (t : tres).

Definition next_value (s : gstate) : gstate * nv :=
  let '(s1, r) := send s in
  match r with
  | SRaise e => (s1, if e =? E_STOPITER then NVStop else NVRaise e)
  | SConst v => (s1, NVItem (TVal v))
  | STask =>
    let '(s2, t) := compute s1 in
    (s2, match t with TErr e => NVRaise e | _ => NVItem t end)
  end.

Inductive lres := LOk (l : list tres) | LErr (e : exn) | LFuel.

(* list_of_generator, 90-99 *)
Fixpoint list_loop (fuel : nat) (s : gstate) (data : list tres) : gstate * lres :=
  match fuel with
  | O => (s, LFuel)
  | S f =>
    let '(s1, x) := next_value s in
    match x with
    | NVStop => (s1, LOk data)
    | NVRaise e => (s1, LErr e)
    | NVItem TEnd => list_loop f s1 data                       (* 96-97 *)
    | NVItem t => list_loop f s1 (data ++ [t])                 (* 98 *)
    end
  end.

Definition fuel_of (s : gstate) : nat := S (S (length (rest s))).

Definition list_of_generator (s : gstate) : gstate * lres := list_loop (fuel_of s) s [].

(* take_first, 102-113: the loop; i is enumerate's counter *)
Fixpoint take_loop (fuel : nat) (s : gstate) (i n : Z) (ret : list tres) : gstate * lres :=
  match fuel with
  | O => (s, LFuel)
  | S f =>
    let '(s1, x) := next_value s in
    match x with
    | NVStop => (s1, LOk ret)
    | NVRaise e => (s1, LErr e)
    | NVItem TEnd => take_loop f s1 (i + 1) n ret              (* 108-109 *)
    | NVItem t =>
      let ret' := ret ++ [t] in                                (* 110 *)
      if i =? n - 1 then (s1, LOk ret')                        (* 111-112 *)
      else take_loop f s1 (i + 1) n ret'
    end
  end.

(* take_first as it is in /repo at the time of writing (no guard on n) *)
Definition take_first_orig (s : gstate) (n : Z) : gstate * lres := take_loop (fuel_of s) s 0 n [].

(* take_first with the proposed repair work/fixes/C17-take-first-zero.diff:
   `if n <= 0: return ret` before the loop.  This is what the correspondence uses. *)
Definition take_first (s : gstate) (n : Z) : gstate * lres :=
  if n <=? 0 then (s, LOk []) else take_loop (fuel_of s) s 0 n [].

(* ---------------------------------------------------------------- nested generators
   A body may iterate over another async generator as the documentation prescribes:

       for task in inner():
           x = yield task
           if x is END_OF_GENERATOR: continue
           yield Value(x)

   `drive` is what that `for` loop sees; `conv` is the outer body's reaction; the nested body is
   the inlined list of outer steps. *)
(* ---------------------------------------------------------------- what a body may hand to `yield`
   generator.py looks at a yielded object only to ask `isinstance(_, Value)` (send 149,
   _send_inner 164); everything else takes the `else` path: it becomes the first thing the
   _send_inner task waits for (151) or is yielded to the scheduler as it is (167).  So the body may
   yield whatever an @asynq() function may yield: a future, None ("nothing to wait for here", e.g.
   `yield (lookup.asynq(k) if k else None)` or a bare `yield`), or a tuple / list / dict of those,
   empty ones included.  What the `yield` then evaluates to is async_task.unwrap
   (async_task.py:441-484): None for None, future.value() for a future (raising its error), the
   container of the unwrapped members, left to right, for a container (the first member that
   raises wins). *)
Inductive aw :=
| WNone                            (* None                                            454-455 *)
| WFut (o : outcome)               (* a future computed with value / error            456-458 *)
| WTuple (l : list aw)             (* 459-473 *)
| WList (l : list aw)              (* 474-476 *)
| WDict (l : list (Z * aw)).       (* 477-479, items in insertion order *)

Fixpoint unwrap (w : aw) {struct w} : outcome :=
  let fix seq (l : list aw) {struct l} : list val + exn :=
      match l with
      | [] => inl []
      | x :: l' =>
        match unwrap x with
        | Err e => inr e
        | Ok v => match seq l' with inl vs => inl (v :: vs) | inr e => inr e end
        end
      end in
  let fix dseq (l : list (Z * aw)) {struct l} : list (Z * val) + exn :=
      match l with
      | [] => inl []
      | (k, x) :: l' =>
        match unwrap x with
        | Err e => inr e
        | Ok v => match dseq l' with inl vs => inl ((k, v) :: vs) | inr e => inr e end
        end
      end in
  match w with
  | WNone => Ok VNone
  | WFut o => o
  | WTuple l => match seq l with inl vs => Ok (VTuple vs) | inr e => Err e end
  | WList l => match seq l with inl vs => Ok (VList vs) | inr e => Err e end
  | WDict l => match dseq l with inl vs => Ok (VDict vs) | inr e => Err e end
  end.

Definition tres_of (o : outcome) : tres :=
  match o with Ok v => TVal v | Err e => TErr e end.

(* the step of the flat body that `yield w` is: for generator.py it is one more awaited thing whose
   outcome is unwrap w.  In particular a pause `yield None` is an await that resumes with None; it
   is NOT the end of the body (gen_send gives YFuture, never YStop, for it). *)
Definition yield_step (w : aw) : step := GAwait (tres_of (unwrap w)).

Inductive gstep :=
| NAwait (o : tres)
| NValue (v : val)
| NRaise (e : exn)
| NNest (b : list gstep)
| NYield (w : aw).        (* x = yield w, w not a Value: None / future / container of them *)

Inductive drv := DTask (t : tres) | DRaise (e : exn).

Fixpoint drive (fuel : nat) (s : gstate) : list drv :=
  match fuel with
  | O => []
  | S f =>
    let '(s1, r) := send s in
    match r with
    | SRaise e => if e =? E_STOPITER then [] else [DRaise e]   (* loop ends / exception escapes into the outer body *)
    | SConst v => DTask (TVal v) :: drive f s1
    | STask => let '(s2, t) := compute s1 in DTask t :: drive f s2
    end
  end.

Definition conv (d : drv) : list step :=
  match d with
  | DTask (TVal v) => [GAwait (TVal v); GValue v]
  | DTask TEnd => [GAwait TEnd]
  | DTask (TErr e) => [GAwait (TErr e); GValue VNone]   (* the task failed; if the outer body is resumed it receives None *)
  | DRaise e => [GRaise e]
  end.

Fixpoint inline1 (g : gstep) : list step :=
  match g with
  | NAwait o => [GAwait o]
  | NValue v => [GValue v]
  | NRaise e => [GRaise e]
  | NYield w => [yield_step w]
  | NNest b =>
    let ib := flat_map inline1 b in
    flat_map conv (drive (fuel_of (init ib)) (init ib))
  end.

Definition inline (b : list gstep) : list step := flat_map inline1 b.

(* ---------------------------------------------------------------- op interface (correspondence) *)
Inductive op :=
| ONext                   (* h = next(gen)                                           *)
| OCompute                (* h.value() for the handle returned by the last ONext     *)
| OList                   (* list_of_generator(gen)                                  *)
| OTake (n : Z).          (* take_first(gen, n)                                      *)

Inductive res :=
| RTask                   (* next returned a not yet computed AsyncTask              *)
| RConst (v : val)        (* next returned ConstFuture(v)                            *)
| RRaise (e : exn)
| RItem (t : tres)        (* h.value()                                               *)
| RList (l : list tres)
| RNoHandle
| RFuel.

(* handle kept by the caller: None | a ConstFuture | the generator's last_task, not yet computed
   by the caller | a task the caller has computed (the generator may have replaced last_task since) *)
Inductive handle := HNone | HConst (v : val) | HTask | HDone (t : tres).

Definition of_tres (t : tres) : res :=
  match t with TErr e => RRaise e | _ => RItem t end.

Definition of_lres (r : lres) : res :=
  match r with LOk l => RList l | LErr e => RRaise e | LFuel => RFuel end.

Definition step_op (sh : gstate * handle) (o : op) : (gstate * handle) * res :=
  let '(s, h) := sh in
  match o with
  | ONext =>
    let '(s1, r) := send s in
    match r with
    | SRaise e => ((s1, h), RRaise e)
    | SConst v => ((s1, HConst v), RConst v)
    | STask => ((s1, HTask), RTask)
    end
  | OCompute =>
    match h with
    | HNone => ((s, h), RNoHandle)
    | HConst v => ((s, h), RItem (TVal v))
    | HTask => let '(s1, t) := compute s in ((s1, HDone t), of_tres t)
    | HDone t => ((s, h), of_tres t)
    end
  | OList => let '(s1, r) := list_of_generator s in ((s1, h), of_lres r)
  | OTake n => let '(s1, r) := take_first s n in ((s1, h), of_lres r)
  end.

Fixpoint run (sh : gstate * handle) (ops : list op) : (gstate * handle) * list (res * Z * bool) :=
  match ops with
  | [] => (sh, [])
  | o :: ops' =>
    let '(sh1, r) := step_op sh o in
    let '(sh2, rs) := run sh1 ops' in
    (sh2, (r, Z.of_nat (pulls (fst sh1)), is_stopped (fst sh1)) :: rs)
  end.

(* what the correspondence compares: per op (result, generator.send calls so far, is_stopped),
   and the values the body received at its yields *)
Definition run_case (b : list gstep) (ops : list op) : list (res * Z * bool) * list tres :=
  let '(sh, rs) := run (init (inline b), HNone) ops in (rs, sent (fst sh)).
