(* TaskFut.v — executable model of an AsyncTask that is driven by the scheduler and can be completed
   from outside while its generator is suspended at a yield (C10), on top of Futures.v.

   Source anchors:
     asynq/async_task.py  AsyncTask._computed 150-162 (close the generator, then - in the finally
                          block - release dependencies and run FutureBase._computed, which fires
                          on_computed; an exception raised by generator.close() propagates to the
                          caller of set_value/set_error only AFTER the finally block ran),
                          _continue 164-201, _continue_on_generator 203-249 (generator finished ->
                          _generator = None), _queue_exit 285-297, _queue_throw_error 299-307,
                          _compute 107-117 (forwards to scheduler.wait_for).
     asynq/futures.py     set_value 66-76, set_error 101-110 (outcome stored BEFORE _computed runs),
                          _computed 118-141, Future._compute 197-201.
     asynq/scheduler.py   wait_for 63-74, _execute 76-117 (a plain future dependency is computed
                          by dependency._compute(), a batch item by flushing its batch),
                          _handle_async_task 143-178.
     asynq/batching.py    BatchBase.flush 64-97, _compute 109-116.

   What a task body looks like here: a generator that yields one dependency per [phase]; while the
   task is suspended at that yield the dependency's own computation (the provider of a lazy Future,
   or the _flush of the batch of a batch item) issues the phase's inner operations ON THE TASK
   (is_computed, set_value, set_error, subscribe, guarded reads) and then completes the dependency
   with [pdep].  The yield sits in a try/except GeneratorExit whose handler is the phase's
   [cleanup]: what the generator does when it is closed while suspended there.                     *)
From Asynq Require Export Base Futures BatchFut.

(* what the generator does when close() reaches it at the yield of this phase *)
Inductive cleanup :=
| CleanOk                     (* re-raises GeneratorExit: close() returns normally             *)
| CleanRaise (e : exn)        (* the handler raises an Exception: close() raises it            *)
| CleanRaiseBase (e : exn)    (* the handler raises a BaseException: close() raises it         *)
| CleanYield.                 (* the handler yields again: close() raises RuntimeError         *)

Inductive depvia := ViaFuture | ViaBatch.

(* operations issued on the task while it is suspended.  IValue / IError / ICall are GUARDED reads:
   the runner issues them only when the task is already computed (a computing read of a suspended
   task from inside its own dependency's computation re-enters the scheduler and is outside the
   input space); on an uncomputed task nothing is done and the result is RRaise E_SKIPPED.        *)
Inductive iop :=
| IIsComputed
| ISetValue (v : val) | ISetError (e : exn)
| ISubscribe (id : Z) (k : cbkind)
| IValue | IError | ICall.

Definition E_SKIPPED : exn := -20.

Record phase := mkphase {
  pvia : depvia;              (* carrier of the dependency; the task sees no difference          *)
  pclean : cleanup;
  pinner : list iop;
  pdep : outcome              (* how the dependency completes after the inner operations          *)
}.

Record tstate := tmk {
  tgen : option (list phase); (* Some = generator created, not started; None = closed / finished.
                                 Between two top-level operations the generator is never suspended:
                                 wait_for returns only when the task is computed                   *)
  tfin : pout;                (* what the body does after its last yield                          *)
  tout : option outcome;
  truns : nat;                (* how many times the body was started                              *)
  tsubs : list sub;
  tlog : list (Z * outcome);
  tinner : list res           (* results of the inner operations, in execution order             *)
}.

Definition tinit (ph : list phase) (fin : pout) : tstate := tmk (Some ph) fin None 0 [] [] [].

(* AsyncTask._computed after the outcome was stored: the generator is closed, every subscriber
   registered at that moment is called once and sees the stored outcome (FutureBase._computed in
   the finally block, so this happens whatever close() did); the subscribers may re-enter the
   subscription list (Futures.notify).                                                           *)
Definition tcomplete (s : tstate) (o : outcome) : tstate :=
  tmk None (tfin s) (Some o) (truns s) (fst (notify (tsubs s) (tsubs s)))
      (tlog s ++ map (fun id => (id, o)) (snd (notify (tsubs s) (tsubs s)))) (tinner s).

(* what set_value / set_error on the suspended task returns to its caller.  Since /repo e494717
   AsyncTask._computed drops an Exception raised by generator.close() (the task already has its
   outcome; the error of its with/finally blocks has no consumer): the handler's Exception, and the
   RuntimeError close() raises when the handler yields again, no longer reach the caller; a
   BaseException is not caught and is re-raised after the finally block as before                *)
Definition close_result (c : cleanup) : res :=
  match c with
  | CleanOk | CleanRaise _ | CleanYield => RUnit
  | CleanRaiseBase e => RRaise e
  end.

Definition istep (c : cleanup) (s : tstate) (o : iop) : tstate * res :=
  match o with
  | IIsComputed => (s, RBool (match tout s with Some _ => true | None => false end))
  | ISetValue v =>
    match tout s with Some _ => (s, RRaise E_ALREADY) | None => (tcomplete s (Ok v), close_result c) end
  | ISetError e =>
    match tout s with Some _ => (s, RRaise E_ALREADY) | None => (tcomplete s (Err e), close_result c) end
  | ISubscribe id k =>
    (tmk (tgen s) (tfin s) (tout s) (truns s) (tsubs s ++ [(id, k)]) (tlog s) (tinner s), RUnit)
  | IValue | ICall =>
    (s, match tout s with Some oc => report_value oc | None => RRaise E_SKIPPED end)
  | IError =>
    (s, match tout s with Some oc => report_error oc | None => RRaise E_SKIPPED end)
  end.

Definition push_inner (s : tstate) (r : res) : tstate :=
  tmk (tgen s) (tfin s) (tout s) (truns s) (tsubs s) (tlog s) (tinner s ++ [r]).

Fixpoint irun (c : cleanup) (s : tstate) (ops : list iop) : tstate :=
  match ops with
  | [] => s
  | o :: ops' => let '(s1, r) := istep c s o in irun c (push_inner s1 r) ops'
  end.

Definition outcome_of_pout (p : pout) : outcome :=
  match p with PRet v => Ok v | PRaise c e => Err (gen_exn c e) | PBase e => Err e | PDouble => Err E_ALREADY end.

(* the scheduler drives the started body: at each yield the dependency is computed (which runs the
   inner operations); a task that was completed meanwhile is popped and its body never resumes; a
   failed dependency is thrown into the generator (not caught by the body: the task fails with
   it); after the last yield the body returns / raises [tfin].                                    *)
Fixpoint exec (s : tstate) (ph : list phase) : tstate :=
  match ph with
  | [] => tcomplete s (outcome_of_pout (tfin s))
  | p :: rest =>
    let s1 := irun (pclean p) s (pinner p) in
    match tout s1 with
    | Some _ => s1
    | None => match pdep p with Ok _ => exec s1 rest | Err e => tcomplete s1 (Err e) end
    end
  end.

(* _compute of an uncomputed task = scheduler.wait_for(task) *)
Definition tcompute (s : tstate) : tstate :=
  match tgen s with
  | None => tcomplete s (Ok VNone)        (* closed generator: StopIteration at once, no body run *)
  | Some ph => exec (tmk None (tfin s) (tout s) (S (truns s)) (tsubs s) (tlog s) (tinner s)) ph
  end.

Definition tread (s : tstate) (rep : outcome -> res) : tstate * res :=
  match tout s with
  | Some o => (s, rep o)
  | None =>
    let s' := tcompute s in
    match tout s' with Some o => (s', rep o) | None => (s', RRaise E_NOTIMPL) end
  end.

(* top-level operations (between them the task is not inside the scheduler) *)
Definition tstep (s : tstate) (o : op) : tstate * res :=
  match o with
  | OValue | OCall => tread s report_value
  | OError => tread s report_error
  | OIsComputed => (s, RBool (match tout s with Some _ => true | None => false end))
  | OSetValue v =>   (* generator not started or closed: close() runs no body code *)
    match tout s with Some _ => (s, RRaise E_ALREADY) | None => (tcomplete s (Ok v), RUnit) end
  | OSetError e =>
    match tout s with Some _ => (s, RRaise E_ALREADY) | None => (tcomplete s (Err e), RUnit) end
  | OReset => (tmk (tgen s) (tfin s) None (truns s) (tsubs s) (tlog s) (tinner s), RUnit)
  | OSubscribe id k =>
    (tmk (tgen s) (tfin s) (tout s) (truns s) (tsubs s ++ [(id, k)]) (tlog s) (tinner s), RUnit)
  end.

Fixpoint trun (s : tstate) (ops : list op) : tstate * list res :=
  match ops with
  | [] => (s, [])
  | o :: ops' =>
    let '(s1, r) := tstep s o in
    let '(s2, rs) := trun s1 ops' in (s2, r :: rs)
  end.

Definition run_task (ph : list phase) (fin : pout) (ops : list op)
  : list res * list res * list (Z * outcome) * Z * list Z :=
  let '(s, rs) := trun (tinit ph fin) ops in
  (rs, tinner s, tlog s, Z.of_nat (truns s), map fst (tsubs s)).

(* single entry point for the correspondence: plain futures (Futures.run_case) or scheduled tasks *)
Inductive anycase :=
| CFut (k : kind) (p : list pout) (o : outcome) (ops : list op)
| CTask (ph : list phase) (fin : pout) (ops : list op)
| CBatch (its : list ispec) (fin : pout) (cs : list (nat * outcome)) (ops : list bop).   (* a batch and its items as futures: BatchFut.v *)

Inductive anyout :=
| OutFut (r : list res * list (Z * outcome) * Z * list Z)
| OutTask (r : list res * list res * list (Z * outcome) * Z * list Z)
| OutBatch (r : list res * list res * list blogrec * Z * list Z * list (option outcome * list Z)).

Definition run_any (c : anycase) : anyout :=
  match c with
  | CFut k p o ops => OutFut (Futures.run_case k p o ops)
  | CTask ph fin ops => OutTask (run_task ph fin ops)
  | CBatch its fin cs ops => OutBatch (run_batch its fin cs ops)
  end.
