(* BatchFut.v — executable model of a BATCH and its ITEMS seen as futures (C10): a BatchBase with n
   BatchItemBase items, each future with its own on_computed subscribers (scripted, possibly raising
   an Exception of some class - Futures.cbkind / Futures.xcls).  What C10 needs from it: items are
   completed INSIDE the batch's flush body and inside BatchBase._computed's item loop, i.e. item
   completions (with their notifications) are nested in the batch's own completion - an Exception
   leaking out of one item's notification would abort the flush body or the loop.

   Source anchors (asynq/batching.py): BatchBase.__init__ 38-41, flush 64-97 (raises BatchingError on
   a flushed batch; computes through error()), cancel 99-108, _compute 110-123 (_flush(); then
   set_value(None); any BaseException of the body becomes the batch's error unless it is computed),
   _computed 125-140 (every item that is not computed gets the batch's error - or AssertionError
   "Value of this item wasn't set on batch flush." when the flush succeeded - and only THEN
   FutureBase._computed fires the batch's own subscribers), BatchItemBase.__init__ 208-222,
   BatchItemBase._compute 224-231 (flushes the batch); asynq/futures.py set_value 66-76, set_error
   101-110, _computed 118-145.

   The flush body modelled here is the usual one: `for item in self.items: item.set_value(...)`,
   per item a list of outcomes to set in order ([] = the body forgets the item, [o] = sets it,
   [o; o'] = sets it twice: the second set raises FutureIsAlreadyComputed out of the body), then
   the body returns / raises [bfin].  Items get their subscribers before the first operation;
   reset_unsafe() is not part of this family (Futures.v / TaskFut.v cover it).

   CROSS-FUTURE CALLBACKS (round 7).  A subscriber of one future of the case may complete ANOTHER one
   from inside its notification (Futures.CbSet target outcome guarded: 0 = the batch, i = item i): a
   later / earlier sibling item, the item itself, the batch.  The nested completion runs the nested
   future's own notification (and, for the batch, BatchBase._computed with its item loop) before the
   outer callback returns.  A `_cancel()` override may set items too ([bcancel]).  The item loop of
   BatchBase._computed tests `item.is_computed()` RIGHT BEFORE each `item.set_error()` (batching.py
   132-140): an item completed meanwhile by a callback keeps the callback's outcome.
   Nesting is bounded by the number of futures (each nested completion consumes an uncomputed
   future); the executable model ties the recursion with a depth counter: [bset_at d] lets callbacks
   nest d levels deep, below that a CbSet counts as a raising callback ([no_rec]); the top-level
   operations use d = number of items + 2.  Every theorem holds for EVERY depth.                    *)

From Asynq Require Export Base Futures.

Record item := imk {
  iout : option outcome;
  isubs : list sub;              (* the item's own on_computed handlers                          *)
  iact : list outcome            (* what the flush body sets on this item, in order              *)
}.

(* a callback record: (future: 0 = the batch, i = item number i (from 1), subscriber id, outcome seen) *)
Definition blogrec := (Z * Z * outcome)%type.

Record bstate := bmk {
  bitems : list item;
  bfin : pout;                   (* how the flush body ends after it went over the items         *)
  bcancel : list (nat * outcome);(* the _cancel() override: `if not items[i].is_computed():
                                    items[i].set_value/set_error(o)` for each entry, in order     *)
  bout : option outcome;
  bruns : nat;                   (* how many times _flush ran                                    *)
  bsubs : list sub;
  blog : list blogrec;
  binner : list res              (* results of the body's set_value/set_error calls, in order    *)
}.

Definition E_BSKIP : exn := -20.   (* operation outside this family: not issued by the runner     *)
Definition E_DEPTH : exn := -21.   (* nesting deeper than the model's depth counter (never compared) *)

(* ---- addressing the futures of the case: 0 = the batch, S i = item number i+1 ---- *)
Definition item_out (s : bstate) (i : nat) : option outcome :=
  match nth_error (bitems s) i with Some it => iout it | None => None end.

Definition fout (s : bstate) (t : nat) : option outcome :=
  match t with O => bout s | S i => item_out s i end.

Definition fexists (s : bstate) (t : nat) : bool :=
  match t with O => true | S i => Nat.ltb i (length (bitems s)) end.

Definition fsubs (s : bstate) (t : nat) : list sub :=
  match t with
  | O => bsubs s
  | S i => match nth_error (bitems s) i with Some it => isubs it | None => [] end
  end.

Fixpoint upd_nth (i : nat) (f : item -> item) (l : list item) : list item :=
  match l, i with
  | [], _ => []
  | x :: r, O => f x :: r
  | x :: r, S j => x :: upd_nth j f r
  end.

Definition with_items (s : bstate) (l : list item) : bstate :=
  bmk l (bfin s) (bcancel s) (bout s) (bruns s) (bsubs s) (blog s) (binner s).

Definition set_fsubs (s : bstate) (t : nat) (l : list sub) : bstate :=
  match t with
  | O => bmk (bitems s) (bfin s) (bcancel s) (bout s) (bruns s) l (blog s) (binner s)
  | S i => with_items s (upd_nth i (fun it => imk (iout it) l (iact it)) (bitems s))
  end.

(* FutureBase.set_value / set_error, first half: the outcome is stored *)
Definition store (s : bstate) (t : nat) (o : outcome) : bstate :=
  match t with
  | O => bmk (bitems s) (bfin s) (bcancel s) (Some o) (bruns s) (bsubs s) (blog s) (binner s)
  | S i => with_items s (upd_nth i (fun it => imk (Some o) (isubs it) (iact it)) (bitems s))
  end.

Definition add_log (s : bstate) (r : blogrec) : bstate :=
  bmk (bitems s) (bfin s) (bcancel s) (bout s) (bruns s) (bsubs s) (blog s ++ [r]) (binner s).

Definition push_binner (s : bstate) (r : res) : bstate :=
  bmk (bitems s) (bfin s) (bcancel s) (bout s) (bruns s) (bsubs s) (blog s) (binner s ++ [r]).

Definition is_raise (r : res) : bool := match r with RRaise _ => true | _ => false end.

Definition fill_error (o : outcome) : exn := match o with Err e => e | Ok _ => E_NOTSET end.

(* ---- one level of completion; [rec] = what a callback's CbSet on an uncomputed future does ---- *)
Section Level.
  Variable rec : bstate -> nat -> outcome -> bstate * res.

  (* one call of a subscriber of future t (after its record was logged) *)
  Fixpoint run_bcb (t : nat) (k : cbkind) (s : bstate) : bstate * bool :=
    match k with
    | CbOk => (s, false)
    | CbRaise _ => (s, true)
    | CbUnsub x =>
      match remove_first x (fsubs s t) with Some l => (set_fsubs s t l, false) | None => (s, true) end
    | CbSub id k' => (set_fsubs s t (fsubs s t ++ [(id, k')]), false)
    | CbSeq a b => let '(s1, r) := run_bcb t a s in if r then (s1, true) else run_bcb t b s1
    | CbSet x o g =>
      match fout s (Z.to_nat x) with
      | Some _ => (s, negb g)           (* guarded: skipped; unguarded: FutureIsAlreadyComputed *)
      | None => let '(s', r) := rec s (Z.to_nat x) o in (s', is_raise r)
      end
    end.

  (* safe_trigger over the copy [snap] of future t's handler list: each handler sees the outcome
     (its record), then does what its script says; what it raises is swallowed *)
  Fixpoint bnotify (t : nat) (o : outcome) (snap : list sub) (s : bstate) : bstate :=
    match snap with
    | [] => s
    | sb :: rest => bnotify t o rest (fst (run_bcb t (snd sb) (add_log s (Z.of_nat t, fst sb, o))))
    end.

  (* set_value / set_error on ITEM number i+1 (FutureBase.set_*, FutureBase._computed) *)
  Definition iset (s : bstate) (i : nat) (o : outcome) : bstate * res :=
    match item_out s i with
    | Some _ => (s, RRaise E_ALREADY)
    | None =>
      if Nat.ltb i (length (bitems s))
      then let s1 := store s (S i) o in (bnotify (S i) o (fsubs s1 (S i)) s1, RUnit)
      else (s, RRaise E_BSKIP)
    end.

  (* the _cancel() override *)
  Fixpoint cancel_sets (l : list (nat * outcome)) (s : bstate) : bstate :=
    match l with
    | [] => s
    | (i, o) :: r =>
      cancel_sets r (match item_out s i with Some _ => s | None => fst (iset s i o) end)
    end.

  (* BatchBase._computed's loop `for item in self.items: if not item.is_computed(): item.set_error(e)`:
     the test is made right before each set, on the state the earlier sets and their callbacks left *)
  Fixpoint fill_loop (i n : nat) (e : exn) (s : bstate) : bstate :=
    match n with
    | O => s
    | S n' =>
      fill_loop (S i) n' e (match item_out s i with Some _ => s | None => fst (iset s i (Err e)) end)
    end.

  (* set_value / set_error on the BATCH: outcome stored; BatchBase._computed: _cancel() when the
     outcome is an error, the item loop, then the batch's own subscribers *)
  Definition bset0 (s : bstate) (o : outcome) : bstate * res :=
    match bout s with
    | Some _ => (s, RRaise E_ALREADY)
    | None =>
      let s1 := store s O o in
      let s2 := match o with Err _ => cancel_sets (bcancel s1) s1 | Ok _ => s1 end in
      let s3 := fill_loop 0 (length (bitems s2)) (fill_error o) s2 in
      (bnotify O o (bsubs s3) s3, RUnit)
    end.

  Definition bset_level (s : bstate) (t : nat) (o : outcome) : bstate * res :=
    match t with O => bset0 s o | S i => iset s i o end.

  (* the flush body's calls on item i+1; the first one that raises ends the body *)
  Fixpoint body_item (i : nat) (os : list outcome) (s : bstate) : bstate * option exn :=
    match os with
    | [] => (s, None)
    | o :: r =>
      let '(s1, x) := iset s i o in
      match x with
      | RRaise e => (push_binner s1 x, Some e)
      | _ => body_item i r (push_binner s1 x)
      end
    end.

  Fixpoint flush_body (i : nat) (acts : list (list outcome)) (s : bstate) : bstate * option exn :=
    match acts with
    | [] => (s, None)
    | os :: r =>
      let '(s1, f) := body_item i os s in
      match f with Some e => (s1, Some e) | None => flush_body (S i) r s1 end
    end.

  (* BatchBase._compute on an uncomputed batch: `_flush(); self.set_value(None)` inside `try`,
     `except BaseException as error: if not self.is_computed(): self.set_error(error)` - a batch
     that a callback completed while the body ran keeps that outcome *)
  Definition bcompute (s : bstate) : bstate :=
    let s0 := bmk (bitems s) (bfin s) (bcancel s) (bout s) (S (bruns s)) (bsubs s) (blog s) (binner s) in
    let '(s1, f) := flush_body 0 (map iact (bitems s0)) s0 in
    let o := match f with
             | Some e => Err e
             | None => match bfin s with PRet _ => Ok VNone | PRaise _ e | PBase e => Err e | PDouble => Err E_ALREADY end
             end in
    fst (bset0 s1 o).
End Level.

(* below the depth counter a callback's cross-future set counts as a raising callback *)
Definition no_rec (s : bstate) (t : nat) (o : outcome) : bstate * res := (s, RRaise E_DEPTH).

Fixpoint bset_at (d : nat) : bstate -> nat -> outcome -> bstate * res :=
  match d with
  | O => bset_level no_rec
  | S d' => bset_level (bset_at d')
  end.

Definition depth_of (s : bstate) : nat := length (bitems s) + 2.

(* what the top-level operations use *)
Definition bset (s : bstate) (t : nat) (o : outcome) : bstate * res := bset_at (S (depth_of s)) s t o.
Definition bcompute_top (s : bstate) : bstate := bcompute (bset_at (depth_of s)) s.

Inductive bop :=
| BOn (t : nat) (o : op)      (* operation o on the batch (t = 0) or on item number t             *)
| BFlush                      (* batch.flush()                                                     *)
| BCancel.                    (* batch.cancel()                                                    *)

Definition bread (s : bstate) (rep : outcome -> res) : bstate * res :=
  match bout s with
  | Some o => (s, rep o)
  | None => let s' := bcompute_top s in
            (s', match bout s' with Some o => rep o | None => RRaise E_NOTIMPL end)
  end.

(* value()/error()/call on item number i+1: an uncomputed item flushes its batch *)
Definition iread (s : bstate) (i : nat) (rep : outcome -> res) : bstate * res :=
  match item_out s i with
  | Some o => (s, rep o)
  | None =>
    match bout s with
    | Some _ => (s, RRaise E_BSKIP)      (* no such item / unreachable: all_items_computed *)
    | None => let s' := bcompute_top s in
              (s', match item_out s' i with Some o => rep o | None => RRaise E_BSKIP end)
    end
  end.

Definition bstep (s : bstate) (o : bop) : bstate * res :=
  match o with
  | BOn O (OValue | OCall) => bread s report_value
  | BOn O OError => bread s report_error
  | BOn (S i) (OValue | OCall) => iread s i report_value
  | BOn (S i) OError => iread s i report_error
  | BOn t OIsComputed => (s, RBool (match fout s t with Some _ => true | None => false end))
  | BOn t (OSetValue v) => bset s t (Ok v)
  | BOn t (OSetError e) => bset s t (Err e)
  | BOn t (OSubscribe id k) =>
    if fexists s t then (set_fsubs s t (fsubs s t ++ [(id, k)]), RUnit) else (s, RRaise E_BSKIP)
  | BOn _ OReset => (s, RRaise E_BSKIP)
  | BFlush => match bout s with Some _ => (s, RRaise E_BATCHING) | None => (bcompute_top s, RUnit) end
  | BCancel => match bout s with Some _ => (s, RUnit) | None => (fst (bset s O (Err E_CANCELLED)), RUnit) end
  end.

Fixpoint brun (s : bstate) (ops : list bop) : bstate * list res :=
  match ops with
  | [] => (s, [])
  | o :: ops' =>
    let '(s1, r) := bstep s o in
    let '(s2, rs) := brun s1 ops' in (s2, r :: rs)
  end.

(* an item as the case describes it: its subscribers (registered before the first operation) and
   what the flush body sets on it *)
Definition ispec := (list sub * list outcome)%type.

Definition binit (its : list ispec) (fin : pout) (cs : list (nat * outcome)) : bstate :=
  bmk (map (fun sp => imk None (fst sp) (snd sp)) its) fin cs None 0 [] [] [].

(* compared by the correspondence: op results, the results of the body's sets, the callback log,
   the number of _flush runs, the batch's subscribers at the end, every item's final outcome
   (None = never completed) and subscribers *)
Definition run_batch (its : list ispec) (fin : pout) (cs : list (nat * outcome)) (ops : list bop)
  : list res * list res * list blogrec * Z * list Z * list (option outcome * list Z) :=
  let '(s, rs) := brun (binit its fin cs) ops in
  (rs, binner s, blog s, Z.of_nat (bruns s), map fst (bsubs s),
   map (fun it => (iout it, map fst (isubs it))) (bitems s)).
