(* BatchFut.v — executable model of a BATCH and its ITEMS seen as futures (C10): a BatchBase with n
   BatchItemBase items, each future with its own on_computed subscribers (scripted, possibly raising
   an Exception of some class - Futures.cbkind / Futures.xcls).  What C10 needs from it: items are
   completed INSIDE the batch's flush body and inside BatchBase._computed's item loop, i.e. item
   completions (with their notifications) are nested in the batch's own completion - an Exception
   leaking out of one item's notification would abort the flush body or the loop.

   Source anchors (asynq/batching.py): BatchBase.__init__ 38-41, flush 64-97 (raises BatchingError on
   a flushed batch; computes through error()), cancel 99-108, _compute 110-123 (_flush(); then
   set_value(None); any BaseException of the body becomes the batch's error unless it is computed),
   _computed 125-140 (every item that is not computed gets the batch's error - or AssertionError
   "Value of this item wasn't set on batch flush." when the flush succeeded - and only THEN
   FutureBase._computed fires the batch's own subscribers), BatchItemBase.__init__ 208-222,
   BatchItemBase._compute 224-231 (flushes the batch); asynq/futures.py set_value 66-76, set_error
   101-110, _computed 118-145.

   The flush body modelled here is the usual one: `for item in self.items: item.set_value(...)`,
   per item a list of outcomes to set in order ([] = the body forgets the item, [o] = sets it,
   [o; o'] = sets it twice: the second set raises FutureIsAlreadyComputed out of the body), then
   the body returns / raises [bfin].  Items get their subscribers before the first operation;
   reset_unsafe() is not part of this family (Futures.v / TaskFut.v cover it).                      *)
From Asynq Require Export Base Futures.

Record item := imk {
  iout : option outcome;
  isubs : list sub;              (* the item's own on_computed handlers                          *)
  iact : list outcome            (* what the flush body sets on this item, in order              *)
}.

(* a callback record: (future: 0 = the batch, i = item number i (from 1), subscriber id, outcome seen) *)
Definition blogrec := (Z * Z * outcome)%type.

Record bstate := bmk {
  bitems : list item;
  bfin : pout;                   (* how the flush body ends after it went over the items         *)
  bout : option outcome;
  bruns : nat;                   (* how many times _flush ran                                    *)
  bsubs : list sub;
  blog : list blogrec;
  binner : list res              (* results of the body's set_value/set_error calls, in order    *)
}.

(* set_value / set_error on the uncomputed item number t: outcome stored, then its subscribers *)
Definition icomplete (t : Z) (it : item) (o : outcome) : item * list blogrec :=
  (imk (Some o) (fst (notify (isubs it) (isubs it))) (iact it),
   map (fun id => (t, id, o)) (snd (notify (isubs it) (isubs it)))).

Definition iset (t : Z) (it : item) (o : outcome) : item * list blogrec * res :=
  match iout it with
  | Some _ => (it, [], RRaise E_ALREADY)
  | None => let '(it', l) := icomplete t it o in (it', l, RUnit)
  end.

(* the body's calls on one item; the first one that raises ends the body *)
Fixpoint iset_all (t : Z) (it : item) (os : list outcome) : item * list blogrec * list res * option exn :=
  match os with
  | [] => (it, [], [], None)
  | o :: r =>
    let '(it1, l1, r1) := iset t it o in
    match r1 with
    | RRaise e => (it1, l1, [r1], Some e)
    | _ => let '(it2, l2, rs, f) := iset_all t it1 r in (it2, l1 ++ l2, r1 :: rs, f)
    end
  end.

Fixpoint flush_body (t : Z) (l : list item) : list item * list blogrec * list res * option exn :=
  match l with
  | [] => ([], [], [], None)
  | it :: r =>
    let '(it1, l1, rs1, f1) := iset_all t it (iact it) in
    match f1 with
    | Some e => (it1 :: r, l1, rs1, Some e)
    | None => let '(r', l2, rs2, f2) := flush_body (t + 1) r in (it1 :: r', l1 ++ l2, rs1 ++ rs2, f2)
    end
  end.

(* BatchBase._computed's loop: every item that is not computed is completed with error e *)
Fixpoint fill (t : Z) (l : list item) (e : exn) : list item * list blogrec :=
  match l with
  | [] => ([], [])
  | it :: r =>
    let '(r', lg) := fill (t + 1) r e in
    match iout it with
    | Some _ => (it :: r', lg)
    | None => let '(it', l1) := icomplete t it (Err e) in (it' :: r', l1 ++ lg)
    end
  end.

Definition fill_error (o : outcome) : exn := match o with Err e => e | Ok _ => E_NOTSET end.

(* set_value / set_error on the uncomputed batch: outcome stored, BatchBase._computed: the item
   loop, then the batch's own subscribers *)
Definition bcomplete (s : bstate) (o : outcome) : bstate :=
  let '(its, lg) := fill 1 (bitems s) (fill_error o) in
  bmk its (bfin s) (Some o) (bruns s) (fst (notify (bsubs s) (bsubs s)))
      (blog s ++ lg ++ map (fun id => (0, id, o)) (snd (notify (bsubs s) (bsubs s)))) (binner s).

(* BatchBase._compute on an uncomputed batch *)
Definition bcompute (s : bstate) : bstate :=
  let '(its, lg, rs, f) := flush_body 1 (bitems s) in
  bcomplete (bmk its (bfin s) (bout s) (S (bruns s)) (bsubs s) (blog s ++ lg) (binner s ++ rs))
            (match f with
             | Some e => Err e
             | None => match bfin s with PRet _ => Ok VNone | PRaise _ e | PBase e => Err e | PDouble => Err E_ALREADY end
             end).

Inductive bop :=
| BOn (t : nat) (o : op)      (* operation o on the batch (t = 0) or on item number t             *)
| BFlush                      (* batch.flush()                                                     *)
| BCancel.                    (* batch.cancel()                                                    *)

Definition E_BSKIP : exn := -20.   (* operation outside this family: not issued by the runner     *)

Definition bread (s : bstate) (rep : outcome -> res) : bstate * res :=
  match bout s with
  | Some o => (s, rep o)
  | None => let s' := bcompute s in
            (s', match bout s' with Some o => rep o | None => RRaise E_NOTIMPL end)
  end.

Definition item_out (s : bstate) (i : nat) : option outcome :=
  match nth_error (bitems s) i with Some it => iout it | None => None end.

(* value()/error()/call on item number i+1: an uncomputed item flushes its batch *)
Definition iread (s : bstate) (i : nat) (rep : outcome -> res) : bstate * res :=
  match item_out s i with
  | Some o => (s, rep o)
  | None =>
    match bout s with
    | Some _ => (s, RRaise E_BSKIP)      (* no such item / unreachable: all_items_computed *)
    | None => let s' := bcompute s in
              (s', match item_out s' i with Some o => rep o | None => RRaise E_BSKIP end)
    end
  end.

Definition bstep (s : bstate) (o : bop) : bstate * res :=
  match o with
  | BOn O (OValue | OCall) => bread s report_value
  | BOn O OError => bread s report_error
  | BOn O OIsComputed => (s, RBool (match bout s with Some _ => true | None => false end))
  | BOn O (OSetValue v) =>
    match bout s with Some _ => (s, RRaise E_ALREADY) | None => (bcomplete s (Ok v), RUnit) end
  | BOn O (OSetError e) =>
    match bout s with Some _ => (s, RRaise E_ALREADY) | None => (bcomplete s (Err e), RUnit) end
  | BOn O (OSubscribe id k) =>
    (bmk (bitems s) (bfin s) (bout s) (bruns s) (bsubs s ++ [(id, k)]) (blog s) (binner s), RUnit)
  | BOn (S i) (OValue | OCall) => iread s i report_value
  | BOn (S i) OError => iread s i report_error
  | BOn (S i) OIsComputed => (s, RBool (match item_out s i with Some _ => true | None => false end))
  | BOn _ _ => (s, RRaise E_BSKIP)
  | BFlush => match bout s with Some _ => (s, RRaise E_BATCHING) | None => (bcompute s, RUnit) end
  | BCancel => match bout s with Some _ => (s, RUnit) | None => (bcomplete s (Err E_CANCELLED), RUnit) end
  end.

Fixpoint brun (s : bstate) (ops : list bop) : bstate * list res :=
  match ops with
  | [] => (s, [])
  | o :: ops' =>
    let '(s1, r) := bstep s o in
    let '(s2, rs) := brun s1 ops' in (s2, r :: rs)
  end.

(* an item as the case describes it: its subscribers (registered before the first operation) and
   what the flush body sets on it *)
Definition ispec := (list sub * list outcome)%type.

Definition binit (its : list ispec) (fin : pout) : bstate :=
  bmk (map (fun sp => imk None (fst sp) (snd sp)) its) fin None 0 [] [] [].

(* compared by the correspondence: op results, the results of the body's sets, the callback log,
   the number of _flush runs, the batch's subscribers at the end, every item's final outcome
   (None = never completed) and subscribers *)
Definition run_batch (its : list ispec) (fin : pout) (ops : list bop)
  : list res * list res * list blogrec * Z * list Z * list (option outcome * list Z) :=
  let '(s, rs) := brun (binit its fin) ops in
  (rs, binner s, blog s, Z.of_nat (bruns s), map fst (bsubs s),
   map (fun it => (iout it, map fst (isubs it))) (bitems s)).
