(* Prog.v — programs run by the scheduler model: yield structures, future expressions, task
   bodies as resumptions with Gallina continuations (HOAS).  Every [prog] is finite by
   construction; continuations are arbitrary Gallina functions.  Stdlib only. *)
From Asynq Require Export Base.

Definition fid := list Z.             (* id of a future: [n] = the n-th future created in this case *)

Fixpoint fid_eqb (a b : fid) : bool :=
  match a, b with
  | [], [] => true
  | x :: a', y :: b' => Z.eqb x y && fid_eqb a' b'
  | _, _ => false
  end.

(* ---- yielded structures (async_task.py unwrap 427-470, extract_futures 481-496) ---- *)
Inductive ystruct (A : Type) :=
| YNone
| YLeaf (a : A)
| YTuple (l : list (ystruct A))
| YList (l : list (ystruct A))
| YDict (l : list (Z * ystruct A)).
Arguments YNone {A}. Arguments YLeaf {A}. Arguments YTuple {A}. Arguments YList {A}. Arguments YDict {A}.

Section Unwrap.
  Context {A : Type} (look : A -> outcome).
  (* left to right; the first failing leaf wins *)
  Fixpoint unwrap (s : ystruct A) : outcome :=
    let fix go (l : list (ystruct A)) : list val + exn :=
        match l with
        | [] => inl []
        | x :: l' => match unwrap x with
                     | Err e => inr e
                     | Ok v => match go l' with inl vs => inl (v :: vs) | inr e => inr e end
                     end
        end in
    let fix god (l : list (Z * ystruct A)) : list (Z * val) + exn :=
        match l with
        | [] => inl []
        | (k, x) :: l' => match unwrap x with
                          | Err e => inr e
                          | Ok v => match god l' with inl vs => inl ((k, v) :: vs) | inr e => inr e end
                          end
        end in
    match s with
    | YNone => Ok VNone
    | YLeaf a => look a
    | YTuple l => match go l with inl vs => Ok (VTuple vs) | inr e => Err e end
    | YList l => match go l with inl vs => Ok (VList vs) | inr e => Err e end
    | YDict l => match god l with inl vs => Ok (VDict vs) | inr e => Err e end
    end.
End Unwrap.

(* leaves in written order (left to right, depth first) *)
Fixpoint leaves {A} (s : ystruct A) : list A :=
  let fix go (l : list (ystruct A)) : list A :=
      match l with [] => [] | x :: l' => leaves x ++ go l' end in
  let fix god (l : list (Z * ystruct A)) : list A :=
      match l with [] => [] | (_, x) :: l' => leaves x ++ god l' end in
  match s with
  | YNone => []
  | YLeaf a => [a]
  | YTuple l | YList l => go l
  | YDict l => god l
  end.

(* extract_futures: tuples and lists are walked from the last element to the first, dict values in
   insertion order *)
Fixpoint extract {A} (s : ystruct A) : list A :=
  let fix gor (l : list (ystruct A)) : list A :=       (* = flat_map extract (rev l) *)
      match l with [] => [] | x :: l' => gor l' ++ extract x end in
  let fix god (l : list (Z * ystruct A)) : list A :=
      match l with [] => [] | (_, x) :: l' => extract x ++ god l' end in
  match s with
  | YNone => []
  | YLeaf a => [a]
  | YTuple l | YList l => gor l
  | YDict l => god l
  end.

(* ---- contexts ---- *)
Inductive cfault :=
| NoFault
| ResumeRaises (k : nat) (e : exn)    (* the k-th scheduler-driven resume() (1-based) raises e *)
| PauseRaises (k : nat) (e : exn).    (* the k-th scheduler-driven pause() raises e            *)

Inductive ctxk :=
| CAsync (cid : Z) (f : cfault)       (* AsyncContext subclass logging resume/pause              *)
| CNonAsync (cid : Z)                 (* NonAsyncContext                                         *)
| COverride (cid : Z) (var : Z) (v : val).   (* AsyncScopedValue.override(v)                     *)

Definition cid_of (c : ctxk) : Z :=
  match c with CAsync i _ | CNonAsync i | COverride i _ _ => i end.

(* ---- what a flush does to one item ---- *)
Inductive iact := ASet (v : val) | AErr (e : exn) | ASkip.

(* ---- programs ---- *)
Inductive prog :=
| Ret (v : val)                                   (* return v                                    *)
| Result (v : val)                                (* result(v); return                           *)
| Raise (e : exn)                                 (* uncaught exception leaves the body          *)
| Yield (s : ystruct leaf) (k : outcome -> prog)  (* x = yield S                                 *)
| Let (f : fexpr) (k : fid -> prog)               (* h = <create future>, not awaited            *)
| Sync (h : fid) (k : outcome -> prog)            (* x = h.value()  (also fn(args) = create+value) *)
| Enter (c : ctxk) (k : prog)                     (* with c:  __enter__                          *)
| Exit (c : ctxk) (k : prog)                      (*          __exit__                           *)
| ReadVar (var : Z) (k : val -> prog)             (* AsyncScopedValue.get()                      *)
| Probe (k : option fid -> prog)                  (* get_active_task()                           *)
with fexpr :=
| FTask (p : prog)                                (* fn.asynq(...)                               *)
| FItem (kind key : Z) (a : iact)                 (* batch item of a harness batch kind          *)
| FConst (v : val)                                (* ConstFuture(v)                              *)
| FError (e : exn)                                (* ErrorFuture(e)                              *)
| FLazy (o : outcome)                             (* Future(provider)                            *)
with leaf :=
| LNew (f : fexpr)                                (* a future created inside the yield expression *)
| LOld (h : fid)                                  (* an existing handle                          *)
| LBad.                                           (* an object that is neither a future nor None  *)

(* a leaf after the futures in the yield expression have been created *)
Inductive rleaf := RFut (h : fid) | RBad.
