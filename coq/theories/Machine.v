(* Machine.v — executable small-step model of asynq's scheduler (scheduler.py), tasks
   (async_task.py), batches as the scheduler sees them (batching.py), contexts (contexts.py) and
   scoped values (scoped_value.py).  One transition function [step]; Python's call stack (asynq
   frames only) is the explicit [frame] list, so synchronous re-entry needs no nested recursion.

   The model follows the code as it is, path by path; source anchors are given at each transition.
   Stdlib only. *)
From Asynq Require Export Prog.

(* ------------------------------------------------------------------ parameters *)
Inductive pspec :=                       (* get_priority() of a harness batch kind *)
| PDefault                               (* (0, len(items))      batching.py 52-62 *)
| PBaseLen (b : Z)                       (* (b, len(items))                        *)
| PBaseRevLen (b : Z)                    (* (b, -len(items))                       *)
| PConst (a b : Z).                      (* (a, b)                                 *)

Record kspec := mkK {
  ks_prio : pspec;
  ks_raise : option (Z * exn)            (* the flush body raises e before touching item number k *)
}.

Record params := mkP {
  p_kinds : list (Z * kspec);            (* per batch kind; default PDefault / no raise            *)
  p_maxstack : Z;                        (* _debug.options.MAX_TASK_STACK_SIZE                      *)
  p_keep : bool;                         (* _debug.options.KEEP_DEPENDENCIES                        *)
  p_oracle : list (Z * Z)                (* which (kind, index) each scheduler flush picks (ties)   *)
}.

Definition kspec_of (P : params) (kind : Z) : kspec :=
  match find (fun kv => Z.eqb (fst kv) kind) (p_kinds P) with
  | Some kv => snd kv
  | None => mkK PDefault None
  end.

(* ------------------------------------------------------------------ state *)
Record task := mkTask {
  tk_gen : option (outcome -> prog);     (* suspended generator; None = closed (async_task.py 68)    *)
  tk_last : ystruct rleaf;               (* _last_value                                              *)
  tk_deps : list fid;                    (* _dependencies                                            *)
  tk_ctxs : list ctxk;                   (* _contexts, in entry order                                *)
  tk_cact : bool;                        (* _contexts_active                                         *)
  tk_ds : bool;                          (* _dependencies_scheduled                                  *)
  tk_iter : Z;                           (* iteration_index                                          *)
  tk_next : Z                            (* creation counter for path ids (harness-level)            *)
}.

Inductive fkind :=
| KTask (t : task)
| KItem (kind idx key : Z) (a : iact)
| KLazy (o : outcome)
| KOther.                                (* ConstFuture / ErrorFuture *)

Record fut := mkFut { f_out : option outcome; f_kind : fkind }.

Record batch := mkB { b_items : list fid; b_done : bool }.

Record cinst := mkCI { ci_old : val; ci_nres : nat; ci_npause : nat }.

Inductive event :=
| EvStep (t : fid) (n : Z) (o : outcome)     (* body of t resumed after its n-th yield (n=0: start)  *)
| EvGot (t : fid) (o : outcome)              (* a synchronous .value() inside t returned / raised    *)
| EvDone (t : fid) (o : outcome)             (* on_computed of a task                                *)
| EvItemDone (h : fid) (o : outcome)         (* on_computed of a batch item                          *)
| EvBefore (kind idx : Z)                    (* scheduler.on_before_batch_flush                      *)
| EvAfter (kind idx : Z)
| EvFlush (kind idx : Z) (items : list fid)  (* the harness batch's _flush body starts               *)
| EvResume (t : fid) (cid : Z)
| EvPause (t : fid) (cid : Z)
| EvRead (t : fid) (var : Z) (v : val)
| EvProbe (t : fid) (a : option fid)
| EvSched (ntasks nbatches : Z) (a : option fid)   (* str(scheduler) after a top-level computation   *)
| EvIllegal (kind idx : Z).                  (* the observed flush choice was not a maximal batch    *)

Record st := mkSt {
  heap : list (fid * fut);
  batches : list ((Z * Z) * batch);      (* every batch ever created, by (kind, index)              *)
  cur : list (Z * Z);                    (* harness registry: kind -> index of the active batch     *)
  sb : list (Z * Z);                     (* TaskScheduler._batches (a set; list without duplicates) *)
  tasks : list fid;                      (* TaskScheduler._tasks, head = top of stack               *)
  active : option fid;                   (* TaskScheduler.active_task                               *)
  vars : list (Z * val);                 (* AsyncScopedValue objects of the harness                 *)
  cis : list ((fid * Z) * cinst);        (* context instances, by (task, cid)                       *)
  oracle : list (Z * Z);
  top_next : Z;
  trace : list event                     (* newest first                                            *)
}.

Definition st0 (P : params) : st := mkSt [] [] [] [] [] None [] [] (p_oracle P) 0 [].

(* ------------------------------------------------------------------ small helpers *)
Definition key_eqb (a b : Z * Z) : bool := Z.eqb (fst a) (fst b) && Z.eqb (snd a) (snd b).
Definition ckey_eqb (a b : fid * Z) : bool := fid_eqb (fst a) (fst b) && Z.eqb (snd a) (snd b).

Definition get (h : fid) (s : st) : option fut :=
  match find (fun kv => fid_eqb (fst kv) h) (heap s) with Some kv => Some (snd kv) | None => None end.

Fixpoint upd {K V} (eqb : K -> K -> bool) (k : K) (v : V) (l : list (K * V)) : list (K * V) :=
  match l with
  | [] => [(k, v)]
  | (k', v') :: l' => if eqb k' k then (k, v) :: l' else (k', v') :: upd eqb k v l'
  end.

Definition with_heap (s : st) (h : list (fid * fut)) : st :=
  mkSt h (batches s) (cur s) (sb s) (tasks s) (active s) (vars s) (cis s) (oracle s) (top_next s) (trace s).
Definition with_batches (s : st) b : st :=
  mkSt (heap s) b (cur s) (sb s) (tasks s) (active s) (vars s) (cis s) (oracle s) (top_next s) (trace s).
Definition with_cur (s : st) c : st :=
  mkSt (heap s) (batches s) c (sb s) (tasks s) (active s) (vars s) (cis s) (oracle s) (top_next s) (trace s).
Definition with_sb (s : st) b : st :=
  mkSt (heap s) (batches s) (cur s) b (tasks s) (active s) (vars s) (cis s) (oracle s) (top_next s) (trace s).
Definition with_tasks (s : st) t : st :=
  mkSt (heap s) (batches s) (cur s) (sb s) t (active s) (vars s) (cis s) (oracle s) (top_next s) (trace s).
Definition with_active (s : st) a : st :=
  mkSt (heap s) (batches s) (cur s) (sb s) (tasks s) a (vars s) (cis s) (oracle s) (top_next s) (trace s).
Definition with_vars (s : st) v : st :=
  mkSt (heap s) (batches s) (cur s) (sb s) (tasks s) (active s) v (cis s) (oracle s) (top_next s) (trace s).
Definition with_cis (s : st) c : st :=
  mkSt (heap s) (batches s) (cur s) (sb s) (tasks s) (active s) (vars s) c (oracle s) (top_next s) (trace s).
Definition with_oracle (s : st) o : st :=
  mkSt (heap s) (batches s) (cur s) (sb s) (tasks s) (active s) (vars s) (cis s) o (top_next s) (trace s).
Definition with_top_next (s : st) n : st :=
  mkSt (heap s) (batches s) (cur s) (sb s) (tasks s) (active s) (vars s) (cis s) (oracle s) n (trace s).
Definition emit (e : event) (s : st) : st :=
  mkSt (heap s) (batches s) (cur s) (sb s) (tasks s) (active s) (vars s) (cis s) (oracle s) (top_next s) (e :: trace s).

Definition put (h : fid) (f : fut) (s : st) : st := with_heap s (upd fid_eqb h f (heap s)).

Definition computed (h : fid) (s : st) : bool :=
  match get h s with Some f => match f_out f with Some _ => true | None => false end | None => false end.

(* value()/error of a computed future; the default is never used on a computed one *)
Definition outcome_of (h : fid) (s : st) : outcome :=
  match get h s with
  | Some f => match f_out f with Some o => o | None => Err E_NOTIMPL end
  | None => Err E_NOTIMPL
  end.

Definition look (s : st) (r : rleaf) : outcome :=
  match r with RFut h => outcome_of h s | RBad => Err E_TYPEERROR end.

Definition futs (l : list rleaf) : list fid :=
  flat_map (fun r => match r with RFut h => [h] | RBad => [] end) l.

Definition get_task (t : fid) (s : st) : option task :=
  match get t s with Some (mkFut _ (KTask tk)) => Some tk | _ => None end.

Definition set_task (t : fid) (tk : task) (s : st) : st :=
  match get t s with
  | Some f => put t (mkFut (f_out f) (KTask tk)) s
  | None => s
  end.

Definition get_batch (k : Z * Z) (s : st) : batch :=
  match find (fun kv => key_eqb (fst kv) k) (batches s) with Some kv => snd kv | None => mkB [] false end.
Definition put_batch (k : Z * Z) (b : batch) (s : st) : st := with_batches s (upd key_eqb k b (batches s)).

Definition cur_idx (kind : Z) (s : st) : Z :=
  match find (fun kv => Z.eqb (fst kv) kind) (cur s) with Some kv => snd kv | None => 0 end.

Definition var_get (v : Z) (s : st) : val :=
  match find (fun kv => Z.eqb (fst kv) v) (vars s) with Some kv => snd kv | None => VInt 0 end.
Definition var_set (v : Z) (x : val) (s : st) : st := with_vars s (upd Z.eqb v x (vars s)).

Definition ci_get (k : fid * Z) (s : st) : cinst :=
  match find (fun kv => ckey_eqb (fst kv) k) (cis s) with Some kv => snd kv | None => mkCI VNone 0 0 end.
Definition ci_put (k : fid * Z) (c : cinst) (s : st) : st := with_cis s (upd ckey_eqb k c (cis s)).

(* ------------------------------------------------------------------ creating futures *)
Definition fresh_task (p : prog) : task := mkTask (Some (fun _ => p)) YNone [] [] false false 0 0.

(* the id of the next future: futures are numbered in creation order (one counter per case; the
   harness numbers them the same way).  [parent] is kept for readability of call sites only. *)
Definition alloc (parent : fid) (s : st) : fid * st :=
  ([top_next s], with_top_next s (top_next s + 1)).

(* BatchItemBase.__init__ (batching.py 208-220): the item joins the registry's active batch *)
Definition create (parent : fid) (f : fexpr) (s : st) : fid * st :=
  let '(h, s1) := alloc parent s in
  match f with
  | FTask p => (h, put h (mkFut None (KTask (fresh_task p))) s1)
  | FItem kind key a =>
    let idx := cur_idx kind s1 in
    let b := get_batch (kind, idx) s1 in
    (h, put_batch (kind, idx) (mkB (b_items b ++ [h]) (b_done b)) (put h (mkFut None (KItem kind idx key a)) s1))
  | FConst v => (h, put h (mkFut (Some (Ok v)) KOther) s1)
  | FError e => (h, put h (mkFut (Some (Err e)) KOther) s1)
  | FLazy o => (h, put h (mkFut None (KLazy o)) s1)
  end.

(* evaluating the yield expression: futures are created left to right *)
Fixpoint inst (parent : fid) (y : ystruct leaf) (s : st) : ystruct rleaf * st :=
  let fix go (l : list (ystruct leaf)) (s : st) : list (ystruct rleaf) * st :=
      match l with
      | [] => ([], s)
      | x :: l' => let '(x', s1) := inst parent x s in
                   let '(l'', s2) := go l' s1 in (x' :: l'', s2)
      end in
  let fix god (l : list (Z * ystruct leaf)) (s : st) : list (Z * ystruct rleaf) * st :=
      match l with
      | [] => ([], s)
      | (k, x) :: l' => let '(x', s1) := inst parent x s in
                        let '(l'', s2) := god l' s1 in ((k, x') :: l'', s2)
      end in
  match y with
  | YNone => (YNone, s)
  | YLeaf (LNew f) => let '(h, s1) := create parent f s in (YLeaf (RFut h), s1)
  | YLeaf (LOld h) => (YLeaf (RFut h), s)
  | YLeaf LBad => (YLeaf RBad, s)
  | YTuple l => let '(l', s1) := go l s in (YTuple l', s1)
  | YList l => let '(l', s1) := go l s in (YList l', s1)
  | YDict l => let '(l', s1) := god l s in (YDict l', s1)
  end.

(* ------------------------------------------------------------------ contexts *)
Definition remove_ctx (c : ctxk) (l : list ctxk) : list ctxk :=
  filter (fun c' => negb (Z.eqb (cid_of c') (cid_of c))) l.

Definition tk_with_ctxs (tk : task) (cs : list ctxk) (act : bool) : task :=
  mkTask (tk_gen tk) (tk_last tk) (tk_deps tk) cs act (tk_ds tk) (tk_iter tk) (tk_next tk).

(* AsyncContext.__enter__ (contexts.py 86-91): register with the active task, then resume() *)
Definition enter_ctx (t : fid) (c : ctxk) (s : st) : st :=
  let s1 := match get_task t s with
            | Some tk => set_task t (tk_with_ctxs tk (tk_ctxs tk ++ [c]) (tk_cact tk)) s
            | None => s
            end in
  match c with
  | CAsync cid _ => emit (EvResume t cid) s1
  | CNonAsync _ => s1
  | COverride cid var v =>
    let ci := ci_get (t, cid) s1 in
    var_set var v (ci_put (t, cid) (mkCI (var_get var s1) (ci_nres ci) (ci_npause ci)) s1)
  end.

(* the pause() half of __exit__ / of generator.close() *)
Definition pause_plain (t : fid) (c : ctxk) (s : st) : st :=
  match c with
  | CAsync cid _ => emit (EvPause t cid) s
  | CNonAsync _ => s
  | COverride cid var _ => var_set var (ci_old (ci_get (t, cid) s)) s
  end.

(* AsyncContext.__exit__ (contexts.py 93-104): leave_context, then pause() - unless the task's contexts
   are already paused (the block is being left by generator.close() of a task completed while suspended) *)
Definition exit_ctx (t : fid) (c : ctxk) (s : st) : st :=
  match get_task t s with
  | Some tk =>
    let s1 := set_task t (tk_with_ctxs tk (remove_ctx c (tk_ctxs tk)) (tk_cact tk)) s in
    if tk_cact tk then pause_plain t c s1 else s1
  | None => pause_plain t c s
  end.

(* FutureBase.set_value / set_error on a task + AsyncTask._computed (async_task.py 150-162):
   a live generator is closed, which runs the __exit__ of every open with-block, innermost first *)
Definition complete_task (t : fid) (o : outcome) (s : st) : st :=
  match get_task t s with
  | Some tk =>
    let s1 := match tk_gen tk with
              | Some _ => fold_left (fun s c => exit_ctx t c s) (rev (tk_ctxs tk)) s
              | None => s
              end in
    match get_task t s1 with
    | Some tk1 =>
      emit (EvDone t o)
           (put t (mkFut (Some o) (KTask (mkTask None YNone [] (tk_ctxs tk1) (tk_cact tk1) (tk_ds tk1)
                                                (tk_iter tk1) (tk_next tk1)))) s1)
    | None => s1
    end
  | None => s
  end.

(* AsyncTask._accept_error (async_task.py 257-283) *)
Definition accept_error (t : fid) (e : exn) (s : st) : st :=
  if computed t s then s else complete_task t (Err e) s.

(* one scheduler-driven resume(): returns the exception it raised, if any *)
Definition resume1 (t : fid) (c : ctxk) (s : st) : st * option exn :=
  match c with
  | CAsync cid f =>
    let ci := ci_get (t, cid) s in
    let n := S (ci_nres ci) in
    let s1 := emit (EvResume t cid) (ci_put (t, cid) (mkCI (ci_old ci) n (ci_npause ci)) s) in
    match f with
    | ResumeRaises k e => if Nat.eqb n k then (s1, Some e) else (s1, None)
    | _ => (s1, None)
    end
  | CNonAsync _ => (s, Some E_NONASYNC)
  | COverride cid var v =>
    let ci := ci_get (t, cid) s in
    (var_set var v (ci_put (t, cid) (mkCI (var_get var s) (ci_nres ci) (ci_npause ci)) s), None)
  end.

Definition pause1 (t : fid) (c : ctxk) (s : st) : st * option exn :=
  match c with
  | CAsync cid f =>
    let ci := ci_get (t, cid) s in
    let n := S (ci_npause ci) in
    let s1 := emit (EvPause t cid) (ci_put (t, cid) (mkCI (ci_old ci) (ci_nres ci) n) s) in
    match f with
    | PauseRaises k e => if Nat.eqb n k then (s1, Some e) else (s1, None)
    | _ => (s1, None)
    end
  | CNonAsync _ => (s, Some E_NONASYNC)
  | COverride cid var _ => (var_set var (ci_old (ci_get (t, cid) s)) s, None)
  end.

(* AsyncTask._resume_contexts (async_task.py 409-424): entry order, the first error wins *)
Definition resume_contexts (t : fid) (s : st) : st :=
  match get_task t s with
  | Some tk =>
    if tk_cact tk then s else
    let s0 := set_task t (tk_with_ctxs tk (tk_ctxs tk) true) s in
    let '(s1, err) := fold_left (fun acc c => let '(s, err) := acc in
                                              let '(s', e) := resume1 t c s in
                                              (s', match err with Some _ => err | None => e end))
                                (tk_ctxs tk) (s0, None) in
    match err with Some e => accept_error t e s1 | None => s1 end
  | None => s
  end.

(* AsyncTask._pause_contexts (async_task.py 391-407): reverse order, the last error wins *)
Definition pause_contexts (t : fid) (s : st) : st :=
  match get_task t s with
  | Some tk =>
    if negb (tk_cact tk) then s else
    let s0 := set_task t (tk_with_ctxs tk (tk_ctxs tk) false) s in
    let '(s1, err) := fold_left (fun acc c => let '(s, err) := acc in
                                              let '(s', e) := pause1 t c s in
                                              (s', match e with Some _ => e | None => err end))
                                (rev (tk_ctxs tk)) (s0, None) in
    match err with Some e => accept_error t e s1 | None => s1 end
  | None => s
  end.

(* ------------------------------------------------------------------ batches *)
Definition complete_item (h : fid) (o : outcome) (s : st) : st :=
  match get h s with
  | Some f => match f_out f with
              | Some _ => s
              | None => emit (EvItemDone h o) (put h (mkFut (Some o) (f_kind f)) s)
              end
  | None => s
  end.

(* the harness's _flush body: items in order; raises e before item number k when scripted *)
Fixpoint flush_body (items : list fid) (i : Z) (raise_at : option (Z * exn)) (s : st) : st * option exn :=
  match items with
  | [] => (s, match raise_at with Some (k, e) => if Z.eqb i k then Some e else None | None => None end)
  | h :: rest =>
    match raise_at with
    | Some (k, e) => if Z.eqb i k then (s, Some e) else
                       let s1 := match get h s with
                                 | Some (mkFut _ (KItem _ _ _ (ASet v))) => complete_item h (Ok v) s
                                 | Some (mkFut _ (KItem _ _ _ (AErr e'))) => complete_item h (Err e') s
                                 | _ => s
                                 end in
                       flush_body rest (i + 1) raise_at s1
    | None =>
      let s1 := match get h s with
                | Some (mkFut _ (KItem _ _ _ (ASet v))) => complete_item h (Ok v) s
                | Some (mkFut _ (KItem _ _ _ (AErr e'))) => complete_item h (Err e') s
                | _ => s
                end in
      flush_body rest (i + 1) raise_at s1
    end
  end.

(* BatchBase.flush -> _compute -> _flush -> set_value/set_error -> _computed (batching.py 64-134):
   the registry is switched before the body runs; afterwards every unset item gets the flush error
   or the "not set" AssertionError *)
Definition flush_batch (P : params) (k : Z * Z) (s : st) : st :=
  let b := get_batch k s in
  if b_done b then s else
  let kind := fst k in
  let s0 := if Z.eqb (cur_idx kind s) (snd k)
            then with_cur s (upd Z.eqb kind (snd k + 1) (cur s)) else s in
  let s1 := emit (EvFlush kind (snd k) (b_items b)) s0 in
  let '(s2, err) := flush_body (b_items b) 0 (ks_raise (kspec_of P kind)) s1 in
  let fill := match err with Some e => Err e | None => Err E_NOTSET end in
  let s3 := fold_left (fun s h => complete_item h fill s) (b_items b) s2 in
  put_batch k (mkB (b_items (get_batch k s3)) true) s3.

Definition prio_of (P : params) (k : Z * Z) (s : st) : Z * Z :=
  let n := Z.of_nat (length (b_items (get_batch k s))) in
  match ks_prio (kspec_of P (fst k)) with
  | PDefault => (0, n)
  | PBaseLen b => (b, n)
  | PBaseRevLen b => (b, - n)
  | PConst a b => (a, b)
  end.

Definition prio_lt (a b : Z * Z) : bool :=
  Z.ltb (fst a) (fst b) || (Z.eqb (fst a) (fst b) && Z.ltb (snd a) (snd b)).

Definition eligible (k : Z * Z) (s : st) : bool :=
  let b := get_batch k s in
  negb (b_done b) && negb (match b_items b with [] => true | _ => false end).

(* the loop of _select_batch_to_flush (scheduler.py 235-252) over a list in iteration order *)
Fixpoint first_max (P : params) (l : list (Z * Z)) (best : option (Z * Z)) (s : st) : option (Z * Z) :=
  match l with
  | [] => best
  | k :: l' =>
    match best with
    | None => first_max P l' (Some k) s
    | Some b => if prio_lt (prio_of P b s) (prio_of P k s) then first_max P l' (Some k) s
                else first_max P l' best s
    end
  end.

Definition is_max (P : params) (k : Z * Z) (l : list (Z * Z)) (s : st) : bool :=
  forallb (fun k' => negb (prio_lt (prio_of P k s) (prio_of P k' s))) l.

(* _select_batch_to_flush: prune, then pick a maximal batch; the oracle names which one the
   set iteration order produced, the model checks that this choice is legal *)
Definition select (P : params) (s : st) : option (Z * Z) * st :=
  let el := filter (fun k => eligible k s) (sb s) in
  let s1 := with_sb s el in
  match el with
  | [] => (None, s1)
  | _ =>
    match oracle s1 with
    | c :: rest =>
      if existsb (key_eqb c) el && is_max P c el s1 then (Some c, with_oracle s1 rest)
      else (first_max P el None s1, emit (EvIllegal (fst c) (snd c)) (with_oracle s1 rest))
    | [] => (first_max P el None s1, s1)
    end
  end.

(* _continue_with_batch + _flush_batch (scheduler.py 130-141, 203-221) *)
Definition continue_with_batch (P : params) (s : st) : st :=
  let '(c, s1) := select P s in
  match c with
  | None => s1
  | Some k =>
    let s2 := with_sb s1 (filter (fun k' => negb (key_eqb k' k)) (sb s1)) in
    emit (EvAfter (fst k) (snd k)) (flush_batch P k (emit (EvBefore (fst k) (snd k)) s2))
  end.

(* _schedule_batch (scheduler.py 118-128) *)
Definition schedule_batch (k : Z * Z) (s : st) : st :=
  if b_done (get_batch k s) then s
  else if existsb (key_eqb k) (sb s) then s else with_sb s (sb s ++ [k]).

(* ------------------------------------------------------------------ control *)
Inductive frame :=
| FTop                                     (* the outermost .value() call                             *)
| FValue (t : fid) (k : outcome -> prog)   (* body of t is inside h.value()                           *)
| FWait (root : fid)                       (* TaskScheduler.wait_for(root)                            *)
| FExec (init : nat)                       (* TaskScheduler._execute, with its init_num_tasks         *)
| FCont (t : fid) (old : option fid).      (* _continue_with_task(t), after saving active_task        *)

Inductive mode :=
| MValue (h : fid)                         (* FutureBase.value() entered                              *)
| MWaitHead                                (* wait_for: `while not task.is_computed()`                *)
| MAfterExec                               (* wait_for: _execute returned                             *)
| MExecLoop                                (* _execute: head of the while loop                        *)
| MResume (t : fid)                        (* AsyncTask._continue: head of `while True`               *)
| MRun (t : fid) (p : prog)                (* the generator body of t is executing                    *)
| MContRet                                 (* _continue returned normally                             *)
| MDeliver (o : outcome)                   (* value() returns / raises                                *)
| MUnwind (e : exn)                        (* a Python exception propagates through asynq frames      *)
| MDone (o : outcome)                      (* the outermost call finished                             *)
| MStuck.                                  (* ill-formed configuration (never reached from run_root)  *)

Record cfg := mkC { c_mode : mode; c_frames : list frame; c_st : st }.

Definition is_blocked (tk : task) (s : st) : bool :=
  existsb (fun d => negb (computed d s)) (tk_deps tk).

Definition pop_task (s : st) : st := with_tasks s (tl (tasks s)).

(* TaskScheduler.reset() as used by the MAX_TASK_STACK_SIZE guard (scheduler.py 93-101): the task stack and the set of
   scheduled batches are emptied; the active task found by the guard is kept (its code keeps running once it has
   received the RuntimeError) *)
Definition reset_sched (s : st) : st := with_tasks (with_sb s []) [].

(* the end of wait_for (scheduler.py 70-77): when the outermost wait is over, no scheduled batch is kept *)
Definition drop_sb (s : st) : st := match tasks s with [] => with_sb s [] | _ => s end.

Definition tk_set_ds (tk : task) (b : bool) : task :=
  mkTask (tk_gen tk) (tk_last tk) (tk_deps tk) (tk_ctxs tk) (tk_cact tk) b (tk_iter tk) (tk_next tk).

Definition step (P : params) (c : cfg) : cfg :=
  let s := c_st c in
  let fr := c_frames c in
  match c_mode c with
  | MDone _ | MStuck => c

  (* futures.py value 54-65 and the three _compute implementations *)
  | MValue h =>
    if computed h s then mkC (MDeliver (outcome_of h s)) fr s else
    match get h s with
    | Some (mkFut _ (KTask _)) => mkC MWaitHead (FWait h :: fr) s           (* async_task.py 107-117 *)
    | Some (mkFut _ (KItem kind idx _ _)) =>                                  (* batching.py 222-228   *)
      let s1 := flush_batch P (kind, idx) s in mkC (MDeliver (outcome_of h s1)) fr s1
    | Some (mkFut _ (KLazy o)) =>                                             (* futures.py 197-201    *)
      mkC (MDeliver o) fr (put h (mkFut (Some o) (KLazy o)) s)
    | _ => mkC (MDeliver (Err E_NOTIMPL)) fr s
    end

  (* scheduler.py wait_for 63-74 *)
  | MWaitHead =>
    match fr with
    | FWait root :: fr' =>
      if computed root s then mkC (MDeliver (outcome_of root s)) fr' (drop_sb s)
      else mkC MExecLoop (FExec (length (tasks s)) :: fr) (with_tasks s (root :: tasks s))
    | _ => mkC MStuck fr s
    end
  | MAfterExec =>
    match fr with
    | FWait root :: fr' =>
      if computed root s then mkC (MDeliver (outcome_of root s)) fr' (drop_sb s)
      else mkC MWaitHead fr (continue_with_batch P s)
    | _ => mkC MStuck fr s
    end

  (* scheduler.py _execute 76-116 and _handle_async_task 143-178 *)
  | MExecLoop =>
    match fr with
    | FExec init :: fr' =>
      if Nat.leb (length (tasks s)) init then mkC MAfterExec fr' s
      else if Z.ltb (p_maxstack P) (Z.of_nat (length (tasks s)))
      then mkC (MUnwind E_RUNTIME) fr (reset_sched s)
      else
        match tasks s with
        | [] => mkC MAfterExec fr' s
        | x :: _ =>
          if computed x s then mkC MExecLoop fr (pop_task s) else
          match get x s with
          | Some (mkFut _ (KTask tk)) =>
            if is_blocked tk s then
              if tk_ds tk then
                mkC MExecLoop fr (pop_task (pause_contexts x (set_task x (tk_set_ds tk false) s)))
              else
                let s1 := resume_contexts x (set_task x (tk_set_ds tk true) s) in
                let deps := match get_task x s1 with Some tk1 => tk_deps tk1 | None => [] end in
                let todo := filter (fun d => negb (computed d s1)) deps in
                mkC MExecLoop fr (with_tasks s1 (rev todo ++ tasks s1))
            else
              (* _continue_with_task 180-201 *)
              let s1 := resume_contexts x s in
              if computed x s1 then mkC MExecLoop fr s1      (* a resume() raised: already completed *)
              else mkC (MResume x) (FCont x (active s1) :: fr) (with_active s1 (Some x))
          | Some (mkFut _ (KItem kind idx _ _)) => mkC MExecLoop fr (pop_task (schedule_batch (kind, idx) s))
          | Some (mkFut _ (KLazy o)) => mkC MExecLoop fr (pop_task (put x (mkFut (Some o) (KLazy o)) s))
          | _ => mkC MExecLoop fr (pop_task s)
          end
        end
    | _ => mkC MStuck fr s
    end

  (* async_task.py _continue 164-201 and _continue_on_generator 203-247 *)
  | MResume t =>
    match get_task t s with
    | Some tk =>
      let o := unwrap (look s) (tk_last tk) in
      match tk_gen tk with
      | None =>
        match o with
        | Ok _ => if computed t s then mkC (MUnwind E_ALREADY) fr s            (* _queue_exit 285-297 *)
                  else mkC MContRet fr (complete_task t (Ok VNone) s)
        | Err e => mkC MContRet fr (accept_error t e s)
        end
      | Some k =>
        let tk1 := mkTask (tk_gen tk) YNone (if p_keep P then tk_deps tk else []) (tk_ctxs tk) (tk_cact tk)
                          (tk_ds tk) (tk_iter tk + 1) (tk_next tk) in
        mkC (MRun t (k o)) fr (emit (EvStep t (tk_iter tk) o) (set_task t tk1 s))
      end
    | None => mkC MStuck fr s
    end

  | MRun t p =>
    let close_gen (s : st) : st :=
        match get_task t s with
        | Some tk => set_task t (mkTask None (tk_last tk) (tk_deps tk) (tk_ctxs tk) (tk_cact tk) (tk_ds tk)
                                        (tk_iter tk) (tk_next tk)) s
        | None => s
        end in
    match p with
    | Ret v | Result v =>
      let s1 := close_gen s in
      if computed t s1 then mkC (MUnwind E_ALREADY) fr s1
      else mkC MContRet fr (complete_task t (Ok v) s1)
    | Raise e => mkC MContRet fr (accept_error t e (close_gen s))
    | Yield y k =>
      let '(y', s1) := inst t y s in
      match get_task t s1 with
      | Some tk =>
        (* _continue returns to the scheduler loop iff this yield ADDED dependencies (with
           KEEP_DEPENDENCIES the list still holds those of earlier yields): async_task.py 178-206 *)
        let newd := futs (extract y') in
        let deps := tk_deps tk ++ newd in
        let s2 := set_task t (mkTask (Some k) y' deps (tk_ctxs tk) (tk_cact tk) (tk_ds tk) (tk_iter tk) (tk_next tk)) s1 in
        match newd with
        | [] => mkC (MResume t) fr s2
        | _ => mkC MContRet fr s2
        end
      | None => mkC MStuck fr s1
      end
    | Let f k => let '(h, s1) := create t f s in mkC (MRun t (k h)) fr s1
    | Sync h k => mkC (MValue h) (FValue t k :: fr) s
    | Enter cx k => mkC (MRun t k) fr (enter_ctx t cx s)
    | Exit cx k => mkC (MRun t k) fr (exit_ctx t cx s)
    | ReadVar var k => mkC (MRun t (k (var_get var s))) fr (emit (EvRead t var (var_get var s)) s)
    | Probe k => mkC (MRun t (k (active s))) fr (emit (EvProbe t (active s)) s)
    end

  (* back in _continue_with_task (scheduler.py 198-201) *)
  | MContRet =>
    match fr with
    | FCont t old :: fr' =>
      let s1 := with_active s old in
      let s2 := match get_task t s1 with Some tk => set_task t (tk_set_ds tk false) s1 | None => s1 end in
      mkC MExecLoop fr' s2
    | _ => mkC MStuck fr s
    end

  | MDeliver o =>
    match fr with
    | FValue t k :: fr' => mkC (MRun t (k o)) fr' (emit (EvGot t o) s)
    | FTop :: _ => mkC (MDone o) [] s
    | _ => mkC MStuck fr s
    end

  (* no asynq frame has a finally/except on these paths: frames are simply popped *)
  | MUnwind e =>
    match fr with
    | FValue t k :: fr' => mkC (MRun t (k (Err e))) fr' (emit (EvGot t (Err e)) s)
    | FTop :: _ => mkC (MDone (Err e)) [] s
    | _ :: fr' => mkC (MUnwind e) fr' s
    | [] => mkC (MDone (Err e)) [] s
    end
  end.

Fixpoint run (P : params) (fuel : nat) (c : cfg) : cfg :=
  match fuel with
  | O => c
  | S n => match c_mode c with MDone _ | MStuck => c | _ => run P n (step P c) end
  end.

(* one top-level computation: create the root task from [p] and call .value() on it *)
Definition run_root (P : params) (fuel : nat) (p : prog) (s : st) : option outcome * st :=
  let '(h, s1) := create [] (FTask p) s in
  let c := run P fuel (mkC (MValue h) [FTop] s1) in
  let s2 := c_st c in
  let s3 := emit (EvSched (Z.of_nat (length (tasks s2))) (Z.of_nat (length (sb s2))) (active s2)) s2 in
  match c_mode c with
  | MDone o => (Some o, s3)
  | _ => (None, s3)
  end.

(* a history of computations on one thread's scheduler *)
Fixpoint run_history (P : params) (fuel : nat) (ps : list prog) (s : st) : list (option outcome) * st :=
  match ps with
  | [] => ([], s)
  | p :: ps' =>
    let '(o, s1) := run_root P fuel p s in
    let '(os, s2) := run_history P fuel ps' s1 in (o :: os, s2)
  end.

Definition run_case (P : params) (fuel : nat) (ps : list prog) : list (option outcome) * list event :=
  let '(os, s) := run_history P fuel ps (st0 P) in (os, rev (trace s)).
