(* Seq.v — the sequential, depth-first reference meaning of a task program (C01): a created task is
   evaluated on the spot, a batch item is what the (pointwise) service answers for it, a yielded
   structure is unwrapped left to right.  Defined for the yield-only "tree" fragment, in which every
   future is created inside the yield expression that awaits it (no stored handles, no synchronous
   calls, no reads of scoped state); the other constructs evaluate to E_NOTIMPL and are excluded by
   the [tree] predicate in the theorems.  Stdlib only. *)
From Asynq Require Export Prog.

Definition item_out (a : iact) : outcome :=
  match a with ASet v => Ok v | AErr e => Err e | ASkip => Err E_NOTSET end.

Fixpoint eval (p : prog) : outcome :=
  match p with
  | Ret v | Result v => Ok v
  | Raise e => Err e
  | Yield s k => eval (k (unwrap leaf_out s))
  | Enter _ k | Exit _ k => eval k
  | Let _ _ | Sync _ _ | ReadVar _ _ | Probe _ => Err E_NOTIMPL
  end
with fexpr_out (f : fexpr) : outcome :=
  match f with
  | FTask p => eval p
  | FItem _ _ a => item_out a
  | FConst v => Ok v
  | FError e => Err e
  | FLazy o => o
  end
with leaf_out (l : leaf) : outcome :=
  match l with
  | LNew f => fexpr_out f
  | LOld _ => Err E_NOTIMPL
  | LBad => Err E_TYPEERROR
  end.
