(* Asyncio.v — executable model of the asynq -> asyncio bridge (C15).

   Two meanings are given to the same batch-free tree programs:

   (i)  [eval]  : what `fn(args)` computes on the asynq scheduler, as far as a batch-free tree
                  program can tell: every future of a yielded structure is computed before the
                  parent is resumed (scheduler.py:143-178, async_task.py:164-201), then
                  `unwrap` walks the structure left to right and raises at the first failed
                  future / non-future (async_task.py:427-470);
   (ii) [drive] : what `await fn.asyncio(args)` does: the send/throw loop of
                  `convert_asynq_to_async` (decorators.py:109-140), `PureAsyncDecorator.asyncio`
                  (170-174), `AsyncProxyDecorator.asyncio` (290-302), `_call_pure` (179-187,
                  304-308), `AsyncDecorator.__call__` (219-230), `resolve_awaitables` and
                  `_gather` (asynq_to_async.py:32-70) and the `_asyncio_mode` ContextVar with
                  `AsyncioMode.__enter__/__exit__` (asynq_to_async.py:24-29, 73-90).

        An explicit asyncio_fn (AfNative q) is a coroutine function with a body q of its own, called as it is
                  (decorators.py:170-174): [drive q fl] with the flag fl of its awaiter, no AsyncioMode of its own.

   (iii) [driveH] refines (ii): the token of `with AsyncioMode():` lives in an AsyncioMode object on a
                  heap shared by all Tasks; one new object per activation (decorators.py:114, 137) -
                  what matters when a function is re-entered while it runs.  [run_case] uses it.

   Not modelled (assumption, named in the evidence): the event loop itself.  `_gather` is taken
   to return only after every task it created has finished (asyncio.wait(ALL_COMPLETED)), every
   task runs on a copy of the context taken when `ensure_future` is called, and tasks of a
   batch-free program do not influence each other, so the model serialises them left to right.  *)
From Asynq Require Export Base.

(* ------------------------------------------------------------------ values *)
(* The values of C15 programs.  Base.val (None, ints, tuples, lists, dicts) is extended here with
   exception *instances used as data*: `return ValueError(..)`, `ConstFuture(exc)`,
   `except Exception as e: results.append(e)`.  [VExc e] is the instance with identity e - the same
   identity space as [Err e], so "the object was raised" ([Err e]) and "the object was returned"
   ([Ok (VExc e)]) are different outcomes of the same instance.  Nothing in the bridge may look at
   the *type* of a result to decide whether a member failed: a Task's state does
   (task.result() raises iff the task failed, asynq_to_async.py:45-47), and on the asynq side
   FutureBase.value() raises iff _error is set (futures.py:54-64, 151-153), never because of what _value is.
   [val] and [outcome] below shadow Base.val / Base.outcome for this model and its proofs. *)
Inductive val :=
| VNone
| VInt (z : Z)
| VTuple (l : list val)
| VList (l : list val)
| VDict (l : list (Z * val))
| VExc (e : exn).                 (* an exception instance as a value (never raised by being a value) *)

Inductive outcome := Ok (v : val) | Err (e : exn).

(* ------------------------------------------------------------------ yielded structures *)
Inductive ystruct (A : Type) : Type :=
| YNone                                   (* None                                        *)
| YLeaf (a : A)                           (* a future / an awaitable                     *)
| YBad                                    (* anything else (e.g. an int)                 *)
| YTuple (l : list (ystruct A))
| YList (l : list (ystruct A))
| YDict (l : list (Z * ystruct A)).       (* insertion order                             *)
Arguments YNone {A}.
Arguments YLeaf {A} a.
Arguments YBad {A}.
Arguments YTuple {A} l.
Arguments YList {A} l.
Arguments YDict {A} l.

(* ------------------------------------------------------------------ callables *)
Inductive fkind := KGen | KPlain | KMethod.    (* generator function / plain function / method: tags *)
(* what `.asyncio()` of an @asynq() function is.  The type parameter P is the type of programs (tied to [prog]
   below): an explicit asyncio_fn is the user's own coroutine function and has a body of its own. *)
Inductive afn (P : Type) : Type :=
| AfNone                         (* no asyncio_fn: `.asyncio()` converts the asynq function      *)
| AfTwin                         (* asyncio_fn = a coroutine function that awaits the converted
                                    twin of the same body (observably the same as AfNone)        *)
| AfNative (q : P).              (* asyncio_fn = the user's own `async def`, body q.  It is called as it is
                                    (decorators.py:170-174): NOT under `with AsyncioMode()`, it runs with whatever
                                    the context of its awaiter holds.  In q, [Yield (YLeaf a) k] is
                                    `x = await g.asyncio(args)`, [Sync ..] is a plain synchronous call `x = g(args)`
                                    made by the coroutine, Ret / Raise end it (a [Yield] of a structure stands for
                                    `await resolve_awaitables(structure)`; the generator emits single awaits only) *)
Arguments AfNone {P}.
Arguments AfTwin {P}.
Arguments AfNative {P} q.
Record cfg (P : Type) : Type := mkcfg { cid : Z; ckind : fkind; cafn : afn P }.
Arguments mkcfg {P} cid ckind cafn.
Arguments cid {P} c.
Arguments ckind {P} c.
Arguments cafn {P} c.

Inductive leaf (P : Type) : Type :=
| LConst (v : val)                               (* ConstFuture(v)                               *)
| LCall (c : cfg P) (p : P)                       (* f.asynq(args), f an @asynq() function/method  *)
| LPxConst (c : Z) (v : val)                     (* px.asynq(args), px an @async_proxy() function
                                                    returning ConstFuture(v)                     *)
| LPxCall (c : Z) (c' : cfg P) (p : P).           (* ... returning f.asynq(args)                   *)
Arguments LConst {P} v.
Arguments LCall {P} c p.
Arguments LPxConst {P} c v.
Arguments LPxCall {P} c c' p.

(* A task body is a resumption: what it does up to its next yield, and how it goes on with what
   the yield delivers ([Ok v]: generator.send(v); [Err e]: generator.throw(e)).  try/except at
   any level is whatever the continuation does with [Err e]. *)
Inductive prog :=
| Ret (v : val)
| Raise (e : exn)
| Yield (s : ystruct (leaf prog)) (k : outcome -> prog)
| Sync (allow : bool) (a : leaf prog) (k : outcome -> prog).   (* x = g(args): plain synchronous call
                                                                 of an @asynq(allow_sync_call=allow) g *)

(* ------------------------------------------------------------------ observations *)
Inductive syncres := SRan | SRefused | SAllowed.
Inductive event :=
| EvBody (id : Z) (fl : bool)        (* a function body (or native coroutine, or proxy function) started and
                                        saw is_asyncio_mode() = fl                                    *)
| EvDone (id : Z) (o : outcome)      (* the call finished with o                                      *)
| EvSync (r : syncres).              (* a plain synchronous call ran / raised RuntimeError / was let
                                        through with a warning                                        *)

Definition tr3 := (outcome * bool * list event)%type.

(* ------------------------------------------------------------------ generic helpers *)
Section YMap.
  Variables A B : Type.
  Variable f : A -> B.
  Fixpoint ymap (s : ystruct A) : ystruct B :=
    match s with
    | YNone => YNone
    | YLeaf a => YLeaf (f a)
    | YBad => YBad
    | YTuple l => YTuple (map ymap l)
    | YList l => YList (map ymap l)
    | YDict l => YDict (map (fun kv => (fst kv, ymap (snd kv))) l)
    end.
End YMap.
Arguments ymap {A B} f s.

Section YLeaves.
  Variable A : Type.
  Fixpoint yleaves (s : ystruct A) : list A :=      (* left to right *)
    match s with
    | YNone | YBad => []
    | YLeaf a => [a]
    | YTuple l | YList l => concat (map yleaves l)
    | YDict l => concat (map (fun kv => yleaves (snd kv)) l)
    end.
End YLeaves.
Arguments yleaves {A} s.

(* ------------------------------------------------------------------ (i) the asynq meaning *)
(* unwrap (async_task.py:427-470): sequential walk, raises at the first failure it meets *)
Section SeqFirst.
  Variable X : Type.
  Variable f : X -> outcome.
  Fixpoint seq_first (l : list X) : exn + list val :=
    match l with
    | [] => inr []
    | x :: r =>
      match f x with
      | Err e => inl e
      | Ok v => match seq_first r with inl e => inl e | inr vs => inr (v :: vs) end
      end
    end.
End SeqFirst.
Arguments seq_first {X} f l.

Fixpoint unwrap (s : ystruct outcome) : outcome :=
  match s with
  | YNone => Ok VNone
  | YLeaf o => o
  | YBad => Err E_TYPEERROR
  | YTuple l => match seq_first unwrap l with inl e => Err e | inr vs => Ok (VTuple vs) end
  | YList l => match seq_first unwrap l with inl e => Err e | inr vs => Ok (VList vs) end
  | YDict l =>                           (* {key: unwrap(value) for key, value in dct.items()} *)
    match seq_first (fun kv => unwrap (snd kv)) l with
    | inl e => Err e
    | inr vs => Ok (VDict (combine (map fst l) vs))
    end
  end.

(* one future of a yielded structure, computed by the scheduler (flag is off: _call_pure builds
   a task, decorators.py:183-187; a proxy's function runs when `.asynq()` is called, 304-308) *)
Definition eval_leaf (rec : prog -> outcome * list event) (a : leaf prog) : outcome * list event :=
  match a with
  | LConst v => (Ok v, [])
  | LCall c p => let '(o, tr) := rec p in (o, EvBody (cid c) false :: tr ++ [EvDone (cid c) o])
  | LPxConst c v => (Ok v, [EvBody c false])
  | LPxCall c c' p =>
    let '(o, tr) := rec p in (o, EvBody c false :: EvBody (cid c') false :: tr ++ [EvDone (cid c') o])
  end.

Fixpoint eval (p : prog) : outcome * list event :=
  match p with
  | Ret v => (Ok v, [])
  | Raise e => (Err e, [])
  | Yield s k =>
    (* every future of the structure is computed (all of them, whatever the others do) ... *)
    let so := ymap (eval_leaf eval) s in
    (* ... then the generator is resumed with unwrap(structure) *)
    let '(o', tr') := eval (k (unwrap (ymap fst so))) in
    (o', concat (map snd (yleaves so)) ++ tr')
  | Sync _ a k =>
    (* AsyncDecorator.__call__, flag off: self._call_pure(args, kwargs).value() *)
    let '(o, tr) := eval_leaf eval a in
    let '(o', tr') := eval (k o) in (o', EvSync SRan :: tr ++ tr')
  end.

Definition out_of (p : prog) : outcome := fst (eval p).

(* ------------------------------------------------------------------ (ii) the asyncio meaning *)
(* The _asyncio_mode ContextVar of the current context is a bool.  AsyncioMode.__enter__:
   token = _asyncio_mode.set(True); the token remembers the value before.  __exit__ (run for a
   normal return and for an exception alike): _asyncio_mode.reset(token). *)
Definition mode_enter (fl : bool) : bool * bool := (true, fl).      (* (new value, token) *)
Definition mode_exit (fl token : bool) : bool := token.

(* _gather (asynq_to_async.py:32-47): tasks = [ensure_future(a) ...]; wait for ALL of them;
   [task.result() for task in tasks] raises the exception of the first failed task *)
Fixpoint first_error (rs : list outcome) : option exn :=
  match rs with
  | [] => None
  | Err e :: _ => Some e
  | Ok _ :: r => first_error r
  end.
Definition value_of (o : outcome) : val := match o with Ok v => v | Err _ => VNone end.
Definition gather (rs : list outcome) : exn + list val :=
  match first_error rs with Some e => inl e | None => inr (map value_of rs) end.

Definition o3 (r : tr3) : outcome := fst (fst r).
Definition f3 (r : tr3) : bool := snd (fst r).
Definition t3 (r : tr3) : list event := snd r.

Section Resolve.
  Variable A : Type.
  Variable await_leaf : A -> bool -> tr3.
  (* resolve_awaitables (asynq_to_async.py:50-70).  An awaitable is awaited in the caller's own
     context; the items of a list/tuple/dict each become a Task, which runs on a copy of the
     context: whatever a task does to the flag is not seen by the caller. *)
  Fixpoint resolve (s : ystruct A) (fl : bool) : tr3 :=
    match s with
    | YLeaf a => await_leaf a fl
    | YList l =>
      let rs := map (fun x => resolve x fl) l in
      (match gather (map o3 rs) with inl e => Err e | inr vs => Ok (VList vs) end, fl, concat (map t3 rs))
    | YTuple l =>
      let rs := map (fun x => resolve x fl) l in
      (match gather (map o3 rs) with inl e => Err e | inr vs => Ok (VTuple vs) end, fl, concat (map t3 rs))
    | YDict l =>
      let rs := map (fun kv => resolve (snd kv) fl) l in
      (match gather (map o3 rs) with
       | inl e => Err e
       | inr vs => Ok (VDict (combine (map fst l) vs))       (* zip(x.keys(), resolutions) *)
       end, fl, concat (map t3 rs))
    | YNone => (Ok VNone, fl, [])
    | YBad => (Err E_TYPEERROR, fl, [])
    end.
End Resolve.
Arguments resolve {A} await_leaf s fl.

(* PureAsyncDecorator.asyncio (decorators.py:170-174) + the coroutine made by
   convert_asynq_to_async (109-140): `with AsyncioMode():` around the whole send/throw loop (or
   around the plain call).  An explicit asyncio_fn is called as it is: no AsyncioMode. *)
Definition call_asyncio (drv : prog -> bool -> tr3) (c : cfg prog) (p : prog) (fl : bool) : tr3 :=
  match cafn c with
  | AfNative q =>
    (* `await asyncio_fn(args)` in the awaiter's own context: the coroutine's body sees the flag the
       awaiter has - on in the whole subtree of a converted coroutine (the `with AsyncioMode():` of
       decorators.py:114 surrounds the loop INCLUDING `await resolve_awaitables(result)`, line 127;
       Tasks made by _gather copy that context) - and what it leaves behind is what the awaiter sees *)
    let '(o, fl2, tr) := drv q fl in
    (o, fl2, EvBody (cid c) fl :: tr ++ [EvDone (cid c) o])
  | AfNone | AfTwin =>
    let '(fl1, tok) := mode_enter fl in
    let '(o, fl2, tr) := drv p fl1 in
    (o, mode_exit fl2 tok, EvBody (cid c) fl1 :: tr ++ [EvDone (cid c) o])
  end.

(* what `await x` does for one yielded future, in a context whose flag is fl.  In asyncio mode
   `.asynq()` has returned a coroutine (_call_pure, decorators.py:179-181, 304-306). *)
Definition await_leaf (drv : prog -> bool -> tr3) (a : leaf prog) (fl : bool) : tr3 :=
  match a with
  | LConst v => (Ok v, fl, [])                             (* isinstance(x, ConstFuture): x.value() *)
  | LCall c p => call_asyncio drv c p fl
  | LPxConst c v =>
    (* unwrap_coroutine (decorators.py:294-298): fut = await asyncio_fn(...) where asyncio_fn is the
       converted plain function: `with AsyncioMode(): return fn(...)`; ConstFuture -> its value *)
    let '(fl1, tok) := mode_enter fl in
    (Ok v, mode_exit fl1 tok, [EvBody c fl1])
  | LPxCall c c' p =>
    (* the proxy function runs inside AsyncioMode, so f.asynq() gives a coroutine; it is awaited
       after the with-block has been left *)
    let '(fl1, tok) := mode_enter fl in
    let fl2 := mode_exit fl1 tok in
    let '(o, fl3, tr) := call_asyncio drv c' p fl2 in
    (o, fl3, EvBody c fl1 :: tr)
  end.

(* the send/throw loop (decorators.py:118-131); fl is the flag of the running context *)
Fixpoint drive (p : prog) (fl : bool) {struct p} : tr3 :=
  match p with
  | Ret v => (Ok v, fl, [])                 (* StopIteration: return exc.value                     *)
  | Raise e => (Err e, fl, [])              (* any other exception leaves send()/throw() and the loop *)
  | Yield s k =>
    (* send = await resolve_awaitables(result)   /   except Exception as exc: exception = exc *)
    let '(o, fl1, tr) := resolve (await_leaf drive) s fl in
    let '(o2, fl2, tr2) := drive (k o) fl1 in (o2, fl2, tr ++ tr2)
  | Sync allow a k =>
    (* AsyncDecorator.__call__ (decorators.py:219-230) *)
    if fl then
      if allow then let '(o2, fl2, tr2) := drive (k (Ok VNone)) fl in (o2, fl2, EvSync SAllowed :: tr2)
      else let '(o2, fl2, tr2) := drive (k (Err E_RUNTIME)) fl in (o2, fl2, EvSync SRefused :: tr2)
    else
      let '(o, tr) := eval_leaf eval a in
      let '(o2, fl2, tr2) := drive (k o) fl in (o2, fl2, EvSync SRan :: tr ++ tr2)
  end.

Definition run_asyncio (a : leaf prog) (fl : bool) : tr3 := await_leaf drive a fl.
Definition run_seq (a : leaf prog) : outcome * list event := eval_leaf eval a.

(* ------------------------------------------------------------------ (iii) AsyncioMode instances, re-entered functions *)
(* [drive] keeps the token of `with AsyncioMode():` in the activation itself.  In the code the token
   lives in an attribute of an AsyncioMode *object* (asynq_to_async.py:81-90: `self._token = ...set(True)`
   in __enter__, `if self._token: reset(self._token)` in __exit__), and objects are shared by everything
   that runs on the loop - they are NOT copied with the context when `_gather` makes Tasks.  Which
   object an activation uses therefore matters as soon as one function is active more than once:
   recursion (f awaits f), a function called again by one of its callees, several activations of one
   function in one yielded list.  The refined interpreter below makes the objects explicit.

   heap: the AsyncioMode objects made so far.  [hnext] counts them, [hslots] is the log of `_token`
   assignments, newest first ([hget i] = current `_token` of object i; None = the class attribute
   `_token = None`).  The heap is threaded through the members of a `_gather` left to right (the
   serialisation of the event-loop assumption); the flag is not - every member starts from the
   caller's flag (context copy). *)
Record heap := mkheap { hnext : nat; hslots : list (nat * bool) }.
Definition heap0 : heap := mkheap 0 [].
Fixpoint hfind (i : nat) (l : list (nat * bool)) : option bool :=
  match l with
  | [] => None
  | jb :: r => if Nat.eqb (fst jb) i then Some (snd jb) else hfind i r
  end.
Definition hget (i : nat) (h : heap) : option bool := hfind i (hslots h).

(* which AsyncioMode object the activation with id [id] enters.  The code evaluates `AsyncioMode()`
   inside `wrapped`, once per call (decorators.py:114, 137): a new object every time, whatever function
   the activation belongs to. *)
Definition inst_policy := Z -> heap -> nat.
Definition fresh_inst : inst_policy := fun _ h => hnext h.

(* `with <object i>:`  __enter__: self._token = _asyncio_mode.set(True) *)
Definition enterH (i : nat) (fl : bool) (h : heap) : bool * heap :=
  (true, mkheap (S (hnext h)) ((i, fl) :: hslots h)).
(* __exit__: if self._token: _asyncio_mode.reset(self._token) *)
Definition exitH (i : nat) (fl : bool) (h : heap) : bool :=
  match hget i h with Some tok => tok | None => fl end.

Section Thread.
  Variables X R : Type.
  Variable f : X -> heap -> R * heap.
  Fixpoint thread (l : list X) (h : heap) : list R * heap :=
    match l with
    | [] => ([], h)
    | x :: r => let '(r1, h1) := f x h in let '(rs, h2) := thread r h1 in (r1 :: rs, h2)
    end.
End Thread.
Arguments thread {X R} f l h.

Section ResolveH.
  Variable A : Type.
  Variable await_leafH : A -> bool -> heap -> tr3 * heap.
  Fixpoint resolveH (s : ystruct A) (fl : bool) (h : heap) : tr3 * heap :=
    match s with
    | YLeaf a => await_leafH a fl h
    | YList l =>
      let '(rs, h') := thread (fun x h => resolveH x fl h) l h in
      ((match gather (map o3 rs) with inl e => Err e | inr vs => Ok (VList vs) end, fl, concat (map t3 rs)), h')
    | YTuple l =>
      let '(rs, h') := thread (fun x h => resolveH x fl h) l h in
      ((match gather (map o3 rs) with inl e => Err e | inr vs => Ok (VTuple vs) end, fl, concat (map t3 rs)), h')
    | YDict l =>
      let '(rs, h') := thread (fun kv h => resolveH (snd kv) fl h) l h in
      ((match gather (map o3 rs) with
        | inl e => Err e
        | inr vs => Ok (VDict (combine (map fst l) vs))
        end, fl, concat (map t3 rs)), h')
    | YNone => ((Ok VNone, fl, []), h)
    | YBad => ((Err E_TYPEERROR, fl, []), h)
    end.
End ResolveH.
Arguments resolveH {A} await_leafH s fl h.

Section DriveH.
  Variable pol : inst_policy.

  Definition call_asyncioH (drv : prog -> bool -> heap -> tr3 * heap) (c : cfg prog) (p : prog) (fl : bool) (h : heap)
    : tr3 * heap :=
    match cafn c with
    | AfNative q =>
      let '(r, h2) := drv q fl h in
      ((o3 r, f3 r, EvBody (cid c) fl :: t3 r ++ [EvDone (cid c) (o3 r)]), h2)
    | AfNone | AfTwin =>
      let i := pol (cid c) h in
      let '(fl1, h1) := enterH i fl h in
      let '(r, h2) := drv p fl1 h1 in
      ((o3 r, exitH i (f3 r) h2, EvBody (cid c) fl1 :: t3 r ++ [EvDone (cid c) (o3 r)]), h2)
    end.

  Definition await_leafH (drv : prog -> bool -> heap -> tr3 * heap) (a : leaf prog) (fl : bool) (h : heap)
    : tr3 * heap :=
    match a with
    | LConst v => ((Ok v, fl, []), h)
    | LCall c p => call_asyncioH drv c p fl h
    | LPxConst c v =>
      let i := pol c h in
      let '(fl1, h1) := enterH i fl h in
      ((Ok v, exitH i fl1 h1, [EvBody c fl1]), h1)
    | LPxCall c c' p =>
      let i := pol c h in
      let '(fl1, h1) := enterH i fl h in
      let fl2 := exitH i fl1 h1 in
      let '(r, h2) := call_asyncioH drv c' p fl2 h1 in
      ((o3 r, f3 r, EvBody c fl1 :: t3 r), h2)
    end.

  Fixpoint driveH (p : prog) (fl : bool) (h : heap) {struct p} : tr3 * heap :=
    match p with
    | Ret v => ((Ok v, fl, []), h)
    | Raise e => ((Err e, fl, []), h)
    | Yield s k =>
      let '(r, h1) := resolveH (await_leafH driveH) s fl h in
      let '(r2, h2) := driveH (k (o3 r)) (f3 r) h1 in ((o3 r2, f3 r2, t3 r ++ t3 r2), h2)
    | Sync allow a k =>
      if fl then
        if allow then let '(r2, h2) := driveH (k (Ok VNone)) fl h in ((o3 r2, f3 r2, EvSync SAllowed :: t3 r2), h2)
        else let '(r2, h2) := driveH (k (Err E_RUNTIME)) fl h in ((o3 r2, f3 r2, EvSync SRefused :: t3 r2), h2)
      else
        (* flag off: the scheduler runs the callee; no AsyncioMode object is made there *)
        let '(o, tr) := eval_leaf eval a in
        let '(r2, h2) := driveH (k o) fl h in ((o3 r2, f3 r2, EvSync SRan :: tr ++ t3 r2), h2)
    end.

  Definition run_asyncioH (a : leaf prog) (fl : bool) (h : heap) : tr3 * heap := await_leafH driveH a fl h.
End DriveH.

(* the caller: a user coroutine that awaits root.asyncio(args) in its own context (flag fl0), keeps
   running and then makes plain synchronous calls g(args) of @asynq(allow_sync_call=allow) functions *)
Definition probe_prog (ap : bool * leaf prog) : prog :=
  Sync (fst ap) (snd ap) (fun o => match o with Ok v => Ret v | Err e => Raise e end).
Fixpoint run_probes (ps : list (bool * leaf prog)) (fl : bool) : list tr3 :=
  match ps with
  | [] => []
  | ap :: r => let x := drive (probe_prog ap) fl in x :: run_probes r (f3 x)
  end.

(* what the correspondence compares: `root(args)` on the scheduler, and
   `await root.asyncio(args)` started in a context whose flag is fl0 (refined interpreter, the
   code's own instance policy), followed by the caller's plain synchronous calls *)
Definition run_case (root : leaf prog) (probes : list (bool * leaf prog)) (fl0 : bool)
  : outcome * list event * (outcome * bool * list event) * list tr3 :=
  let r := fst (run_asyncioH fresh_inst root fl0 heap0) in
  (run_seq root, r, run_probes probes (f3 r)).
